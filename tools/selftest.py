#!/usr/bin/env python3
"""tools/selftest.py [PID ...] - binding demonstration: apply each mutants/<PID>-*.diff (and seeded/<id>/patch.diff)
to a scratch copy of /repo outside /repo and /verif, run the property's quick check against it and expect a VIOLATION."""
import glob
import json
import os
import shutil
import subprocess
import sys
import tempfile

ROOT = os.path.dirname(os.path.dirname(os.path.abspath(__file__)))


def run_one(pid, patch):
    d = tempfile.mkdtemp(prefix="librfn-mut.")
    try:
        for sub in ("include", "librfn"):
            shutil.copytree(os.path.join("/repo", sub), os.path.join(d, sub), ignore=shutil.ignore_patterns("*.o", "*.a"))
        p = subprocess.run(["patch", "-p1", "-s", "-i", patch], cwd=d, capture_output=True, text=True)
        if p.returncode != 0:
            return "PATCH-FAILED " + p.stdout[-300:] + p.stderr[-300:]
        env = dict(os.environ, VERIF_REPO=d)
        p = subprocess.run([os.path.join(ROOT, "check"), pid, "quick"], cwd=ROOT, env=env, capture_output=True, text=True)
        viol = [l for l in p.stdout.splitlines() if l.startswith("VIOLATION") or l.startswith("detail")]
        return "rc=%d %s" % (p.returncode, " | ".join(v[:160] for v in viol))
    finally:
        shutil.rmtree(d, ignore_errors=True)


def main():
    want = [a.upper() for a in sys.argv[1:]]
    items = []
    for f in sorted(glob.glob(os.path.join(ROOT, "mutants", "*.diff"))):
        pid = os.path.basename(f).split("-")[0]
        items.append((pid, f))
    for mf in sorted(glob.glob(os.path.join(ROOT, "seeded", "*", "meta.json"))):
        m = json.load(open(mf))
        for pid in m.get("detected_by", [m.get("property")]):
            items.append((pid, os.path.join(os.path.dirname(mf), "patch.diff")))
    bad = 0
    for pid, f in items:
        if want and pid not in want:
            continue
        r = run_one(pid, f)
        ok = r.startswith("rc=1")
        bad += not ok
        print("%s %-50s %s" % ("CAUGHT" if ok else "MISSED", os.path.relpath(f, ROOT), r), flush=True)
    return 1 if bad else 0


if __name__ == "__main__":
    sys.exit(main())
