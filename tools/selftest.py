#!/usr/bin/env python3
"""tools/selftest.py [PID ...] - binding demonstration: apply each mutants/<PID>-*.diff (and seeded/<id>/patch.diff)
to a scratch copy of /repo outside /repo and /verif, run the property's quick check against it and expect a VIOLATION."""
import glob
import json
import os
import shutil
import subprocess
import sys
import tempfile

ROOT = os.path.dirname(os.path.dirname(os.path.abspath(__file__)))


def run_one(pid, patch):
    d = tempfile.mkdtemp(prefix="librfn-mut.")
    try:
        for sub in ("include", "librfn"):
            shutil.copytree(os.path.join("/repo", sub), os.path.join(d, sub), ignore=shutil.ignore_patterns("*.o", "*.a"))
        p = subprocess.run(["patch", "-p1", "-s", "-i", patch], cwd=d, capture_output=True, text=True)
        if p.returncode != 0:
            return "PATCH-FAILED " + p.stdout[-300:] + p.stderr[-300:]
        env = dict(os.environ, VERIF_REPO=d)
        p = subprocess.run([os.path.join(ROOT, "check"), pid, os.environ.get("SELFTEST_TIER", "quick")], cwd=ROOT, env=env, capture_output=True, text=True)
        viol = [l for l in p.stdout.splitlines() if l.startswith("VIOLATION") or l.startswith("detail")]
        return "rc=%d %s" % (p.returncode, " | ".join(v[:160] for v in viol))
    finally:
        shutil.rmtree(d, ignore_errors=True)


def main():
    want = [a.upper() for a in sys.argv[1:]]
    items = []
    for f in sorted(glob.glob(os.path.join(ROOT, "mutants", "*.diff"))):
        pid = os.path.basename(f).split("-")[0]
        items.append((pid, f))
    for mf in sorted(glob.glob(os.path.join(ROOT, "seeded", "*", "meta.json"))):
        m = json.load(open(mf))
        if m.get("expected_miss"):
            print("KNOWN-MISS %s %s" % (os.path.basename(os.path.dirname(mf)), m["expected_miss"]), flush=True)
            continue
        if m.get("selftest_tier") == "thorough" and not os.environ.get("SELFTEST_THOROUGH"):
            print("THOROUGH-ONLY %s (caught by the thorough tier of %s; set SELFTEST_THOROUGH=1 to run it)" % (os.path.basename(os.path.dirname(mf)), m.get("detected_by")), flush=True)
            continue
        pids = m.get("detected_by") or [m.get("property")]
        if os.environ.get("SELFTEST_PRIMARY"):       # one run per mutant: the check of its own property if that catches it
            pids = [m.get("property")] if m.get("property") in pids else pids[:1]
        for pid in pids:
            items.append((pid, os.path.join(os.path.dirname(mf), "patch.diff")))
    # behaviour-preserving changes (benign/): the checks must stay quiet
    quiet = []
    for mf in sorted(glob.glob(os.path.join(ROOT, "benign", "*", "meta.json"))):
        m = json.load(open(mf))
        for pid in m.get("checks", {m.get("property"): 0}):
            quiet.append((pid, os.path.join(os.path.dirname(mf), "patch.diff")))
    import re
    rx = re.compile(os.environ.get("SELFTEST_MATCH", "."))       # restrict to patches whose path matches (e.g. 'benign/' or 'seeded/C..c-')
    items = [(pid, f) for pid, f in items if rx.search(f)]
    quiet = [(pid, f) for pid, f in quiet if rx.search(f)]
    jobs = int(os.environ.get("SELFTEST_JOBS", "3"))
    todo = [(pid, f, 1) for pid, f in items if not want or pid in want] + [(pid, f, 0) for pid, f in quiet if not want or pid in want]
    from concurrent.futures import ThreadPoolExecutor
    bad = 0
    with ThreadPoolExecutor(max_workers=jobs) as ex:
        for (pid, f, expect), r in zip(todo, ex.map(lambda t: run_one(t[0], t[1]), todo)):
            ok = r.startswith("rc=%d" % expect)
            if not expect and r.startswith("rc=2"):
                # exit 2 = infrastructure error (e.g. a driver that names a private field the change renamed): not an alarm, but not a verdict either
                print("NOT-JUDGED %s %-50s %s" % (pid, os.path.relpath(f, ROOT), r), flush=True)
                continue
            bad += not ok
            word = ("CAUGHT" if ok else "MISSED") if expect else ("QUIET" if ok else "FALSE-ALARM")
            print("%s %s %-50s %s" % (word, pid, os.path.relpath(f, ROOT), r), flush=True)
    return 1 if bad else 0




def corrupt_demo():
    """binding demonstration in the other direction: a recorded trace with ONE field changed must be rejected"""
    sys.path.insert(0, os.path.join(ROOT, "tools"))
    import re
    import vlib
    run = vlib.Run("XSELF", "quick")
    exe = vlib.build_driver(run, "list_drv", "list_drv.c", ["librfn/list.c"])
    tr = vlib.exec_script(run, exe, [], "Gen 3 20 60 5 2\n", run.path("t.ndjson"), "record")
    ok, n, _ = vlib.validate_trace(run, "TraceList", "TraceList.cfg", tr, tag="orig")
    print("recorded trace: %d events, accepted=%s" % (n, ok))
    lines = open(tr).read().splitlines()
    bad = 0
    for k, (pat, rep) in enumerate([(r'"r":0', '"r":1'), (r'"seq":\[\[', '"seq":[[2,'), (r'"itl":0', '"itl":1')]):
        idx = next(i for i, l in enumerate(lines) if i > 20 + 30 * k and re.search(pat, l))
        mod = list(lines)
        mod[idx] = re.sub(pat, rep, mod[idx], count=1)
        p = run.path("corrupt%d.ndjson" % k)
        open(p, "w").write("\n".join(mod) + "\n")
        ok2, matched, _ = vlib.validate_trace(run, "TraceList", "TraceList.cfg", p, tag="corrupt%d" % k)
        print("corrupted event %d (%s -> %s): accepted=%s, rejected at event %d" % (idx + 1, pat, rep, ok2, matched + 1))
        bad += bool(ok2) or (matched + 1 != idx + 1)
    return 1 if (bad or not ok) else 0


if __name__ == "__main__" and len(sys.argv) > 1 and sys.argv[1] == "--corrupt":
    sys.exit(corrupt_demo())

if __name__ == "__main__":
    sys.exit(main())
