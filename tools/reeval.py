#!/usr/bin/env python3
"""tools/reeval.py <seeded-id> [check ...] : run the given checks (default: the mutant's own property and every check already
listed in its meta.json) against /repo + seeded/<id>/patch.diff and rewrite meta.json's "checks" / "detected_by"."""
import json, os, shutil, subprocess, sys, tempfile
ROOT = os.path.dirname(os.path.dirname(os.path.abspath(__file__)))


def main():
    sid = sys.argv[1]
    md = os.path.join(ROOT, "seeded", sid)
    meta = json.load(open(os.path.join(md, "meta.json")))
    checks = sys.argv[2:] or sorted(set([meta["property"]] + list(meta.get("checks", {}).keys())))
    for chk in checks:
        d = tempfile.mkdtemp(prefix="librfn-re.")
        try:
            for sub in ("include", "librfn"):
                shutil.copytree(os.path.join("/repo", sub), os.path.join(d, sub), ignore=shutil.ignore_patterns("*.o", "*.a"))
            p = subprocess.run(["patch", "-p1", "-s", "-i", os.path.join(md, "patch.diff")], cwd=d, capture_output=True, text=True)
            if p.returncode != 0:
                print(sid, chk, "PATCH-FAILED")
                continue
            p = subprocess.run([os.path.join(ROOT, "check"), chk, os.environ.get("REEVAL_TIER", "quick")], cwd=ROOT, env=dict(os.environ, VERIF_REPO=d),
                               capture_output=True, text=True, timeout=3000)
            lines = [l for l in p.stdout.splitlines() if l.startswith(("detail", "VIOLATION"))]
            meta.setdefault("checks", {})[chk] = {"rc": p.returncode, "detail": " | ".join(l[:400] for l in lines)}
            print(sid, chk, "rc=%d" % p.returncode, flush=True)
        finally:
            shutil.rmtree(d, ignore_errors=True)
    meta["detected_by"] = [c for c, v in meta["checks"].items() if isinstance(v, dict) and v.get("rc") == 1]
    json.dump(meta, open(os.path.join(md, "meta.json"), "w"), indent=1)


if __name__ == "__main__":
    main()
