#!/usr/bin/env python3
"""tools/ben_eval.py <PID> <worktree> [k ...]
Runs the property's quick check (and any in BEN_CHECKS=Cxx,Cyy) against a scratch copy of /repo with each
behaviour-preserving sub-agent change <worktree>/_ben/<k>/patch.diff applied.  A property-preserving change must NOT
raise an alarm: rc 0 expected.  Files the change under /verif/benign/<PID>r-<k>/ with meta.json."""
import json, os, re, shutil, subprocess, sys, tempfile
ROOT = os.path.dirname(os.path.dirname(os.path.abspath(__file__)))

def sh(cmd, cwd=None, timeout=1800, env=None):
    p = subprocess.run(cmd, shell=True, cwd=cwd, capture_output=True, text=True, timeout=timeout, env=env)
    return p.returncode, p.stdout + p.stderr

def main():
    pid, wt = sys.argv[1].upper(), sys.argv[2]
    ks = sys.argv[3:] or sorted(os.listdir(os.path.join(wt, "_ben")))
    checks = os.environ.get("BEN_CHECKS", pid).split(",")
    for k in ks:
        md = os.path.join(wt, "_ben", k)
        patch = os.path.join(md, "patch.diff")
        if not os.path.exists(patch):
            continue
        meta = {"property": pid, "kind": "behaviour-preserving change (sub-agent); expected: no alarm", "checks": {}}
        for chk in checks:
            d = tempfile.mkdtemp(prefix="librfn-ben.")
            try:
                for sub in ("include", "librfn"):
                    shutil.copytree(os.path.join("/repo", sub), os.path.join(d, sub), ignore=shutil.ignore_patterns("*.o", "*.a"))
                rc, out = sh("patch -p1 -s -i '%s'" % patch, cwd=d)
                if rc != 0:
                    meta["checks"][chk] = "patch failed: " + out[-200:]
                    continue
                rc, out = sh("./check %s quick" % chk, cwd=ROOT, env=dict(os.environ, VERIF_REPO=d))
                det = [l for l in out.splitlines() if l.startswith("detail") or l.startswith("VIOLATION") or l.startswith("INFRA")]
                meta["checks"][chk] = {"rc": rc, "detail": " | ".join(x[:400] for x in det)}
            finally:
                shutil.rmtree(d, ignore_errors=True)
        meta["false_alarm"] = [c for c, r in meta["checks"].items() if isinstance(r, dict) and r["rc"] == 1]
        dest = os.path.join(ROOT, "benign", "%s%s-%s" % (pid, os.environ.get("BEN_TAG", "r"), k))
        shutil.rmtree(dest, ignore_errors=True)
        os.makedirs(dest)
        shutil.copy(patch, dest)
        if os.path.exists(os.path.join(md, "README.txt")):
            shutil.copy(os.path.join(md, "README.txt"), dest)
        json.dump(meta, open(os.path.join(dest, "meta.json"), "w"), indent=1)
        print("%sr-%s false_alarm=%s %s" % (pid, k, meta["false_alarm"], {c: (r["rc"] if isinstance(r, dict) else r) for c, r in meta["checks"].items()}), flush=True)
        for c, r in meta["checks"].items():
            if isinstance(r, dict) and r["rc"] != 0:
                print("     ", c, r["detail"][:600])

main()
