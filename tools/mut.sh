#!/bin/sh
# tools/mut.sh <prop> <file> <sed-expr> : run a quick check against a scratch mutated copy of /repo (binding demo)
set -e
D=$(mktemp -d /tmp/librfn-mut.XXXXXX)
cp -r /repo/include /repo/librfn "$D"/
sed -i "$3" "$D/$2"
if diff -q "$D/$2" "/repo/$2" >/dev/null; then echo "MUTATION DID NOT APPLY"; rm -rf "$D"; exit 3; fi
cd /verif && VERIF_REPO="$D" ./check "$1" quick 2>&1 | grep -E "VIOLATION|detail|rc=|INFRA" | cut -c1-400
rm -rf "$D"
