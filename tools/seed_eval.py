#!/usr/bin/env python3
"""tools/seed_eval.py <PID> <worktree> [k ...]
Confirms each sub-agent mutation in <worktree>/_mut/<k>/ (make check still passes with it, demo fails with it and
passes without it), runs the property's quick check against a patched scratch copy, and files it under
/verif/seeded/<PID>-<k>/ (patch.diff, demo, README, meta.json)."""
import json
import os
import re
import shutil
import subprocess
import sys
import tempfile

ROOT = os.path.dirname(os.path.dirname(os.path.abspath(__file__)))


def sh(cmd, cwd=None, timeout=900, env=None):
    p = subprocess.run(cmd, shell=True, cwd=cwd, capture_output=True, text=True, timeout=timeout, env=env)
    return p.returncode, p.stdout + p.stderr


def main():
    pid, wt = sys.argv[1].upper(), sys.argv[2]
    ks = sys.argv[3:] or sorted(os.listdir(os.path.join(wt, "_mut")))
    checks = os.environ.get("SEED_CHECKS", pid).split(",")
    for k in ks:
        md = os.path.join(wt, "_mut", k)
        patch = os.path.join(md, "patch.diff")
        if not os.path.exists(patch):
            continue
        meta = {"property": pid, "source": "sub-agent, scratch worktree %s" % wt, "ran": []}
        sh("git checkout -- . && git clean -fdq -e _mut", cwd=wt)
        rc, out = sh("git apply '%s'" % patch, cwd=wt)
        if rc != 0:
            print(pid, k, "patch does not apply:", out[-300:])
            continue
        # tests/ringbuftest spins for ever when its consumer thread times out on a loaded machine (producer: while (!put);):
        # bound the run and try again
        passed = -1
        for attempt in range(3):
            sh("pkill -f tests/ringbuftest; true")
            rc, out = sh("timeout 300 make -j8 check 2>&1 | grep -E '^# (TOTAL|PASS|FAIL|ERROR)'", cwd=wt)
            m = re.search(r"# PASS:\s+(\d+)", out)
            passed = int(m.group(1)) if m else -1
            if passed == 17:
                break
        meta["make_check_with_patch"] = out.strip().replace("\n", " ")
        demo = os.path.join(md, "demo.sh")
        d_with = d_without = None
        if os.path.exists(demo):
            d_with, o1 = sh("sh '%s' '%s'" % (demo, wt), cwd=md, timeout=600)
        sh("git checkout -- .", cwd=wt)
        if os.path.exists(demo):
            d_without, o2 = sh("sh '%s' '%s'" % (demo, wt), cwd=md, timeout=600)
        meta["demo_exit_with_patch"] = d_with
        meta["demo_exit_without_patch"] = d_without
        confirmed = passed == 17 and d_with not in (0, None) and d_without == 0
        meta["confirmed"] = confirmed
        # our checks against a patched scratch copy
        results = {}
        for chk in checks:
            d = tempfile.mkdtemp(prefix="librfn-seed.")
            try:
                for sub in ("include", "librfn"):
                    shutil.copytree(os.path.join("/repo", sub), os.path.join(d, sub), ignore=shutil.ignore_patterns("*.o", "*.a"))
                rc, out = sh("patch -p1 -s -i '%s'" % patch, cwd=d)
                if rc != 0:
                    results[chk] = "patch failed on /repo copy: " + out[-200:]
                    continue
                rc, out = sh("./check %s quick" % chk, cwd=ROOT, env=dict(os.environ, VERIF_REPO=d), timeout=1500)
                det = [l for l in out.splitlines() if l.startswith("detail") or l.startswith("VIOLATION")]
                results[chk] = {"rc": rc, "detail": " | ".join(x[:300] for x in det)}
            finally:
                shutil.rmtree(d, ignore_errors=True)
        meta["checks"] = results
        meta["detected_by"] = [c for c, r in results.items() if isinstance(r, dict) and r["rc"] == 1]
        readme = os.path.join(md, "README.txt")
        meta["needs"] = open(readme).read()[:1500] if os.path.exists(readme) else ""
        meta["ran"] = ["git apply patch.diff; make -j8 check (17/17 expected)", "sh demo.sh <worktree> with and without the patch",
                       "VERIF_REPO=<patched copy> ./check <id> quick"]
        if confirmed:
            dest = os.path.join(ROOT, "seeded", "%s%s-%s" % (pid, os.environ.get("SEED_TAG", ""), k))
            shutil.rmtree(dest, ignore_errors=True)
            shutil.copytree(md, dest)
            json.dump(meta, open(os.path.join(dest, "meta.json"), "w"), indent=1)
        print("%s%s-%s confirmed=%s make_check=%s demo(with,without)=(%s,%s) detected_by=%s" % (
            pid, os.environ.get("SEED_TAG", ""), k, confirmed, passed, d_with, d_without, meta["detected_by"]), flush=True)
        for c, r in results.items():
            print("    ", c, r if not isinstance(r, dict) else (r["rc"], r["detail"][:250]))
    sh("git checkout -- .", cwd=wt)


if __name__ == "__main__":
    main()
