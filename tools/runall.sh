#!/bin/sh
# tools/runall.sh [quick|thorough] [ids...] : run every registered check, print one status line each
cd "$(dirname "$0")/.."
tier=${1:-quick}; shift 2>/dev/null
ids=${*:-$(python3 -c "import json;print(' '.join(c['property_id'] for c in json.load(open('MANIFEST.json'))['checks']))")}
for id in $ids; do
  out=$(./check $id $tier 2>&1); rc=$?
  echo "$id rc=$rc $(echo "$out" | tail -1)"
  echo "$out" | grep -E "^(VIOLATION|KNOWN-FINDING|INFRA)" 
done
