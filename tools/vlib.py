"""Shared machinery: run TLC, export behaviours, build/run drivers, validate
traces, write evidence.  python3 stdlib only."""
import hashlib
import json
import os
import re
import shutil
import subprocess
import sys
import time

sys.path.insert(0, os.path.dirname(os.path.abspath(__file__)))
import tlaval  # noqa: E402

ROOT = os.path.dirname(os.path.dirname(os.path.abspath(__file__)))
REPO = os.environ.get("VERIF_REPO", "/repo")
SPEC = os.path.join(ROOT, "spec")
HARNESS = os.path.join(ROOT, "harness")
TLA_CP = "/opt/veriftools/tla/tla2tools.jar:/opt/veriftools/tla/CommunityModules-deps.jar"
NCPU = os.cpu_count() or 4


class Infra(Exception):
    """infrastructure failure: exit 2, never a VIOLATION"""


class Violation(Exception):
    def __init__(self, msg, replay=None, key=None):
        Exception.__init__(self, msg)
        self.replay = replay
        self.key = key


def log(*a):
    print(*a, flush=True)


def sh(cmd, timeout=600, env=None, cwd=None, inp=None):
    e = dict(os.environ)
    if env:
        e.update(env)
    try:
        p = subprocess.run(cmd, stdout=subprocess.PIPE, stderr=subprocess.STDOUT, timeout=timeout,
                           env=e, cwd=cwd, input=inp)
    except subprocess.TimeoutExpired as ex:
        return 124, (ex.stdout or b"").decode("utf-8", "replace") + "\n[timeout after %ss]" % timeout
    return p.returncode, p.stdout.decode("utf-8", "replace")


# --------------------------------------------------------------------------
# run context / evidence


class Run:
    def __init__(self, pid, tier, level="model_checking"):
        self.pid = pid
        self.tier = tier
        self.level = level
        self.seed = int(os.environ.get("VERIF_SEED", "1") or "1")
        self.t0 = time.time()
        # a run against a scratch copy (mutation run) gets a build directory and replay names of its own, so that several
        # can run side by side with one another and with a run against /repo
        self.scratch = "" if os.path.realpath(REPO) == "/repo" else "-" + hashlib.sha1(os.path.realpath(REPO).encode()).hexdigest()[:8]
        self.build = os.path.join(ROOT, "build", "%s-%s%s" % (pid, tier, self.scratch))
        shutil.rmtree(self.build, ignore_errors=True)
        os.makedirs(self.build, exist_ok=True)
        os.makedirs(os.path.join(ROOT, "replays"), exist_ok=True)
        os.makedirs(os.path.join(ROOT, "evidence"), exist_ok=True)
        self.states = 0
        self.transitions = 0
        self.traces = 0
        self.events = 0
        self.evaluations = 0
        self.hashes = set()
        self.samples = []
        self.tlc_runs = []
        self.coverage = {}
        self.exhaustive = True
        self.notes = []
        self.assumptions = []
        self.violations = 0
        self.known = []
        self.extra = {}
        self.rule = ""

    def path(self, *a):
        return os.path.join(self.build, *a)

    def thorough(self):
        return self.tier == "thorough"

    def add_sample(self, s, limit=3):
        if len(self.samples) < limit:
            self.samples.append(s)

    def count_case(self, obj, nontrivial=True):
        self.evaluations += 1
        if nontrivial:
            h = hashlib.sha1(json.dumps(obj, sort_keys=True, default=str).encode()).digest()[:10]
            self.hashes.add(h)

    def write_evidence(self):
        cov = {
            "states": self.states,
            "transitions": self.transitions,
            "traces_validated_against_impl": self.traces,
            "events_validated": self.events,
            "evaluations": max(self.evaluations, self.traces),
            "distinct_nontrivial": len(self.hashes),
            "rule": self.rule,
            "samples": self.samples or ["(none)"],
            "exhaustive": bool(self.exhaustive),
            "tlc_runs": self.tlc_runs,
            "per_action_coverage": self.coverage,
            "notes": self.notes,
            "known_findings_reported": self.known,
        }
        cov.update(self.extra)
        ev = {
            "property_id": self.pid,
            "tier": self.tier,
            "seed": self.seed,
            "level": self.level,
            "coverage": cov,
            "assumptions": self.assumptions,
            "wall_s": round(time.time() - self.t0, 2),
            "violations": self.violations,
        }
        p = os.path.join(ROOT, "evidence", "%s.json" % self.pid)
        if os.path.realpath(REPO) != "/repo" or self.pid.startswith("X"):   # growth modules are not listed properties
            p = self.path("evidence-%s.json" % self.pid)   # scratch copies (mutation runs) never touch evidence/
        with open(p + ".tmp", "w") as f:
            json.dump(ev, f, indent=1, default=str)
        os.replace(p + ".tmp", p)

    def cleanup(self, passed=False):
        # keep build dir small: remove dumps and TLC metadirs; traces and scripts too when the check passed
        for root, dirs, files in os.walk(self.build):
            for fn in files:
                if fn.endswith(".dot") or fn.startswith("sim_") or (passed and (fn.endswith(".ndjson") or fn.endswith(".script") or fn.endswith(".o"))):
                    try:
                        os.unlink(os.path.join(root, fn))
                    except OSError:
                        pass
        for d in os.listdir(self.build):
            if d.startswith("md-"):
                shutil.rmtree(os.path.join(self.build, d), ignore_errors=True)


# --------------------------------------------------------------------------
# known findings


def load_known(pid):
    """-> list of (key, text) for 'known:' entries of this property"""
    out = []
    p = os.path.join(ROOT, "KNOWN_FINDINGS.txt")
    if not os.path.exists(p):
        return out
    for line in open(p):
        line = line.strip()
        m = re.match(r"known:\s+property=(\S+)\s+key=(\S+)\s+(.*)", line)
        if m and m.group(1) == pid:
            out.append((m.group(2), m.group(3)))
    return out


# --------------------------------------------------------------------------
# TLC

_cov_re = re.compile(r"^<(\w+) line (\d+), col \d+ to line \d+, col \d+ of module (\w+)(?: \([\d ]+\))?>: (\d+):(\d+)")


def tlc(run, module, cfg, mode="bfs", workers=None, dump=None, sim=None, env=None, timeout=1100,
        tag=None, coverage=True, depth=None, xmx="20g", constants_note=None, deadlock=None, dfs_queue=False,
        view_ok=True, spec_dir=None):
    """Run TLC on spec/<module>.tla with spec/<cfg>.  Returns dict."""
    tag = tag or (cfg.replace(".cfg", "") + "-" + mode)
    md = run.path("md-" + tag)
    shutil.rmtree(md, ignore_errors=True)
    workers = workers or (1 if mode == "trace" else NCPU)
    cmd = ["java", "-XX:+UseParallelGC", "-Xmx" + xmx, "-Xss64m"]
    sd = spec_dir or SPEC
    if spec_dir:
        cmd.append("-DTLA-Library=" + SPEC)     # generated modules live in the build directory and EXTEND the suite
    if dfs_queue:
        cmd.append("-Dtlc2.tool.queue.IStateQueue=StateDeque")
    cmd += ["-cp", TLA_CP, "tlc2.TLC", "-workers", str(workers), "-metadir", md, "-noGenerateSpecTE"]
    if coverage and mode != "sim":
        cmd += ["-coverage", "1"]
    if dump:
        cmd += ["-dump", "dot,actionlabels", dump]
    if mode == "sim":
        num, dep, prefix = sim
        cmd += ["-simulate", "file=%s,num=%d" % (prefix, num), "-depth", str(dep), "-seed", str(run.seed)]
    if deadlock is False:
        cmd += ["-deadlock"]
    cmd += ["-config", os.path.join(sd, cfg), os.path.join(sd, module + ".tla")]
    t0 = time.time()
    rc, out = sh(cmd, timeout=timeout, env=env, cwd=sd)
    wall = time.time() - t0
    res = {"module": module, "cfg": cfg, "mode": mode, "rc": rc, "wall_s": round(wall, 2), "out": out,
           "generated": 0, "distinct": 0, "depth": 0, "coverage": {}, "violated": None, "cex": []}
    m = re.search(r"(\d+) states generated, (\d+) distinct states found, (\d+) states left on queue", out)
    if m:
        res["generated"], res["distinct"], res["left"] = int(m.group(1)), int(m.group(2)), int(m.group(3))
    m = re.search(r"The number of states generated: (\d+)", out)
    if m:
        res["generated"] = int(m.group(1))
    m = re.search(r"The depth of the complete state graph search is (\d+)", out)
    if m:
        res["depth"] = int(m.group(1))
    for line in out.splitlines():
        mm = _cov_re.match(line.strip())
        if mm and mm.group(3) == module or (mm and True):
            name = mm.group(1)
            d, g = int(mm.group(4)), int(mm.group(5))
            a = res["coverage"].setdefault(name, [0, 0])
            a[0] += d
            a[1] += g
    mv = re.search(r"Error: Invariant (\S+) is violated", out)
    if mv:
        res["violated"] = mv.group(1)
    mv = re.search(r"Error: Action property (\S+) is violated", out)
    if mv:
        res["violated"] = mv.group(1)
    if re.search(r"Temporal propert(y|ies) .*(was|were) violated", out):
        res["violated"] = "temporal"
    if "Error: Deadlock reached" in out:
        res["violated"] = "deadlock"
    mv = re.search(r"Error: The postcondition (\S+)", out) or re.search(r"Postcondition (\S+).* (?:is false|violated)", out)
    if mv:
        res["postcondition_failed"] = mv.group(1)
    # counterexample
    for mm in re.finditer(r"^State (\d+): <(.*?) line \d+, col \d+ to line \d+, col \d+ of module \w+>\n((?:.+\n)*)",
                          out, re.M):
        res["cex"].append((mm.group(2), mm.group(3).strip()))
    ok_end = ("Model checking completed. No error has been found" in out) or (mode == "sim" and "Finished in" in out and "Error" not in out)
    res["ok"] = bool(ok_end) and rc == 0
    if not res["ok"] and not res["violated"] and "postcondition_failed" not in res:
        res["infra"] = True
    entry = {"module": module, "cfg": cfg, "mode": mode, "generated": res["generated"], "distinct": res["distinct"],
             "depth": res["depth"], "wall_s": res["wall_s"], "ok": res["ok"], "violated": res["violated"]}
    if constants_note:
        entry["constants"] = constants_note
    run.tlc_runs.append(entry)
    return res


def require_ok(run, res, what):
    """A model-checking run on the *specification* must pass; otherwise infra
    (the specification is part of the machinery, a failure there is ours)."""
    if res.get("infra") or (not res["ok"] and not res["violated"]):
        tail = "\n".join(res["out"].splitlines()[-40:])
        raise Infra("%s: TLC failed (rc=%s)\n%s" % (what, res["rc"], tail))
    return res


def account_mc(run, res, expect_actions=None):
    run.states += res["distinct"]
    run.transitions += res["generated"]
    for k, v in res["coverage"].items():
        a = run.coverage.setdefault(k, 0)
        run.coverage[k] = a + v[1]
    if expect_actions:
        for a in expect_actions:
            if res["coverage"].get(a, [0, 0])[1] == 0:
                raise Infra("vacuous configuration: action %s never taken in %s/%s" % (a, res["module"], res["cfg"]))


# --------------------------------------------------------------------------
# state graph -> paths

_edge_re = re.compile(r'^(-?\d+) -> (-?\d+) \[label="((?:[^"\\]|\\.)*)"')
_init_re = re.compile(r'^(-?\d+) \[label=".*",style = filled\]')


def parse_dot(path):
    inits = []
    edges = []
    with open(path, "r", errors="replace") as f:
        for line in f:
            c = line[0]
            if c != "-" and not c.isdigit():
                continue
            m = _edge_re.match(line)
            if m:
                lbl = m.group(3).replace('\\"', '"').replace("\\\\", "\\")
                edges.append((int(m.group(1)), int(m.group(2)), lbl))
                continue
            if line.rstrip().endswith("style = filled]"):
                m = _init_re.match(line)
                if m:
                    inits.append(int(m.group(1)))
    return inits, edges


def edge_cover(inits, edges, maxlen=400, budget=None, seed=1):
    """Paths (lists of labels) from an initial state that together cover every
    edge reachable from the initial states.  Returns (paths, n_edges_total).
    With budget=N the cover stops after about N steps in total (target edges
    are then taken in a seeded random order); edge_cover.last_covered tells
    how many edges were covered."""
    adj = {}
    for i, (u, v, l) in enumerate(edges):
        adj.setdefault(u, []).append((v, l, i))
    parent = {}
    order = []
    from collections import deque
    dq = deque()
    for s in inits:
        if s not in parent:
            parent[s] = None
            dq.append(s)
    while dq:
        u = dq.popleft()
        order.append(u)
        for (v, l, i) in adj.get(u, ()):
            if v not in parent:
                parent[v] = (u, l, i)
                dq.append(v)
    covered = set()
    nxt_unc = {u: 0 for u in order}  # index into adj[u] of next possibly uncovered edge

    def first_uncovered(u):
        lst = adj.get(u, ())
        k = nxt_unc.get(u, 0)
        while k < len(lst) and lst[k][2] in covered:
            k += 1
        nxt_unc[u] = k
        return lst[k] if k < len(lst) else None

    def treepath(u):
        p = []
        while parent[u] is not None:
            (pu, l, i) = parent[u]
            p.append((l, i))
            u = pu
        p.reverse()
        return p

    paths = []
    steps = 0
    visit = list(order)
    if budget:
        import random
        random.Random(seed).shuffle(visit)
    for u in visit:
        if budget and steps > budget:
            break
        while True:
            if budget and steps > budget:
                break
            e = first_uncovered(u)
            if e is None:
                break
            tp = treepath(u)
            path = [l for (l, i) in tp]
            for (l, i) in tp:
                covered.add(i)
            cur = u
            while e is not None and len(path) < maxlen:
                (v, l, i) = e
                covered.add(i)
                path.append(l)
                cur = v
                e = first_uncovered(cur)
            paths.append(path)
            steps += len(path)
    total = sum(len(adj.get(u, ())) for u in order)
    edge_cover.last_covered = len(covered)
    return paths, total


def sim_paths(prefix):
    """read TLC -simulate trace files -> list of label lists"""
    d = os.path.dirname(prefix)
    base = os.path.basename(prefix)
    paths = []
    lab = re.compile(r"^\\\* <(.*) line \d+, col \d+ to line \d+, col \d+ of module \w+>")
    for fn in sorted(os.listdir(d)):
        if not fn.startswith(base + "_"):
            continue
        p = []
        first = True
        with open(os.path.join(d, fn)) as f:
            for line in f:
                m = lab.match(line)
                if m:
                    if first:
                        first = False  # the Init "action"
                        continue
                    p.append(m.group(1))
        if p:
            paths.append(p)
        os.unlink(os.path.join(d, fn))
    return paths


def labels_to_script(paths, reset_line="Reset", conv=None):
    """paths of labels -> script text, one action per line, 'Reset' between paths"""
    out = []
    for p in paths:
        out.append(reset_line)
        for lbl in p:
            name, args = tlaval.parse_label(lbl)
            if conv:
                line = conv(name, args)
                if line is None:
                    continue
                out.append(line)
            else:
                toks = [name]
                for a in args:
                    toks += tlaval.flatten(a)
                out.append(" ".join(toks))
    return "\n".join(out) + "\n"


# --------------------------------------------------------------------------
# drivers

GCC_ASAN = ["gcc", "-std=gnu11", "-O1", "-g", "-fsanitize=address", "-fno-omit-frame-pointer", "-DLIBRFN_VERIF", "-DHAVE_CONFIG_H=0"]


# A second build configuration: what a release build for a small target looks like (assertions compiled out, plain char
# unsigned as on ARM EABI, full optimisation).  The properties quantify over the library's behaviour, not over one set of
# compiler flags; a side effect hidden in an assert(), or a table of plain chars holding -1, only shows here.
ALT_FLAGS = ["-DNDEBUG", "-funsigned-char", "-O2"]


def build_driver(run, name, driver_src, repo_srcs, extra_flags=(), cc=None, libs=()):
    exe = run.path(name)
    cmd = list(cc or GCC_ASAN) + list(extra_flags)
    cmd += ["-I" + os.path.join(REPO, "include"), "-I" + HARNESS, "-o", exe]
    cmd += [os.path.join(HARNESS, s) for s in ([driver_src] if isinstance(driver_src, str) else driver_src)]
    cmd += [os.path.join(REPO, s) for s in repo_srcs]
    cmd += list(libs)
    rc, out = sh(cmd, timeout=600)
    if rc != 0 and "undefined reference" in out:
        # a source under test may come to use another part of the library: offer the rest of it as an archive
        rc, out = sh(cmd + [rest_of_library(run, repo_srcs, cmd[0])], timeout=600)
    if rc != 0:
        raise Infra("build of %s failed:\n%s" % (name, out[-4000:]))
    return exe


def rest_of_library(run, repo_srcs, cc="gcc"):
    """every top-level librfn/*.c that is not already part of the build, as a static archive (members are pulled in on demand)"""
    import glob
    lib = run.path("librest.a")
    if os.path.exists(lib):
        return lib
    objs = []
    for src in sorted(glob.glob(os.path.join(REPO, "librfn", "*.c"))):
        rel = os.path.relpath(src, REPO)
        if rel in repo_srcs:
            continue
        o = run.path("rest-" + os.path.basename(src) + ".o")
        rc, _ = sh(["gcc", "-std=gnu11", "-O1", "-g", "-DLIBRFN_VERIF", "-I" + os.path.join(REPO, "include"), "-c", src, "-o", o], timeout=300)
        if rc == 0:
            objs.append(o)
    sh(["ar", "rcs", lib] + objs, timeout=120)
    return lib


def run_driver(run, exe, args, script_text=None, out_path=None, timeout=900, env=None):
    e = {"ASAN_OPTIONS": "detect_leaks=0:abort_on_error=1:handle_abort=0:handle_segv=0:handle_sigfpe=0:handle_sigbus=0:handle_sigill=0"}
    if env:
        e.update(env)
    inp = script_text.encode() if script_text is not None else None
    ee = dict(os.environ)
    ee.update(e)
    try:
        with open(out_path, "wb") as fo:
            p = subprocess.run([exe] + list(args), input=inp, stdout=fo, stderr=subprocess.PIPE, timeout=timeout, env=ee)
        return p.returncode, p.stderr.decode("utf-8", "replace")
    except subprocess.TimeoutExpired:
        return 124, "[driver timeout after %ss]" % timeout


# --------------------------------------------------------------------------
# trace validation


def count_lines(path):
    n = 0
    with open(path, "rb") as f:
        for _ in f:
            n += 1
    return n


def validate_trace(run, trace_module, cfg, trace_path, tag=None, timeout=1100, xmx="20g", workers=1, extra_env=None, spec_dir=None):
    """TLC-validate an ndjson trace.  Returns (accepted, matched_events, res)."""
    n = count_lines(trace_path)
    env = {"TRACE": trace_path}
    if extra_env:
        env.update(extra_env)
    res = tlc(run, trace_module, cfg, mode="trace", workers=workers, env=env, timeout=timeout, tag=tag or ("tv-" + os.path.basename(trace_path)),
              coverage=False, xmx=xmx, deadlock=False, spec_dir=spec_dir)
    out = res["out"]
    if res.get("violated"):
        # an invariant of the specification is violated on a state reached by the trace
        matched = max(0, len(res["cex"]) - 1)
        return False, matched, res
    if "postcondition_failed" in res or "TRACE_REJECTED" in out:
        m = re.search(r"TRACE_REJECTED_AT\D+(\d+)", out)
        matched = int(m.group(1)) - 1 if m else max(0, res["depth"] - 1)
        return False, matched, res
    if not res["ok"]:
        tail = "\n".join(out.splitlines()[-40:])
        raise Infra("trace validation %s: TLC failed rc=%s\n%s" % (trace_module, res["rc"], tail))
    return True, n, res


def read_line(path, k):
    """k is 1-based"""
    with open(path, "r", errors="replace") as f:
        for i, line in enumerate(f, 1):
            if i == k:
                return line.rstrip("\n")
    return None


def save_replay(run, name, obj):
    name = re.sub(r"[^A-Za-z0-9_.-]+", "_", name)
    p = os.path.join(ROOT, "replays", "%s-%s-%s%s.json" % (run.pid, run.tier, name, run.scratch))
    with open(p, "w") as f:
        json.dump(obj, f, indent=1, default=str)
    return p


def sample_trace(run, trace_path, nlines=12):
    s = []
    with open(trace_path) as f:
        for i, line in enumerate(f):
            if i >= nlines:
                break
            try:
                s.append(json.loads(line))
            except Exception:
                s.append(line.strip())
    run.add_sample(s)


def split_execs(trace_path):
    """count executions (Reset events) and distinct execution hashes in a trace"""
    n = 0
    hs = set()
    h = None
    cnt = 0
    with open(trace_path, "rb") as f:
        for line in f:
            if line.startswith(b'{"e":"Reset"'):
                if h is not None and cnt > 0:
                    hs.add(h.digest()[:10])
                h = hashlib.sha1()
                cnt = 0
                n += 1
            else:
                if h is None:
                    h = hashlib.sha1()
                    n += 1
                h.update(line)
                cnt += 1
    if h is not None and cnt > 0:
        hs.add(h.digest()[:10])
    return n, hs


def _split_at_resets(trace_path, outdir, max_lines=15000):
    """chunks of whole executions (a chunk starts at a Reset line), at most max_lines lines unless one execution is longer"""
    os.makedirs(outdir, exist_ok=True)
    chunks, cur, n, first = [], None, 0, 1
    with open(trace_path, "rb") as f:
        for i, line in enumerate(f, 1):
            if cur is None or (line.startswith(b'{"e":"Reset"') and n >= max_lines):
                if cur:
                    cur.close()
                pth = os.path.join(outdir, "chunk%04d.ndjson" % len(chunks))
                chunks.append((pth, i))
                cur, n = open(pth, "wb"), 0
            cur.write(line)
            n += 1
    if cur:
        cur.close()
    return chunks


def filter_execs(src, dst, keep, limit=None, must=None):
    """copy the executions (Reset line + following lines) whose Reset record satisfies keep(record); with a limit, an even
    sample of at most about that many of them (the result-level search costs a noticeable fraction of a second per execution)"""
    stride = 1
    if limit:
        total = 0
        with open(src) as f:
            for line in f:
                if line.startswith('{"e":"Reset"') and keep(json.loads(line)):
                    total += 1
        stride = max(1, -(-total // limit))
    kept = dropped = 0
    on = True
    seen = 0
    ordinal = 0
    with open(src) as f, open(dst, "w") as out:
        for line in f:
            if line.startswith('{"e":"Reset"'):
                ordinal += 1
                on = bool(keep(json.loads(line)))
                if on:
                    on = (seen % stride == 0) or ordinal == must      # the execution the step-level model rejected is always re-judged
                    seen += 1
                kept += on
                dropped += not on
            if on:
                out.write(line)
    return kept, dropped


def validate_loose(run, module, cfg, trace_path, tag=None, timeout=1500, xmx="6g"):
    """Second opinion at the grain of call results (Trace<M>Loose.tla): accepted iff some behaviour of the specification
    consumes the whole trace (judged by the module's postcondition).  The search keeps many states per trace line, and
    TLC's disk-backed queue limits behaviours to 65535 states, so the trace is validated in chunks of whole executions
    (several TLC processes at a time).  Returns (accepted, furthest_event, res)."""
    from concurrent.futures import ThreadPoolExecutor
    base = tag or ("loose-" + os.path.basename(trace_path))
    cdir = run.path("chunks-" + re.sub(r"[^A-Za-z0-9_.-]+", "_", base))
    shutil.rmtree(cdir, ignore_errors=True)
    chunks = _split_at_resets(trace_path, cdir)

    def one(k):
        pth, first = chunks[k]
        return tlc(run, module, cfg, mode="trace", workers=1, env={"TRACE": pth}, timeout=timeout,
                   tag="%s-%d" % (base, k), coverage=False, xmx=xmx, deadlock=False)
    # chunks are judged a few at a time; the first one that is not accepted settles the matter (chunks not yet started are
    # dropped, so a trace that goes wrong early is rejected in the time one chunk takes)
    from concurrent.futures import as_completed
    results = {}
    verdict = None
    with ThreadPoolExecutor(max_workers=min(4, max(1, NCPU // 4))) as ex:
        futs = {ex.submit(one, k): k for k in range(len(chunks))}
        for fu in as_completed(futs):
            k = futs[fu]
            try:
                res = fu.result()
            except Exception:
                continue                      # cancelled
            results[k] = res
            if not (res["ok"] and "LOOSE_ACCEPTED" in res["out"]) and verdict is None:
                verdict = k
                for other in futs:
                    other.cancel()
    total = {"distinct": sum(r["distinct"] for r in results.values()), "generated": sum(r["generated"] for r in results.values()), "out": ""}
    if verdict is not None:
        bad = sorted(k for k, r in results.items() if not (r["ok"] and "LOOSE_ACCEPTED" in r["out"]))
        k = bad[0]
        res = results[k]
        shutil.rmtree(cdir, ignore_errors=True)
        if res["ok"]:
            m = re.search(r"LOOSE_FURTHEST_EVENT\D+(\d+)", res["out"])
            far = chunks[k][1] - 1 + (int(m.group(1)) if m else 1)
            return False, far, total
        raise Infra("loose trace validation %s: TLC failed rc=%s\n%s" % (module, res["rc"], "\n".join(res["out"].splitlines()[-30:])))
    shutil.rmtree(cdir, ignore_errors=True)
    return True, count_lines(trace_path), total


def check_trace(run, what, trace_module, cfg, trace_path, script_path=None, timeout=1100, xmx="20g", extra_env=None, spec_dir=None,
                loose=None):
    """validate; on rejection re-run once; raise Violation with a replay file.
    loose = (module, cfg): the step-level rejection is put to the result-level specification before it is reported; if that
    accepts the whole trace, the implementation differs from the step-level model but every result the callers saw is a
    result the specification allows - recorded in the evidence as a divergence, not reported as a violation."""
    if loose and os.environ.get("VERIF_FORCE_LOOSE"):      # test mode for the machinery: judge by the result-level specification alone
        ok, matched, res = False, 0, {}
    else:
        ok, matched, res = validate_trace(run, trace_module, cfg, trace_path, timeout=timeout, xmx=xmx, extra_env=extra_env, spec_dir=spec_dir)
    if not ok and loose and not os.environ.get("VERIF_NO_LOOSE"):
        ltrace = trace_path
        consult = True
        if len(loose) > 2 and loose[2]:
            # The result-level search is exponential in the number of contexts that are inside a call at the same time,
            # so it re-judges only the executions within the filter's bound.  A step-level rejection inside an execution
            # it cannot re-judge stands, unless the executions it can re-judge are rejected at step level as well (then
            # the implementation differs from the step-level model everywhere, and the result-level verdict on the
            # re-judgeable executions is the best available one; the others are reported as not judged).
            ltrace = run.path("loose-input-" + os.path.basename(trace_path))
            rej = None
            rej_ordinal = 0
            with open(trace_path) as f:
                for i, line in enumerate(f, 1):
                    if i > matched + 1:
                        break
                    if line.startswith('{"e":"Reset"'):
                        rej = json.loads(line)
                        rej_ordinal += 1
            kept, dropped = filter_execs(trace_path, ltrace, loose[2], loose[3] if len(loose) > 3 else None, must=rej_ordinal)
            if not os.environ.get("VERIF_FORCE_LOOSE") and rej is not None and not loose[2](rej):
                sok, _, _ = validate_trace(run, trace_module, cfg, ltrace, tag="tv-subset", timeout=timeout, xmx=xmx, extra_env=extra_env, spec_dir=spec_dir)
                if sok:
                    consult = False       # the model fits the implementation wherever both verdicts are available: the rejection stands
            if consult:
                run.notes.append("%s: result-level validation on %d executions (%d beyond its bound not re-judged)" % (what, kept, dropped))
    if not ok and loose and not os.environ.get("VERIF_NO_LOOSE") and consult:
        lok, far, lres = validate_loose(run, loose[0], loose[1], ltrace, timeout=timeout)
        if lok:
            bad = read_line(trace_path, matched + 1)
            note = {"what": what, "step_level_rejected_at_event": matched + 1, "event": (bad or "")[:300],
                    "result_level": "accepted by %s (%d states)" % (loose[0], lres["distinct"])}
            run.extra.setdefault("model_divergence", []).append(note)
            print("NOTE: %s: step-level model rejects event %d, result-level specification %s accepts the whole trace "
                  "(implementation differs from the model at the grain of atomic operations; the observable contract holds)"
                  % (what, matched + 1, loose[0]), flush=True)
            n, hs = split_execs(ltrace)
            run.traces += n
            run.events += count_lines(ltrace)
            run.hashes |= hs
            run.states += lres["distinct"]
            run.transitions += lres["generated"]
            run.exhaustive = False
            return n
    if not ok and loose and os.environ.get("VERIF_FORCE_LOOSE"):
        bad = read_line(ltrace, far)
        rp = save_replay(run, what + "-loose", {"property": run.pid, "what": what, "trace_module": loose[0], "furthest_event": far, "event": bad})
        raise Violation("%s: results not explained by any interleaving of the specification; furthest event reached %d: %s" % (what, far, (bad or "")[:300]), replay=rp, key=None)
    if not ok:
        ok2, matched2, res2 = validate_trace(run, trace_module, cfg, trace_path, tag="tv-rerun", timeout=timeout, xmx=xmx, extra_env=extra_env, spec_dir=spec_dir)
        if ok2:
            raise Infra("%s: trace rejection did not repeat" % what)
        bad = read_line(trace_path, matched2 + 1)
        prev = read_line(trace_path, matched2) if matched2 >= 1 else None
        # find the beginning of this execution
        start = 1
        with open(trace_path, "rb") as f:
            for i, line in enumerate(f, 1):
                if i > matched2 + 1:
                    break
                if line.startswith(b'{"e":"Reset"'):
                    start = i
        execu = []
        with open(trace_path) as f:
            for i, line in enumerate(f, 1):
                if i < start:
                    continue
                if i > matched2 + 1:
                    break
                execu.append(line.rstrip("\n"))
        why = "invariant %s violated on a state the trace reaches" % res2["violated"] if res2.get("violated") else \
            "event not allowed by the specification"
        rp = save_replay(run, what, {"property": run.pid, "what": what, "trace_module": trace_module, "cfg": cfg,
                                     "reason": why, "rejected_event_index": matched2 + 1, "rejected_event": bad,
                                     "last_accepted_event": prev, "execution_prefix": execu[-200:]})
        raise Violation("%s: %s at event %d: %s" % (what, why, matched2 + 1, (bad or "")[:300]), replay=rp, key=None)
    n, hs = split_execs(trace_path)
    run.traces += n
    run.events += matched
    run.hashes |= hs
    run.states += res["distinct"]
    run.transitions += res["generated"]
    return n


def exec_script(run, exe, args, script_text, trace_path, what, timeout=150, env=None):
    """run a driver on a script; a crash / sanitizer report / FATAL event is a violation"""
    if script_text is not None:
        with open(trace_path + ".script", "w") as f:
            f.write(script_text)
    rc, err = run_driver(run, exe, args, script_text, trace_path, timeout=timeout, env=env)
    last = b""
    try:
        with open(trace_path, "rb") as f:
            f.seek(0, 2)
            sz = f.tell()
            f.seek(max(0, sz - 4096))
            tail = f.read().splitlines()
            last = tail[-1] if tail else b""
    except OSError:
        pass
    if rc == 124:
        raise Violation("%s: driver did not terminate (timeout)" % what,
                        replay=save_replay(run, what + "-hang", {"what": what, "stderr": err[-4000:], "script": trace_path + ".script"}))
    if rc == 3:
        raise Infra("%s: driver usage error: %s" % (what, err[-2000:]))
    if rc != 0 or b'"FATAL"' in last:
        n = count_lines(trace_path)
        rp = save_replay(run, what + "-crash", {"property": run.pid, "what": what, "driver_rc": rc,
                                                "stderr": err[-6000:], "events_before_crash": n,
                                                "last_events": [x.decode("utf-8", "replace") for x in tail[-6:]],
                                                "script_line": read_line(trace_path + ".script", n) if script_text else None})
        raise Violation("%s: real code crashed / sanitizer report / assertion after %d events: %s" % (
            what, n, err.strip().splitlines()[0][:200] if err.strip() else ""), replay=rp)
    return trace_path


CLANG_TSAN = ["clang", "-std=gnu11", "-O1", "-g", "-fsanitize=thread", "-fno-omit-frame-pointer", "-DLIBRFN_VERIF"]


def build_vrt(run, name, driver_src, repo_srcs, extra_flags=()):
    """librfn sources + driver compiled with the TSan *instrumentation* only, linked against harness/vrt.c
    (our own __tsan_* entry points) instead of libtsan."""
    objs = []
    inc = ["-I" + os.path.join(REPO, "include"), "-I" + HARNESS]
    srcs = [(os.path.join(HARNESS, driver_src), True)] + [(os.path.join(REPO, s), True) for s in repo_srcs] + \
           [(os.path.join(HARNESS, "vrt.c"), False)]
    for i, (src, inst) in enumerate(srcs):
        o = run.path("%s-%d.o" % (name, i))
        cmd = (list(CLANG_TSAN) if inst else ["clang", "-std=gnu11", "-O1", "-g"]) + list(extra_flags) + inc + ["-c", src, "-o", o]
        rc, out = sh(cmd, timeout=600)
        if rc != 0:
            raise Infra("build of %s failed:\n%s" % (src, out[-4000:]))
        objs.append(o)
    exe = run.path(name)
    rc, out = sh(["clang", "-Wl,--wrap=memset,--wrap=memcpy,--wrap=memmove", "-o", exe] + objs, timeout=600)
    if rc != 0 and "undefined reference" in out:
        rc, out = sh(["clang", "-Wl,--wrap=memset,--wrap=memcpy,--wrap=memmove", "-o", exe] + objs + [rest_of_library(run, repo_srcs)], timeout=600)
    if rc != 0:
        raise Infra("link of %s failed:\n%s" % (name, out[-4000:]))
    return exe


def count_event_cases(run, trace_path):
    """for traces whose unit of exploration is the single event: count distinct event lines as distinct cases"""
    n = 0
    with open(trace_path, "rb") as f:
        for line in f:
            run.hashes.add(hashlib.sha1(line).digest()[:10])
            n += 1
    run.evaluations += n
    run.notes.append("distinct cases counted per distinct event line (%d events)" % n)


def sim_walks(run, module, cfg, num, depth, tag="sim"):
    """random walks of a (small) configuration via TLC -simulate -> list of label paths.  Edge covers say nothing about code
    state outside the projection (caches, counters); walks add path diversity."""
    res = tlc(run, module, cfg, mode="sim", sim=(max(1, num // 4), depth, run.path(tag)), workers=4, tag=tag, coverage=False)
    if res.get("infra") and "Finished" not in res["out"]:
        raise Infra("simulation of %s/%s failed:\n%s" % (module, cfg, res["out"][-2000:]))
    paths = sim_paths(run.path(tag))
    run.extra.setdefault("simulated_behaviours", {})[tag] = len(paths)
    return paths
