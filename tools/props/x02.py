"""X02 (growth, not a listed property) - regdump.c, enum.c, stats.c (spec/Misc.tla, harness/misc_drv.c)"""
from vlib import *  # noqa

LEVEL = "model_checking"
RULE = ("Growth module: random descriptor tables / enum tables / sample sets run through the real regdump iteration protocol, "
        "enum lookups and stats accumulation; every case is one event validated by TLC against the operators of Misc.tla.")
ASSUMPTIONS = ["stats samples small enough for TLC's 32-bit integers"]


def run(run):
    exe = build_driver(run, "misc_drv", "misc_drv.c", ["librfn/regdump.c", "librfn/enum.c", "librfn/stats.c", "librfn/bitops.c", "librfn/util.c"])
    tr = exec_script(run, exe, [], "Random %d %d\n" % (run.seed, 4000 if run.thorough() else 500), run.path("misc.ndjson"), "cases")
    check_trace(run, "cases", "TraceMisc", "TraceMisc.cfg", tr)
    count_event_cases(run, tr)
    sample_trace(run, tr, 3)
