"""C16 - bit-counting helpers equal their definitions (spec/Bits.tla, harness/bits_drv.c)"""
from vlib import *  # noqa
from vlib import sh, REPO, HARNESS

LEVEL = "exploration"
RULE = ("TLC proves transcription = definition for every 16-bit word (SWAR popcount, smear clz, ctz trick, recursive-halving "
        "const_pop/const_lssb; Bits_mc: 65536 states x 5 invariants). For the real 32/64-bit code: ~8000+ structured vectors "
        "(all one- and two-bit patterns, all contiguous masks, every value of every nibble pair, random; compile-time-constant "
        "and run-time arguments of the macros) are evaluated by the real functions and by a C transcription of the "
        "definitions, and TLC checks both against Bits.tla's definitions (TraceBits); the transcription then serves as the "
        "oracle of an exhaustive sweep of all 2^32 arguments of bitcnt/clz/ctz/ilog2. evaluations = vectors + swept "
        "arguments; distinct_nontrivial = distinct vector events (each argument is a distinct case).")
ASSUMPTIONS = ["the exhaustive 2^32 statement rests on the C oracle (bit loops) validated by TLC on the vectors, not on TLC itself",
               "64-bit macro arguments are sampled (patterns + random), as the property's quantifier says"]


def run(run):
    res = require_ok(run, tlc(run, "Bits_mc", "Bits_mc.cfg", tag="mc", constants_note={"W": 16}), "Bits MC")
    if res["violated"]:
        raise Infra("Bits: transcription differs from definition at 16 bits: %s" % res["violated"])
    account_mc(run, res)
    exe = build_driver(run, "bits_drv", "bits_drv.c", ["librfn/bitops.c"], cc=["gcc", "-std=gnu11", "-O2", "-g", "-DLIBRFN_VERIF"])
    nr = 200000 if run.thorough() else 20000
    tr = exec_script(run, exe, [], "Vectors %d %d\nSweep %d 1\n" % (run.seed, nr, NCPU), run.path("bits.ndjson"), "vectors+sweep", timeout=900)
    n = count_lines(tr)
    check_trace(run, "vectors+sweep", "TraceBits", "TraceBits.cfg", tr, timeout=1500)
    hs = set()
    with open(tr, "rb") as f:
        for line in f:
            hs.add(hashlib.sha1(line).digest()[:10])
    run.hashes |= hs
    run.evaluations += n + (1 << 32)
    run.extra["swept_arguments"] = 1 << 32
    run.exhaustive = True
    sample_trace(run, tr, 5)
    run.add_sample(read_line(tr, n))
    # the same sources built for an ILP32 target (gcc -m32, freestanding): vectors, then a strided (thorough: complete) sweep
    exe32 = run.path("bits32_drv")
    rc, out = sh(["gcc", "-m32", "-O2", "-ffreestanding", "-nostdlib", "-static", "-fno-pie", "-no-pie", "-fno-stack-protector",
                  "-fno-asynchronous-unwind-tables", "-DSTRIDE=%d" % (1 if run.thorough() else 16), "-isystem", os.path.join(HARNESS, "inc32"),
                  "-I" + os.path.join(REPO, "include"), os.path.join(HARNESS, "bits32_drv.c"), os.path.join(REPO, "librfn/bitops.c"), "-o", exe32], timeout=300)
    if rc != 0:
        raise Infra("ILP32 build failed:\n" + out[-2000:])
    tr32 = exec_script(run, exe32, [], "", run.path("bits32.ndjson"), "ilp32 vectors+sweep", timeout=900)
    check_trace(run, "ilp32-vectors+sweep", "TraceBits", "TraceBits.cfg", tr32, timeout=900)
    # release-style build (NDEBUG, unsigned plain char, -O2): the vectors again
    exe2 = build_driver(run, "bits_drv_alt", "bits_drv.c", ["librfn/bitops.c"], cc=["gcc", "-std=gnu11", "-g", "-DLIBRFN_VERIF"] + ALT_FLAGS)
    tr2 = exec_script(run, exe2, [], "Vectors %d %d\n" % (run.seed + 1, 2000), run.path("bits-alt.ndjson"), "release-build vectors", timeout=300)
    check_trace(run, "release-build-vectors", "TraceBits", "TraceBits.cfg", tr2, timeout=600)
