"""C19 - rotary encoder count = net detent crossings (spec/Rotenc.tla, harness/rotenc_drv.c)"""
from vlib import *  # noqa

LEVEL = "model_checking"
RULE = ("TLC explores the complete decoder machine for reduced widths (pos mod 2^8, count mod 2^2, count14 mod 2^6: same "
        "structure, all three wrap points) and checks LowBitsAgree / WithinOneClick / PhaseLocked; the real rotenc.c is "
        "walked through the position range in both directions with bounce, repeated-state and invalid-jump patterns after "
        "every quarter step (windows around the 8-, 14- and 16-bit wrap points in quick, the entire 16-bit range in "
        "thorough) plus random walks; both readings are logged after every rotenc_decode and validated by TLC against "
        "TraceRotenc.tla with the real widths. A case = one walk (Reset..Reset); distinct by hash.")
ASSUMPTIONS = ["readings are taken immediately after each rotenc_decode (no concurrent ISR)"]


def run(run):
    res = require_ok(run, tlc(run, "Rotenc", "Rotenc_mc.cfg", tag="mc", constants_note={"PosMod": 256, "CntMod": 4, "C14Mod": 64}), "Rotenc MC")
    if res["violated"]:
        raise Infra("Rotenc specification violates %s" % res["violated"])
    account_mc(run, res, ["Decode"])
    exe = build_driver(run, "rotenc_drv", "rotenc_drv.c", ["librfn/rotenc.c"])
    sc = ""
    if run.thorough():
        for pat in range(7):
            sc += "Reset\nWalk 70000 1 %d\nWalk 140000 -1 %d\nWalk 70000 1 %d\n" % (pat, pat + 3, pat + 5)
    else:
        # windows of +-600 quarter steps around 0/65535, 1023/1024 (count wrap at 256 clicks) and 32767/32768, 65535/0
        for pat in range(7):
            sc += "Reset\nWalk 700 -1 %d\nWalk 1400 1 %d\nWalk 700 -1 %d\n" % (pat, pat + 1, pat + 2)
            sc += "Reset\nWalk 1700 1 %d\nWalk 1400 -1 %d\nWalk 1400 1 %d\n" % (pat + 2, pat, pat + 4)
        sc += "Reset\nWalk 33500 1 6\nWalk 1400 -1 1\nWalk 1400 1 3\nWalk 1400 -1 5\n"
        sc += "Reset\nWalk 33500 -1 6\nWalk 1400 1 2\nWalk 1400 -1 4\n"
    for n, d in ((190, 1), (767, 1), (3000, -1), (800, -1), (40000 if run.thorough() else 9000, 1)):
        sc += "Reset\nWalk 37 1 2\nNoDetent %d %d\nWalk 50 -1 3\n" % (n, d)      # long stretches that never visit the detent
    sc += "Reset\nRandom %d %d\n" % (run.seed, 600000 if run.thorough() else 60000)
    tr = exec_script(run, exe, [], sc, run.path("walk.ndjson"), "walks", timeout=600)
    check_trace(run, "walks", "TraceRotenc", "TraceRotenc.cfg", tr, timeout=1500)
    count_event_cases(run, tr)
    sample_trace(run, tr, 12)
