"""C19 - rotary encoder count = net detent crossings (spec/Rotenc.tla, harness/rotenc_drv.c)"""
from vlib import *  # noqa

LEVEL = "model_checking"
RULE = ("TLC explores the complete decoder machine for reduced widths (pos mod 2^8, count mod 2^2, count14 mod 2^6: same "
        "structure, all three wrap points) and checks LowBitsAgree / WithinOneClick / PhaseLocked; the real rotenc.c is "
        "walked through the position range in both directions with bounce, repeated-state and invalid-jump patterns after "
        "every quarter step (windows around the 8-, 14- and 16-bit wrap points in quick, the entire 16-bit range in "
        "thorough) plus random walks; both readings are logged after every rotenc_decode and validated by TLC against "
        "TraceRotenc.tla with the real widths. A case = one walk (Reset..Reset); distinct by hash.")
ASSUMPTIONS = ["readings are taken immediately after each rotenc_decode (no concurrent ISR)"]


def run(run):
    res = require_ok(run, tlc(run, "Rotenc", "Rotenc_mc.cfg", tag="mc", constants_note={"PosMod": 256, "CntMod": 4, "C14Mod": 64}), "Rotenc MC")
    if res["violated"]:
        raise Infra("Rotenc specification violates %s" % res["violated"])
    account_mc(run, res, ["Decode"])
    exe = build_driver(run, "rotenc_drv", "rotenc_drv.c", ["librfn/rotenc.c"])
    sc = ""
    if run.thorough():
        for pat in range(7):
            sc += "Reset\nWalk 70000 1 %d\nWalk 140000 -1 %d\nWalk 70000 1 %d\n" % (pat, pat + 3, pat + 5)
    else:
        # windows of +-600 quarter steps around 0/65535, 1023/1024 (count wrap at 256 clicks) and 32767/32768, 65535/0
        for pat in range(7):
            sc += "Reset\nWalk 700 -1 %d\nWalk 1400 1 %d\nWalk 700 -1 %d\n" % (pat, pat + 1, pat + 2)
            sc += "Reset\nWalk 1700 1 %d\nWalk 1400 -1 %d\nWalk 1400 1 %d\n" % (pat + 2, pat, pat + 4)
        sc += "Reset\nWalk 33500 1 6\nWalk 1400 -1 1\nWalk 1400 1 3\nWalk 1400 -1 5\n"
        sc += "Reset\nWalk 33500 -1 6\nWalk 1400 1 2\nWalk 1400 -1 4\n"
    for n, d in ((190, 1), (767, 1), (3000, -1), (800, -1), (40000 if run.thorough() else 9000, 1)):
        sc += "Reset\nWalk 37 1 2\nNoDetent %d %d\nWalk 50 -1 3\n" % (n, d)      # long stretches that never visit the detent
    # stretches off the detent whose net movement is an exact multiple of 256 / 16384 clicks (+-1 quarter step around it)
    for base in (1536, 3072, 3 * 8192, 3 * 32768):
        for k in range(-3, 5):
            sc += "Reset\nWalk 9 1 0\nNoDetent %d %d\nWalk 30 %d 2\n" % (base + k, 1 if k % 2 else -1, -1 if k % 2 else 1)
    # the same state polled many times in a row: at rest on the detent (also with the phase shifted by invalid jumps),
    # and held at each of the other three states; run lengths beyond any 8- or 16-bit dwell counter
    holds = (130, 260, 520, 1100, 4095, 4096, 4097, 70000) if run.thorough() else (130, 260, 520, 4097, 70000)
    for i, n in enumerate(holds):
        for pre in ("", "D 3\nD 2\nD 0\n", "D 3\nD 1\nD 0\n", "D 1\nD 2\nD 0\nD 3\nD 2\nD 0\n"):
            sc += "Reset\nWalk %d 1 0\n%sHold 0 %d\nWalk 9 1 1\nWalk 30 -1 2\n" % (8 + i, pre, n if n < 70000 or not pre else 66000)
        for st in (1, 3, 2):
            sc += "Reset\nWalk %d -1 0\n" % (4 + i)
            sc += {1: "D 1\n", 3: "D 1\nD 3\n", 2: "D 2\n"}[st]
            sc += "Hold %d %d\nWalk 13 1 3\nWalk 40 -1 0\nHold 0 5\nWalk 9 1 2\n" % (st, n if st == 3 or n < 70000 else 66000)
    # the counts are read only now and then: rests on clicks that are multiples of 256 / 16384 go unread, the first read comes
    # part-way through the next click (or several clicks later)
    for clicks in (255, 256, 257, 512, 16383, 16384, 16385):
        for back in (1, 2, 3, 5):
            for d in (1, -1):
                sc += "Reset\nQWalk %d %d\nQWalk %d %d\nWalk 6 %d 0\n" % (4 * clicks, d, back, -d, d)
    # fast steady rotation (no sample repeated) of every length around 8-bit run-length limits, ended by a two-bit jump
    for n in (list(range(1, 12)) + [31, 32, 33, 63, 64, 65, 119, 120, 121, 122, 123, 124, 127, 128, 129, 130, 200, 255, 256, 257, 258, 300, 511, 512, 513, 1000,
                                     32767, 32768, 32769, 65535, 65536, 65537, 70000]):
        for d in (1, -1):
            sc += "Reset\nSpin %d %d\n" % (n, d)
    sc += "Reset\nRandom %d %d\n" % (run.seed, 600000 if run.thorough() else 60000)
    tr = exec_script(run, exe, [], sc, run.path("walk.ndjson"), "walks", timeout=600)
    check_trace(run, "walks", "TraceRotenc", "TraceRotenc.cfg", tr, timeout=1500)
    # builds for size and release-style builds compile other code paths where a source has them: a reduced set of walks each
    for tag, flags in (("os", ["-Os", "-DNDEBUG"]), ("rel", ALT_FLAGS)):
        exe2 = build_driver(run, "rotenc_drv_" + tag, "rotenc_drv.c", ["librfn/rotenc.c"], extra_flags=flags)
        sc2 = "Reset\nWalk 1700 1 5\nWalk 1400 -1 2\nReset\nD 3\nD 0\nD 3\nD 1\nD 2\nD 0\nWalk 40 1 5\nReset\nRandom %d 20000\n" % (run.seed + 9)
        tr2 = exec_script(run, exe2, [], sc2, run.path("walk-%s.ndjson" % tag), "walks-" + tag, timeout=300)
        check_trace(run, "walks-" + tag, "TraceRotenc", "TraceRotenc.cfg", tr2, timeout=600)
    count_event_cases(run, tr)
    sample_trace(run, tr, 12)
