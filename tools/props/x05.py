"""X05 (growth, not a listed property) - fuzz.c: approximate comparisons (spec/Fuzz.tla, harness/fuzz_drv.c)"""
from vlib import *  # noqa

LEVEL = "model_checking"
RULE = ("Growth module: TLC checks on -40..40 and 0..6 bits what a user of an approximate comparison relies on (reflexive, "
        "symmetric, stricter with more bits, never across zero, nothing but zero is close to zero); the real fuzzcmp / fuzzcmpb / "
        "fuzzcmpe and their float variants are driven with integer-valued operands where the floating-point arithmetic is exact "
        "(boundary cases m * (1 + 2^-bits) and |a - b| = e included), every result validated by TLC against the integer "
        "operators of Fuzz.tla.")
ASSUMPTIONS = ["integer-valued operands below 2^12, bits <= 10: the code's floating-point products are exact there"]


def run(run):
    res = require_ok(run, tlc(run, "Fuzz_mc", "Fuzz_mc.cfg", tag="mc", constants_note={"Max": 40, "MaxBits": 6}), "Fuzz MC")
    if res["violated"]:
        raise Infra("Fuzz specification violates %s" % res["violated"])
    exe = build_driver(run, "fuzz_drv", "fuzz_drv.c", ["librfn/fuzz.c"])
    tr = exec_script(run, exe, [], "Random %d %d\n" % (run.seed, 20000 if run.thorough() else 3000), run.path("fuzz.ndjson"), "cases")
    check_trace(run, "cases", "TraceFuzz", "TraceFuzz.cfg", tr)
    count_event_cases(run, tr)
    sample_trace(run, tr, 3)
