"""C17 - rand31_r is Park-Miller (spec/Rand31.tla, harness/rand_drv.c)"""
from vlib import *  # noqa
from vlib import sh, REPO, HARNESS

LEVEL = "exploration"
RULE = ("TLC checks Carta(s) = ParkMiller(s) (Schrage form) and the range for ~295k structured states (all s < 2^16, every "
        "k*2^16 + boundary j, extremes). For the real code: structured, trajectory and random states are run through "
        "rand31_r; returned value, updated seed and the 64-bit reference are checked by TLC against ParkMiller (TraceRand); "
        "the reference then serves as oracle of an exhaustive sweep of all 2^31-2 states (value, updated seed, range). "
        "evaluations = vector events + swept states; distinct_nontrivial = distinct vector events.")
ASSUMPTIONS = ["the exhaustive statement rests on the 64-bit C reference validated by TLC on the vectors",
               "full period follows from 16807 being a primitive root modulo the prime 2^31-1 (not checked)"]


DEFAULT_NAMES = ["sp", "p", "s", "seed", "seedp", "hi", "lo", "x", "state", "r", "t", "tmp", "ptr", "v", "n", "ret", "res", "a", "q", "rng"]
C_WORDS = {"uint32_t", "uint16_t", "uint64_t", "int", "unsigned", "return", "if", "else", "do", "while", "const", "volatile", "long",
           "short", "char", "sizeof", "static", "inline", "extern", "void", "__extension__", "__typeof__", "typeof", "VPARG", "rand31_r"}


def expansion_names():
    """identifiers that appear when rand31_r(arg) is preprocessed (none unless the header puts a macro in front of the function)"""
    import re
    rc, out = sh(["gcc", "-E", "-P", "-I" + os.path.join(REPO, "include"), "-x", "c", "-"], timeout=60,
                 inp=b"#include <librfn/rand.h>\nVPMARK rand31_r(VPARG);\n")
    if rc != 0 or "VPMARK" not in out:
        return []
    text = out[out.rfind("VPMARK") + 6:]
    return [n for n in sorted(set(re.findall(r"[A-Za-z_]\w*", text))) if n not in C_WORDS and not n.startswith("_") and not n.endswith("_")
            and not n.lower().startswith(("rand31_", "rf_", "librfn_"))][:30]


def run(run):
    res = require_ok(run, tlc(run, "Rand31_mc", "Rand31_mc.cfg", tag="mc"), "Rand31 MC")
    if res["violated"]:
        raise Infra("Rand31: Carta differs from Park-Miller: %s" % res["violated"])
    account_mc(run, res)
    names = DEFAULT_NAMES + [n for n in expansion_names() if n not in DEFAULT_NAMES]
    nh = run.path("rand_names.h")
    open(nh, "w").write("#define VP_NAMES(X) %s\n" % " ".join("X(%s)" % n for n in names))
    nflag = '-DVP_NAMES_H="%s"' % nh
    exe = build_driver(run, "rand_drv", "rand_drv.c", ["librfn/rand.c"], cc=["gcc", "-std=gnu11", "-O2", "-g", "-DLIBRFN_VERIF", nflag])
    nr = 100000 if run.thorough() else 10000
    tr = exec_script(run, exe, [], "Vectors %d %d\nSweep %d\n" % (run.seed, nr, NCPU), run.path("rand.ndjson"), "vectors+sweep", timeout=900)
    n = count_lines(tr)
    check_trace(run, "vectors+sweep", "TraceRand", "TraceRand.cfg", tr, timeout=1500)
    hs = set()
    with open(tr, "rb") as f:
        for line in f:
            hs.add(hashlib.sha1(line).digest()[:10])
    run.hashes |= hs
    run.evaluations += n + (1 << 31) - 2
    run.extra["swept_states"] = (1 << 31) - 2
    sample_trace(run, tr, 4)
    run.add_sample(read_line(tr, n))
    # the function depends on its argument alone - not on the process environment: the vectors again with every variable the
    # library's sources ask getenv() for set to a number (the names are scanned from the tree under test)
    import re, glob
    names_env = set()
    for src in glob.glob(os.path.join(REPO, "librfn", "*.c")) + glob.glob(os.path.join(REPO, "include", "librfn", "*.h")):
        names_env |= set(re.findall(r'getenv\s*\(\s*"([A-Za-z_][A-Za-z0-9_]*)"', open(src, errors="replace").read()))
    for val in ("42", "1"):
        tre = exec_script(run, exe, [], "Vectors %d %d\n" % (run.seed + 2, 500), run.path("rand-env%s.ndjson" % val), "vectors with environment",
                          timeout=300, env={n: val for n in names_env})
        check_trace(run, "vectors-with-environment", "TraceRand", "TraceRand.cfg", tre, timeout=600)
    # whole-program builds: the generator compiled into the caller's translation unit (-include rand.c) and with -flto, at -O2:
    # the optimiser sees both sides of the call, so anything the source only gets away with across a call boundary shows
    for vtag, cc, srcs in (("unity", ["gcc", "-std=gnu11", "-O2", "-g", "-DLIBRFN_VERIF", nflag, "-include", os.path.join(REPO, "librfn/rand.c")], []),
                           ("lto", ["gcc", "-std=gnu11", "-O2", "-flto", "-g", "-DLIBRFN_VERIF", nflag], ["librfn/rand.c"]),
                           ("O3", ["gcc", "-std=gnu11", "-O3", "-g", "-DLIBRFN_VERIF", nflag, "-include", os.path.join(REPO, "librfn/rand.c")], [])):
        try:
            exev = build_driver(run, "rand_drv_" + vtag, "rand_drv.c", srcs, cc=cc)
        except Infra as e:
            if "-include" not in cc:
                raise
            # the generator's private names may clash with the driver's when both share a translation unit: not a verdict
            run.notes.append("%s build not possible (%s); the LTO build covers whole-program optimisation" % (vtag, str(e).strip().splitlines()[-1][:160]))
            continue
        trv = exec_script(run, exev, [], "Vectors %d %d\nSweep %d\n" % (run.seed + 1, 3000, NCPU), run.path("rand-%s.ndjson" % vtag), vtag + " build vectors+sweep", timeout=900)
        check_trace(run, vtag + "-build-vectors+sweep", "TraceRand", "TraceRand.cfg", trv, timeout=900)
    # the same source built for an ILP32 target (gcc -m32, freestanding): vectors validated by TLC, then all 2^31-2 states
    # against Schrage's form (the specification's ParkMiller operator, 32-bit safe)
    exe32 = run.path("rand32_drv")
    rc, out = sh(["gcc", "-m32", "-O2", "-ffreestanding", "-nostdlib", "-static", "-fno-pie", "-no-pie", "-fno-stack-protector",
                  "-fno-asynchronous-unwind-tables", "-I" + os.path.join(REPO, "include"), os.path.join(HARNESS, "rand32_drv.c"),
                  os.path.join(REPO, "librfn/rand.c"), "-o", exe32], timeout=300)
    if rc != 0:
        raise Infra("ILP32 build failed:\n" + out[-2000:])
    tr32 = exec_script(run, exe32, [], "", run.path("rand32.ndjson"), "ilp32 vectors+sweep", timeout=900)
    check_trace(run, "ilp32-vectors+sweep", "TraceRand", "TraceRand.cfg", tr32, timeout=900)
    run.evaluations += (1 << 31) - 2
    run.extra["swept_states_ilp32"] = (1 << 31) - 2
