"""C17 - rand31_r is Park-Miller (spec/Rand31.tla, harness/rand_drv.c)"""
from vlib import *  # noqa
from vlib import sh, REPO, HARNESS

LEVEL = "exploration"
RULE = ("TLC checks Carta(s) = ParkMiller(s) (Schrage form) and the range for ~295k structured states (all s < 2^16, every "
        "k*2^16 + boundary j, extremes). For the real code: structured, trajectory and random states are run through "
        "rand31_r; returned value, updated seed and the 64-bit reference are checked by TLC against ParkMiller (TraceRand); "
        "the reference then serves as oracle of an exhaustive sweep of all 2^31-2 states (value, updated seed, range). "
        "evaluations = vector events + swept states; distinct_nontrivial = distinct vector events.")
ASSUMPTIONS = ["the exhaustive statement rests on the 64-bit C reference validated by TLC on the vectors",
               "full period follows from 16807 being a primitive root modulo the prime 2^31-1 (not checked)"]


def run(run):
    res = require_ok(run, tlc(run, "Rand31_mc", "Rand31_mc.cfg", tag="mc"), "Rand31 MC")
    if res["violated"]:
        raise Infra("Rand31: Carta differs from Park-Miller: %s" % res["violated"])
    account_mc(run, res)
    exe = build_driver(run, "rand_drv", "rand_drv.c", ["librfn/rand.c"], cc=["gcc", "-std=gnu11", "-O2", "-g", "-DLIBRFN_VERIF"])
    nr = 100000 if run.thorough() else 10000
    tr = exec_script(run, exe, [], "Vectors %d %d\nSweep %d\n" % (run.seed, nr, NCPU), run.path("rand.ndjson"), "vectors+sweep", timeout=900)
    n = count_lines(tr)
    check_trace(run, "vectors+sweep", "TraceRand", "TraceRand.cfg", tr, timeout=1500)
    hs = set()
    with open(tr, "rb") as f:
        for line in f:
            hs.add(hashlib.sha1(line).digest()[:10])
    run.hashes |= hs
    run.evaluations += n + (1 << 31) - 2
    run.extra["swept_states"] = (1 << 31) - 2
    sample_trace(run, tr, 4)
    run.add_sample(read_line(tr, n))
    # the same source built for an ILP32 target (gcc -m32, freestanding): vectors validated by TLC, then all 2^31-2 states
    # against Schrage's form (the specification's ParkMiller operator, 32-bit safe)
    exe32 = run.path("rand32_drv")
    rc, out = sh(["gcc", "-m32", "-O2", "-ffreestanding", "-nostdlib", "-static", "-fno-pie", "-no-pie", "-fno-stack-protector",
                  "-fno-asynchronous-unwind-tables", "-I" + os.path.join(REPO, "include"), os.path.join(HARNESS, "rand32_drv.c"),
                  os.path.join(REPO, "librfn/rand.c"), "-o", exe32], timeout=300)
    if rc != 0:
        raise Infra("ILP32 build failed:\n" + out[-2000:])
    tr32 = exec_script(run, exe32, [], "", run.path("rand32.ndjson"), "ilp32 vectors+sweep", timeout=900)
    check_trace(run, "ilp32-vectors+sweep", "TraceRand", "TraceRand.cfg", tr32, timeout=900)
    run.evaluations += (1 << 31) - 2
    run.extra["swept_states_ilp32"] = (1 << 31) - 2
