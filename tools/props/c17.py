"""C17 - rand31_r is Park-Miller (spec/Rand31.tla, harness/rand_drv.c)"""
from vlib import *  # noqa

LEVEL = "exploration"
RULE = ("TLC checks Carta(s) = ParkMiller(s) (Schrage form) and the range for ~295k structured states (all s < 2^16, every "
        "k*2^16 + boundary j, extremes). For the real code: structured, trajectory and random states are run through "
        "rand31_r; returned value, updated seed and the 64-bit reference are checked by TLC against ParkMiller (TraceRand); "
        "the reference then serves as oracle of an exhaustive sweep of all 2^31-2 states (value, updated seed, range). "
        "evaluations = vector events + swept states; distinct_nontrivial = distinct vector events.")
ASSUMPTIONS = ["the exhaustive statement rests on the 64-bit C reference validated by TLC on the vectors",
               "full period follows from 16807 being a primitive root modulo the prime 2^31-1 (not checked)"]


def run(run):
    res = require_ok(run, tlc(run, "Rand31_mc", "Rand31_mc.cfg", tag="mc"), "Rand31 MC")
    if res["violated"]:
        raise Infra("Rand31: Carta differs from Park-Miller: %s" % res["violated"])
    account_mc(run, res)
    exe = build_driver(run, "rand_drv", "rand_drv.c", ["librfn/rand.c"], cc=["gcc", "-std=gnu11", "-O2", "-g", "-DLIBRFN_VERIF"])
    nr = 100000 if run.thorough() else 10000
    tr = exec_script(run, exe, [], "Vectors %d %d\nSweep %d\n" % (run.seed, nr, NCPU), run.path("rand.ndjson"), "vectors+sweep", timeout=900)
    n = count_lines(tr)
    check_trace(run, "vectors+sweep", "TraceRand", "TraceRand.cfg", tr, timeout=1500)
    hs = set()
    with open(tr, "rb") as f:
        for line in f:
            hs.add(hashlib.sha1(line).digest()[:10])
    run.hashes |= hs
    run.evaluations += n + (1 << 31) - 2
    run.extra["swept_states"] = (1 << 31) - 2
    sample_trace(run, tr, 4)
    run.add_sample(read_line(tr, n))
