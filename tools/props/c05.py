"""C05 - ring buffer delivers each byte once, in order (spec/RingBuf.tla, harness/rb_drv.c + vrt.c)"""
from vlib import *  # noqa

LEVEL = "model_checking"
RULE = ("TLC explores RingBuf.tla (one action per atomic load/store) exhaustively for fixed producer/consumer programs, "
        "ring lengths 2..5, several start indices, under free preemption and irq-style preemption in either direction; "
        "every edge of each state graph is executed as a schedule on the real ringbuf.c under vrt and validated by TLC "
        "against TraceRingBuf.tla; plus seeded random programs/schedules on rings of length 2..4096 with guard bytes. "
        "A case = one execution; distinct by event-text hash; non-trivial = at least one step.")
ASSUMPTIONS = ["sequentially consistent interleavings at atomic-operation granularity (C07 covers ordering)",
               "one producer context and one consumer context"]
LOOSE = ("TraceRingBufLoose", "TraceRingBufLoose.cfg")
ACTIONS = ["PutLoadW", "PutLoadR", "PutStore", "PutPub", "GetLoadR", "GetLoadW", "GetRead", "GetPub", "EmptyLoadR", "EmptyLoadW"]
# (configuration g adds PEmptyLoadR / PEmptyLoadW: ringbuf_empty called from the producer's side)

PROGS = {
    "A": ([(0, 1), (1, 128), (0, 255)], [0, 1, 0, 0]),
    "B": ([(0, 255), (0, 0), (0, 127), (0, 128)], [0, 0, 1, 0, 0]),
    "C": ([(1, 1), (1, 128), (1, 255), (1, 0), (0, 127)], [0, 0, 0, 1, 0, 0, 0]),
    "D": ([(0, 1), (0, 2), (0, 3), (0, 4), (0, 5), (0, 6)], [0, 1, 0, 0, 0, 1, 0, 0]),
    "E": ([(0, 7), (2, 0), (1, 9), (2, 0), (0, 11)], [0, 1, 0, 0]),
    "W": ([(0, 3), (0, 4), (2, 0)], [2, 0, 1, 2, 0]),
}
CFGS = [("a", 2, 1, "A"), ("b", 3, 2, "B"), ("c", 2, 0, "C"), ("d", 4, 3, "D"), ("e", 3, 1, "C"), ("f", 5, 4, "D"), ("g", 3, 2, "E"), ("h", 3, 2, "W")]


def conv(name, args):
    return "S 1" if name.startswith(("Put", "PEmpty")) else "S 0"


def reset_line(ln, st, prog):
    pp, cp = PROGS[prog]
    return "Reset %d %d %d %s %d %s" % (ln, st, len(pp), " ".join("%d %d" % x for x in pp), len(cp), " ".join(map(str, cp)))


def run_rb(run, exe, trace_mod="TraceRingBuf", trace_cfg="TraceRingBuf.cfg", cfgs=None, nrandom=None, tagp="", validate=True):
    traces = []
    for (n, ln, st, prog) in (cfgs or CFGS):
        for disc in ("t", "i"):
            name = n + disc
            dot = run.path("rb-%s.dot" % name)
            res = require_ok(run, tlc(run, "RingBuf_mc", "RingBuf_%s.cfg" % name, dump=dot, tag=tagp + name,
                                      constants_note={"BufLen": ln, "StartIdx": st, "prog": prog, "disc": disc}), name)
            if res["violated"]:
                raise Infra("RingBuf specification violates %s in %s" % (res["violated"], name))
            account_mc(run, res, ACTIONS if prog != "A" or True else None)
            inits, edges = parse_dot(dot)
            os.unlink(dot)
            paths, total = edge_cover(inits, edges)
            run.extra.setdefault("graph_edges", {})[name] = total
            script = labels_to_script(paths, reset_line=reset_line(ln, st, prog), conv=conv)
            tr = run.path("%scover-%s.ndjson" % (tagp, name))
            exec_script(run, exe, [], script, tr, "edge-cover-" + name)
            traces.append(tr)
    # one TLC run validates all edge-cover traces (concatenated; Reset separates executions)
    allp = run.path(tagp + "cover-all.ndjson")
    with open(allp, "wb") as out:
        for t in traces:
            with open(t, "rb") as f:
                shutil.copyfileobj(f, out)
    if validate:
        check_trace(run, "edge-cover", trace_mod, trace_cfg, allp, loose=LOOSE if trace_mod == "TraceRingBuf" else None)
    sample_trace(run, traces[0], 10)
    n = nrandom or (6000 if run.thorough() else 1000)
    gen = "Gen %d %d 0\nGen %d %d 1\n" % (run.seed * 10 + 1, n, run.seed * 10 + 2, n)
    gen += "Late 2 %d\nLate 3 2600\nLate 5 700\n" % (400000 if run.thorough() else 110000)   # long-blocked ringbuf_putchar
    gen += "Fill 70001 0\nFill 65537 65530\n"                                                     # rings larger than 64 KiB, filled completely
    tr = exec_script(run, exe, [], gen, run.path(tagp + "random.ndjson"), "random-schedules")
    if validate:
        check_trace(run, "random-schedules", trace_mod, trace_cfg, tr, loose=LOOSE if trace_mod == "TraceRingBuf" else None)
    return [allp, tr]


def run(run):
    exe = build_vrt(run, "rb_drv", "rb_drv.c", ["librfn/ringbuf.c"])
    run_rb(run, exe)
    # rings of 2^31 bytes and more, indices next to the end: sequential calls validated against RingBufBig.tla
    res = require_ok(run, tlc(run, "RingBufBig", "RingBufBig_mc.cfg", tag="big-mc", constants_note={"H": 4, "lengths": "2,3,4,5,7,8"}), "RingBufBig MC")
    if res["violated"]:
        raise Infra("RingBufBig specification violates %s" % res["violated"])
    account_mc(run, res, ["Put", "Get", "Empty"])
    trh = exec_script(run, exe, [], "Huge\n", run.path("huge.ndjson"), "huge-rings")
    check_trace(run, "huge-rings", "TraceRingBufBig", "TraceRingBufBig.cfg", trh)
    # release-style build (NDEBUG, unsigned char, -O2): random programs and schedules again
    exe2 = build_vrt(run, "rb_drv_alt", "rb_drv.c", ["librfn/ringbuf.c"], extra_flags=ALT_FLAGS)
    n = 2000 if run.thorough() else 400
    gen = "Gen %d %d 0\nGen %d %d 1\nLate 3 600\nFill 300 290\n" % (run.seed * 10 + 5, n, run.seed * 10 + 6, n)
    tr = exec_script(run, exe2, [], gen, run.path("alt-random.ndjson"), "release-build-schedules")
    check_trace(run, "release-build-schedules", "TraceRingBuf", "TraceRingBuf.cfg", tr, loose=LOOSE)
