"""C13 - WAV headers round-trip and describe the file (spec/WavHeader.tla, harness/wav_drv.c)"""
from vlib import *  # noqa

LEVEL = "model_checking"
RULE = ("TLC checks the WavHeader operators (InitHeader/SetFrames/EncodeBytes/Parse as byte-tuple arithmetic) on every "
        "tuple of the bounded domain (Validates, RoundTripStruct, SizesConsistent, NoTruncatedSuccess, RoundTripBytes); "
        "the driver runs the real init/set_num_frames/validate/encode/decode for 3 prior contents x 3 formats x channels "
        "{1,2,6,255} x rates {1,8000,44100,192000} x frame counts up to the 32-bit limit (+ random tuples in thorough) and, "
        "decode-first, every structured/hostile/random byte string of C14; each case is one event that TLC validates "
        "against TraceWav.tla (field-by-field structure, bytes, lengths). A case = one event; distinct by hash.")
ASSUMPTIONS = ["scope: sizes fit in 32 bits", "fact_chunk_size = 12 (the code counts the chunk header) is accepted as the code's convention"]
SRCS = ["librfn/wavheader.c", "librfn/pack.c", "librfn/string.c", "librfn/util.c"]


def mc(run):
    res = require_ok(run, tlc(run, "WavHeader_mc", "WavHeader_mc.cfg", tag="mc"), "WavHeader MC")
    if res["violated"]:
        raise Infra("WavHeader operators violate %s" % res["violated"])
    account_mc(run, res)


def events(run, exe, script, name, cfg="TraceWav.cfg"):
    tr = exec_script(run, exe, [], script, run.path(name + ".ndjson"), name, timeout=600)
    n = count_lines(tr)
    hs = set()
    with open(tr, "rb") as f:
        for line in f:
            hs.add(hashlib.sha1(line).digest()[:10])
    check_trace(run, name, "TraceWav", cfg, tr, timeout=1500)
    run.hashes |= hs
    run.evaluations += n
    run.traces += n - 1
    return tr


def run(run):
    exe = build_driver(run, "wav_drv", "wav_drv.c", SRCS)
    mc(run)
    tr = events(run, exe, "Init %d\n" % (1 if run.thorough() else 0), "init-cases")
    sample_trace(run, tr, 2)
    events(run, exe, "Decode %d %d\n" % (run.seed, 20000 if run.thorough() else 1500), "decode-first")
