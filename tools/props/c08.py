"""C08 - protothreads resume where they blocked, relay child results (spec/Proto.tla, tools/ptgen.py, harness/proto_main.c)"""
from vlib import *  # noqa

LEVEL = "model_checking"
RULE = ("tools/ptgen.py produces a set of protothread programs (every blocking construct - PT_YIELD, PT_WAIT, PT_WAIT_UNTIL, "
        "PT_SPAWN of six children incl. a two-level one, PT_SPAWN_AND_CHECK, PT_CALL - in eleven control-flow contexts up to "
        "nesting depth 3, plus seeded random programs) and translates each both to the control-flow graph interpreted by "
        "Proto.tla and to a C function built from the real protothreads.h macros. TLC checks for every program that the "
        "invocation semantics (Exec) performs exactly the uncut sequential program (SeqRun): effects, result, variables, "
        "environment steps. The C functions are run invocation by invocation (twice: restart after PT_INIT) and every "
        "invocation's effects, return code and variables are validated by TLC against Exec (TraceProto); the same C bodies "
        "compiled against sequential stand-in macros must reproduce SeqRun (cross-check of the two translations). "
        "A case = one program; distinct by source hash.")
ASSUMPTIONS = ["scope of the property: one blocking macro per source line, none inside a nested switch, PT_CHILD_OK consulted "
               "before the next blocking point, re-invocation after exit only following PT_INIT (the generator obeys it)",
               "ptgen.py's AST->graph and AST->C translations are trusted only up to the sequential cross-check",
               "user code does not use identifiers from the header's own namespace (pt_*, PT_*, missing_PT_BEGIN, names with a "
               "leading or trailing underscore); any other identifier may be a user variable that a macro argument mentions"]

MC_TMPL = """---- MODULE Proto_mc_%(tag)s ----
EXTENDS Proto, ProtoProgs_%(tag)s
VARIABLE p
Init == p \\in 1..Len(Progs)
Next == UNCHANGED p
AllEquivalent == Equivalent(Progs[p])
====
"""
TRACE_TMPL = """---- MODULE TraceProto_%(tag)s ----
EXTENDS Proto, ProtoProgs_%(tag)s, Json, IOUtils, TLC
T == ndJsonDeserialize(IOEnv.TRACE)
VARIABLES ti, p, S
Suffix(s, n) == SubSeq(s, n + 1, Len(s))
TraceInit == ti = 1 /\\ p = 1 /\\ S = State0(Progs[1])
TraceNext ==
  /\\ ti <= Len(T) /\\ ti' = ti + 1
  /\\ LET ev == T[ti] IN
     CASE ev.e = "Start" -> p' = ev.p /\\ S' = State0(Progs[ev.p])
       [] ev.e = "Restart" -> p' = p /\\ S' = [S EXCEPT !.th[<<>>].lc = 0]            \\* PT_INIT(main)
       [] ev.e = "Inv" ->                                                            \\* one invocation of the real C function
            LET c == Exec(Progs[p], <<>>, S) IN
            /\\ ev.r = c.r                                                            \\* yielded / waiting / exited / failed
            /\\ ev.eff = c.S.out                                                      \\* side effects of exactly this invocation
            /\\ ev.a = c.S.th[<<>>].a /\\ ev.b = c.S.th[<<>>].b
            /\\ p' = p /\\ S' = [c.S EXCEPT !.out = <<>>, !.tick = @ + 1]
       [] ev.e = "Sweep" ->                  \\* a straight-line thread of n yields (what Exec gives for it, in closed form)
            /\\ ev.yields = ev.n /\\ ev.r = "X" /\\ ev.effects = ev.n + 1 /\\ ev.ok = 1
            /\\ UNCHANGED <<p, S>>
       [] ev.e = "Seq" ->                                                            \\* same C body, sequential stand-in macros
            LET s == SeqRun(Progs[ev.p], <<>>, 1, State0(Progs[ev.p]), "Y", FALSE, 100000) IN
            /\\ ev.r = s.r /\\ ev.eff = s.S.out /\\ ev.tick = s.S.tick /\\ ev.a = s.S.th[<<>>].a /\\ ev.b = s.S.th[<<>>].b
            /\\ UNCHANGED <<p, S>>
       [] OTHER -> FALSE
TraceSpec == TraceInit /\\ [][TraceNext]_<<ti, p, S>>
TraceAccepted ==
  LET d == TLCGet("stats").diameter IN
  IF d - 1 = Len(T) THEN TRUE ELSE Print(<<"TRACE_REJECTED_AT", d>>, FALSE)
====
"""


BLOCKING = ["PT_WAIT()", "PT_WAIT_UNTIL(VPARG1)", "PT_YIELD()", "PT_EXIT()", "PT_EXIT_ON(VPARG1)", "PT_FAIL()", "PT_FAIL_ON(VPARG1)",
            "PT_SPAWN(VPARG1, VPARG2)", "PT_SPAWN_AND_CHECK(VPARG1, VPARG2)", "PT_CALL(VPARG1, VPARG2)", "PT_CHILD_OK()", "PT_END()"]


def macro_locals():
    """identifiers the blocking macros declare inside their own expansion (the preprocessor's output is scanned): user
    variables of exactly these names are what the macros' arguments may mention"""
    import re
    src = "#include <librfn/protothreads.h>\n" + "".join("VPMARK %s ;\n" % m for m in BLOCKING)
    rc, out = sh(["gcc", "-E", "-P", "-I" + os.path.join(REPO, "include"), "-x", "c", "-"], timeout=60, inp=src.encode())
    if rc != 0:
        return []
    text = out[out.find("VPMARK"):]
    decl = re.compile(r"(?:^|[{;(])\s*(?:(?:const|volatile|unsigned|signed|static|register|long|short)\s+)*"
                      r"(?:bool|_Bool|int|char|long|short|float|double|unsigned|\w+_t|__typeof__\s*\([^;{}]*?\)|typeof\s*\([^;{}]*?\)|struct\s+\w+|enum\s+\w+)"
                      r"[\s*]+([A-Za-z_]\w*)\s*(?==|;|\[)")
    names = sorted(set(decl.findall(text)) - {"VPARG1", "VPARG2", "VPMARK"})
    # names in the header's own namespace (pt_ / PT_ prefix, leading or trailing underscore) are how a C macro stays out of the
    # user's way - user code is assumed not to use them (as it must not use missing_PT_BEGIN / pt_spawn_res today)
    return [n for n in names if re.fullmatch(r"[A-Za-z]\w*[A-Za-z0-9]", n) and not n.lower().startswith(("pt_", "missing_pt", "rf_", "librfn_"))][:40]


def run(run):
    tag = run.tier[0]
    nrandom = 2500 if run.thorough() else 250
    gd = run.path("gen")
    os.makedirs(gd, exist_ok=True)
    rc, out = sh(["python3", os.path.join(ROOT, "tools", "ptgen.py"), tag, str(run.seed), str(nrandom),
                  os.path.join(gd, "ProtoProgs_%s.tla" % tag), os.path.join(gd, "proto_gen.c")] + macro_locals())
    if rc != 0:
        raise Infra("ptgen failed: " + out[-2000:])
    nprogs = int(out.strip().splitlines()[-1])
    run.extra["programs"] = nprogs
    open(os.path.join(gd, "Proto_mc_%s.tla" % tag), "w").write(MC_TMPL % {"tag": tag})
    open(os.path.join(gd, "Proto_mc_%s.cfg" % tag), "w").write("INIT Init\nNEXT Next\nINVARIANT AllEquivalent\n")
    open(os.path.join(gd, "TraceProto_%s.tla" % tag), "w").write(TRACE_TMPL % {"tag": tag})
    open(os.path.join(gd, "TraceProto_%s.cfg" % tag), "w").write("SPECIFICATION TraceSpec\nPOSTCONDITION TraceAccepted\nCHECK_DEADLOCK FALSE\n")
    res = require_ok(run, tlc(run, "Proto_mc_" + tag, "Proto_mc_%s.cfg" % tag, tag="mc", spec_dir=gd, timeout=1500,
                              constants_note={"programs": nprogs}), "Proto MC")
    if res["violated"]:
        raise Infra("Proto: invocation semantics differs from the sequential program (%s)\n%s" % (res["violated"], res["out"][-1500:]))
    account_mc(run, res)
    gen = '-DVP_GEN="%s"' % os.path.join(gd, "proto_gen.c")
    try:
        real = build_driver(run, "proto_real", "proto_main.c", [], extra_flags=[gen])
    except Infra as e:
        # the generated programs use every macro as a single statement (unbraced branches included): the header promises that
        raise Violation("valid protothread programs do not compile against the header: %s" % str(e)[-600:],
                        replay=save_replay(run, "real-build", {"property": run.pid, "what": "build of the generated programs", "compiler": str(e)[-4000:]}))
    seq = build_driver(run, "proto_seq", "proto_main.c", [], extra_flags=[gen, "-DPT_SEQ"])
    t1 = exec_script(run, real, [], "", run.path("real.ndjson"), "real-macros", timeout=300)
    t2 = exec_script(run, seq, [], "", run.path("seq.ndjson"), "sequential-standins", timeout=300)
    # every line number as a resume point (and functions far larger than 32 KiB of code); user variables named like anything
    # the macros declare in their own expansion (plus a list of everyday names)
    sweepf = '-DVP_SWEEP="%s"' % os.path.join(gd, "proto_gen_sweep.c")
    parts = open(os.path.join(gd, "proto_gen_sweep.c.parts")).read().split()
    sw = build_driver(run, "proto_sweep", ["proto_main.c"] + parts, [], extra_flags=[gen, sweepf], cc=["gcc", "-std=gnu11", "-O0", "-g", "-DLIBRFN_VERIF"])
    capf = '-DVP_GEN="%s"' % os.path.join(gd, "proto_gen_capture.c")
    try:
        cap = build_driver(run, "proto_capture", "proto_main.c", [], extra_flags=[capf, "-DVP_CAPTURE"])
    except Infra as e:
        raise Violation("valid protothread programs (a file-scope variable used in the conditions) do not compile: %s" % str(e)[-600:],
                        replay=save_replay(run, "capture-build", {"property": run.pid, "what": "capture variants build", "compiler": str(e)[-4000:]}))
    t4 = exec_script(run, sw, [], "", run.path("sweep.ndjson"), "line-sweep", timeout=600)
    t5 = exec_script(run, cap, [], "", run.path("capture.ndjson"), "user-identifiers", timeout=300)
    allp = run.path("proto.ndjson")
    with open(allp, "wb") as o:
        for t in (t1, t2, t4, t5):
            with open(t, "rb") as f:
                shutil.copyfileobj(f, o)
    check_trace(run, "invocations", "TraceProto_" + tag, "TraceProto_%s.cfg" % tag, allp, spec_dir=gd, timeout=1700)
    # the header's other configurations: unwind messages compiled in (CONFIG_PT_UNWIND), and a release-style build
    for vtag, flags in (("unwind", ["-DCONFIG_PT_UNWIND"]), ("rel", list(ALT_FLAGS))):
        try:
            exe3 = build_driver(run, "proto_" + vtag, "proto_main.c", [], extra_flags=[gen] + flags)
        except Infra as e:
            if vtag != "unwind":
                raise
            # the very same programs compiled a moment ago: with the unwind messages compiled in, the macros no longer
            # behave as single statements (an unbraced if / else around PT_FAIL, PT_EXIT_ON, ...)
            raise Violation("valid protothread programs do not compile with CONFIG_PT_UNWIND: %s" % str(e)[-600:],
                            replay=save_replay(run, "unwind-build", {"property": run.pid, "what": "CONFIG_PT_UNWIND build", "compiler": str(e)[-4000:]}))
        t3 = exec_script(run, exe3, [], "", run.path(vtag + ".ndjson"), "real-macros-" + vtag, timeout=300)
        check_trace(run, "invocations-" + vtag, "TraceProto_" + tag, "TraceProto_%s.cfg" % tag, t3, spec_dir=gd, timeout=1700)
    srcs = json.load(open(os.path.join(gd, "proto_gen.c.json")))
    for s_ in srcs:
        run.count_case(s_["main"])
    run.traces = nprogs
    run.add_sample({"program": srcs[3]})
    sample_trace(run, t1, 8)
