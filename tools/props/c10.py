"""C10 - message queue is a bounded FIFO of fixed buffers for every geometry (spec/MessageQSeq.tla, harness/mqseq_drv.c)"""
from vlib import *  # noqa

LEVEL = "model_checking"
RULE = ("TLC explores MessageQSeq.tla (whole API calls, sends reordered, releases after receives) exhaustively for depth "
        "1..5; every edge of each state graph is replayed on the real messageq.c at several message sizes/slacks/initialisers "
        "and validated by TLC against TraceMessageQSeq.tla; then for every depth 1..32 x message size {1,3,4,7,12,24,1000,4096} (+ 65535 for depths 2,3,17,32; 66000-claim history on depth 3) x "
        "slack {0,1,size-1} x {messageq_init, MESSAGEQ_VAR_INIT} a systematic history (fill, reordered sends, wrap, drain) and "
        "seeded random histories. A case = one execution; distinct by event-text hash; non-trivial = at least one call.")
ASSUMPTIONS = ["sequential use (C04 covers concurrency)", "releases are issued in receive order (API contract)"]
ACTIONS = ["Claim", "Send", "Receive", "Release", "Empty"]


def run(run):
    exe = build_driver(run, "mqseq_drv", "mqseq_drv.c", ["librfn/messageq.c"])
    depths = [1, 2, 3, 4, 5] if run.thorough() else [1, 2, 3, 4]
    script = ""
    for d in depths:
        dot = run.path("mqs-%d.dot" % d)
        res = require_ok(run, tlc(run, "MessageQSeq", "MessageQSeq_d%d.cfg" % d, dump=dot, tag="d%d" % d,
                                  constants_note={"Depth": d}), "MessageQSeq d=%d" % d)
        if res["violated"]:
            raise Infra("MessageQSeq violates %s" % res["violated"])
        account_mc(run, res, ACTIONS if d > 1 else None)
        inits, edges = parse_dot(dot)
        paths, total = edge_cover(inits, edges)
        run.extra.setdefault("graph_edges", {})[str(d)] = total
        for (m, s, st) in [(4, 0, 0), (1, 0, 1), (3, 2, 0), (7, 6, 1), (24, 1, 0)]:
            script += labels_to_script(paths, reset_line="Reset %d %d %d %d" % (d, m, s, st))
    # random walks of the depth-3 and depth-4 models (path diversity beyond the edge cover)
    for d in (3, 4):
        walks = sim_walks(run, "MessageQSeq", "MessageQSeq_d%d.cfg" % d, 1600 if run.thorough() else 400, 60, tag="sim%d" % d)
        script += labels_to_script(walks, reset_line="Reset %d 24 5 %d" % (d, d % 2))
    tr = exec_script(run, exe, [], script, run.path("cover.ndjson"), "edge-cover")
    check_trace(run, "edge-cover", "TraceMessageQSeq", "TraceMessageQSeq.cfg", tr)
    sample_trace(run, tr, 14)
    nr, nops = (20, 300) if run.thorough() else (1, 120)
    tr2 = exec_script(run, exe, [], "Gen %d %d %d %d\n" % (run.seed, nr, nops, 1 if run.thorough() else 0), run.path("geometries.ndjson"), "all-geometries")
    check_trace(run, "all-geometries", "TraceMessageQSeq", "TraceMessageQSeq.cfg", tr2)
    # the closed form the long-service traces are judged with: one whole cycle from any idle state = Cycles(1); composition
    for cfgname in ("MessageQSeqCycle.cfg", "MessageQSeqCycle5.cfg"):
        res = require_ok(run, tlc(run, "MessageQSeqCycle", cfgname, tag="cycle-law-" + cfgname[-5], coverage=False), "cycle law")
        if res["violated"]:
            raise Infra("MessageQSeqCycle violates %s" % res["violated"])
        account_mc(run, res)
    # queues that have been in service for a very long time (2^32 and more claims in thorough): an uninstrumented -O2 build of
    # the same driver, its trace validated against the same specification (Cycles(n) = n whole cycles on an idle queue)
    fast = build_driver(run, "mqseq_drv_fast", "mqseq_drv.c", ["librfn/messageq.c"], cc=["gcc", "-std=gnu11", "-O2", "-g", "-DLIBRFN_VERIF"])
    sc = "Straddle\nLong 16\nLong 24\n" + ("Long 28\nLong1 32\n" if run.thorough() else "Long 27\n")
    tr3 = exec_script(run, fast, [], sc, run.path("long-service.ndjson"), "long-service", timeout=3000)
    check_trace(run, "long-service", "TraceMessageQSeq", "TraceMessageQSeq.cfg", tr3)
