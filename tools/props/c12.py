"""C12 - pack/unpack stays in the buffer, fails stickily, fixed byte order (spec/Pack.tla, harness/pack_drv.c)"""
from vlib import *  # noqa

LEVEL = "model_checking"
RULE = ("TLC explores Pack.tla exhaustively (all operation sequences up to the bound over buffer sizes 0..5/6, every "
        "position at which a sequence crosses the end); the edge cover of the state graph is replayed on pack.c and "
        "validated by TLC against TracePack.tla (buffer image, results, consumed/remaining, guard bytes after every call); "
        "the driver then sweeps every 16-bit value (thorough; a stride in quick) through every 16-bit operation at fit / "
        "exact-fit / one-short positions, all single-byte 32-bit patterns, random 32-bit values and random sequences. "
        "A case = one execution; distinct by event-text hash.")
ASSUMPTIONS = ["scope: total requested bytes below 2^31", "only the operations pack.c implements (the header also declares undefined ones)"]
ACTIONS = ["PackBytes", "UnpackBytes", "PackS16le", "PackU16le", "PackU16be", "PackS32le", "PackU32le", "UnpackChar",
           "UnpackS8", "UnpackU8", "UnpackU16le", "UnpackU32le", "Rewind"]


def build(run):
    return build_driver(run, "pack_drv", "pack_drv.c", ["librfn/pack.c"])


def run(run):
    exe = build(run)
    cfg, budget = ("Pack_t.cfg", None) if run.thorough() else ("Pack_q4.cfg", 150000)
    dot = run.path("pack.dot")
    res = require_ok(run, tlc(run, "Pack_mc", cfg, dump=dot, tag="mc"), "Pack MC")
    if res["violated"]:
        raise Infra("Pack specification violates %s" % res["violated"])
    account_mc(run, res, ACTIONS)
    inits, edges = parse_dot(dot)
    os.unlink(dot)
    # several initial states (buffer sizes): one cover per initial state so that Reset can name the size
    script = ""
    total_all = 0
    for sz, init in init_sizes(run, cfg).items():
        paths, total = edge_cover([init], edges, budget=(budget // 6 if budget else None), seed=run.seed)
        total_all += total
        if edge_cover.last_covered < total:
            run.exhaustive = False
        script += labels_to_script(paths, reset_line="Reset %d" % sz)
    run.extra["graph_edges"] = total_all
    walks = sim_walks(run, "Pack_mc", "Pack_sim.cfg", 4000 if run.thorough() else 800, 12)
    # every simulated behaviour starts from some buffer size: recover it from the first state is not possible from labels alone,
    # so the simulation configuration fixes the size (6) and varies the operations
    script += labels_to_script(walks, reset_line="Reset 6")
    tr = exec_script(run, exe, [], script, run.path("cover.ndjson"), "edge-cover")
    check_trace(run, "edge-cover", "TracePack", "TracePack.cfg", tr)
    sample_trace(run, tr, 8)
    stride, n32, nr = (1, 20000, 4000) if run.thorough() else (9, 2000, 600)
    tr2 = exec_script(run, exe, [], "Alias\nSweep16 %d\nSweep32 %d %d\nRandom %d %d 14\n" % (stride, run.seed, n32, run.seed + 1, nr),
                      run.path("sweep.ndjson"), "value-sweeps")
    check_trace(run, "value-sweeps", "TracePack", "TracePack.cfg", tr2, timeout=1500)


def init_sizes(run, cfg):
    """map buffer size -> initial node id by re-reading the initial states from a tiny dump"""
    dot = run.path("pack-init.dot")
    # depth-0 dump: run TLC with MaxOps=0 constraint via a derived cfg
    src = open(os.path.join(SPEC, cfg)).read()
    import re
    tmpcfg = "Pack_init_tmp_%s%s_%d.cfg" % (run.tier, run.scratch, os.getpid())
    open(os.path.join(SPEC, tmpcfg), "w").write(re.sub(r"MaxOps = \d+", "MaxOps = 0", src))
    try:
        res = tlc(run, "Pack_mc", tmpcfg, dump=dot, tag="inits", coverage=False)
    finally:
        os.unlink(os.path.join(SPEC, tmpcfg))
    out = {}
    for line in open(dot):
        m = re.match(r'^(-?\d+) \[label="(.*)",style = filled\]', line)
        if m:
            st = tlaval.parse_state(m.group(2).replace("\\n", "\n").replace('\\"', '"').replace("\\\\", "\\"))
            out[st["size"]] = int(m.group(1))
    os.unlink(dot)
    return out
