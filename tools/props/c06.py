"""C06 - interrupt-context wake-ups and events never lost or duplicated (spec/FibreIrq.tla, harness/irq_drv.c + vrt.c)"""
from vlib import *  # noqa

LEVEL = "model_checking"
RULE = ("TLC explores FibreIrq.tla exhaustively: the main context steps through fibre_scheduler_next at the grain of its "
        "atomic operations (slow-path test, drain loop of the atomic run queue incl. the nested drain in fibre_run, the event "
        "fibre's receive/release loop, the final check of get_next_wakeup) while 2-3 interrupt-context calls "
        "(fibre_run_atomic on the sleeping / yielding / event fibre, fibre_eventq_claim+send) are placed between any two "
        "atomic operations, nested to depth 2 (irq) and as free-running threads; every edge of each state graph is executed "
        "as a schedule on the real fibre.c + messageq.c under vrt and validated by TLC against TraceFibreIrq.tla (operation, "
        "results, run queue, timer queue and both message queues after every step); seeded random schedules with up to 11 "
        "interrupt calls (enough to fill the 8-deep atomic run queue) likewise. A case = one schedule; distinct by hash.")
RULE += (" Liveness: under FairSpec TLC checks accepted ~> dispatched and sent ~> seen with the main loop running for ever "
         "(and their violation for a fast path that ignores the atomic queue).")
ASSUMPTIONS = ["fibre bodies are the fixed scenario of the property: an event-handling fibre, a yielding fibre, a sleeping fibre",
               "events are delivered in claim order (messageq semantics, C04); with nested handlers this is the order in "
               "which the handlers claimed, not the order in which their sends completed",
               "SC interleavings at atomic-operation grain; plain code between atomic operations is one step (C07 checks races)"]
ACTIONS = ["Drain", "Wake", "RDec", "RWrite", "ROr"]
SRCS = ["librfn/fibre.c", "librfn/messageq.c", "librfn/list.c", "librfn/util.c"]

MAIN = {"MP4": [0, 1, 2, 3], "MP5": [0, 1, 2, 3, 4]}
ISRS = {"IP_A": [(1, 7), (0, 3)], "IP_B": [(1, 7), (1, 8)], "IP_C": [(0, 2), (0, 1)], "IP_D": [(1, 7), (0, 2), (1, 8)],
        "IP_E": [(1, 7), (1, 8), (1, 9)], "IP_F": [(0, 3), (1, 7)], "IP_G": [(0, 2), (0, 2)], "IP_H": [(0, 3), (0, 1)]}
SRUN = {"hi", "ht"}
NOSLEEPER = {"fi", "ft", "gi"}
CFGS_QUICK = [("ai", "MP4", "IP_A"), ("at", "MP4", "IP_A"), ("bi", "MP4", "IP_B"), ("bt", "MP4", "IP_B"), ("ci", "MP4", "IP_C"),
              ("ct", "MP4", "IP_C"), ("di", "MP5", "IP_D"), ("fi", "MP5", "IP_F"), ("ft", "MP5", "IP_F"), ("gi", "MP4", "IP_G"), ("hi", "MP4", "IP_H"), ("ht", "MP4", "IP_H")]
CFGS_THOROUGH = CFGS_QUICK + [("dt", "MP5", "IP_D"), ("ei", "MP5", "IP_E")]


LOOSE = ("TraceFibreIrqLoose", "TraceFibreIrqLoose.cfg", lambda r: len(r.get("isr", [])) <= 4 or r.get("seq") == 1, 2500)


def conv(name, args):
    return "S %d" % (args[0] if args else 0)


def reset_line(mp, ip, sleeper=1, rolls=(0, 0), srun=0):
    # rolls: messages that went through the event queue / the atomic run queue before the schedule starts (cursor positions)
    return "Reset 2 2 %d %d %s %d %s %d %d" % (sleeper, len(MAIN[mp]), " ".join(map(str, MAIN[mp])), len(ISRS[ip]),
                                                " ".join("%d %d" % x for x in ISRS[ip]), rolls[0], rolls[1]) + (" %d 0" % srun)


def build(run, flags=(), name="irq_drv"):
    return build_vrt(run, name, "irq_drv.c", SRCS, extra_flags=flags)


def run_irq(run, for_c03=False, exe=None, cfgs=None, nrandom=None, tagp="", validate=True):
    exe = exe or build(run)
    traces = []
    cfgs = cfgs or (CFGS_THOROUGH if run.thorough() else CFGS_QUICK)
    if for_c03:
        cfgs = [c for c in cfgs if c[0].endswith("i")]          # C03 quantifies over interrupt handlers (irq discipline)
    for (name, mp, ip) in cfgs:
        dot = run.path("%sfirq-%s.dot" % (tagp, name))
        res = require_ok(run, tlc(run, "FibreIrq_mc", "FibreIrq_%s.cfg" % name, dump=dot, tag=tagp + "firq-" + name,
                                  constants_note={"main": MAIN[mp], "isr": ISRS[ip], "discipline": "irq" if name.endswith("i") else "threads"}), name)
        if res["violated"]:
            raise Infra("FibreIrq specification violates %s in %s" % (res["violated"], name))
        account_mc(run, res, ["Drain", "RDec", "RWrite", "ROr"] + (["SlowTest"] if name in NOSLEEPER else ["Wake"]))
        inits, edges = parse_dot(dot)
        os.unlink(dot)
        paths, total = edge_cover(inits, edges)
        run.extra.setdefault("graph_edges", {})[tagp + name] = total
        rolls = [(0, 0), (259, 517), (1, 7), (514, 263)][len(traces) % 4]
        script = labels_to_script(paths, reset_line=reset_line(mp, ip, 0 if name in NOSLEEPER else 1, rolls, 1 if name in SRUN else 0), conv=conv)
        tr = run.path("%sfirq-cover-%s.ndjson" % (tagp, name))
        exec_script(run, exe, [], script, tr, "irq-edge-cover-" + name)
        traces.append(tr)
    allp = run.path(tagp + "firq-cover-all.ndjson")
    with open(allp, "wb") as out:
        for t in traces:
            with open(t, "rb") as f:
                shutil.copyfileobj(f, out)
            os.unlink(t)
    if validate:
        payload_handover(run, "irq-edge-cover-handover", allp)
        check_trace(run, "irq-edge-cover", "TraceFibreIrq", "TraceFibreIrq.cfg", allp, loose=LOOSE)
    if not run.samples:
        sample_trace(run, allp, 8)
    n = nrandom or (3000 if run.thorough() else 400)
    gen = "Gen %d %d 1\n" % (run.seed * 10 + 1, n) + ("" if for_c03 else "Gen %d %d 0\n" % (run.seed * 10 + 2, n))
    tr = exec_script(run, exe, [], gen, run.path(tagp + "firq-random.ndjson"), "irq-random-schedules")
    if validate:
        payload_handover(run, "irq-random-handover", tr)
        check_trace(run, "irq-random-schedules", "TraceFibreIrq", "TraceFibreIrq.cfg", tr, loose=LOOSE)
    # the atomic run queue full (and refusing) between two passes of a main loop that has nothing else to look at
    nf = 600 if run.thorough() else 80
    trf = exec_script(run, exe, [], "Full %d %d\n" % (run.seed * 10 + 3, nf), run.path(tagp + "firq-full.ndjson"), "irq-full-queue")
    if validate:
        payload_handover(run, "irq-full-queue-handover", trf)
        check_trace(run, "irq-full-queue", "TraceFibreIrq", "TraceFibreIrq.cfg", trf, loose=LOOSE)
    return [allp, tr, trf]


def payload_handover(run, what, trace):
    """The result-level second opinion forgives an implementation for touching the queues' words in another order; what it
    cannot see is a slot read after it was given back (or written before it was owned) when no recorded schedule happens to
    put the other party's access in between - the wake-up is then lost only in schedules that were not run.  Such an access is
    a hand-over without happens-before, and that is checked on every recorded execution (the C07 machinery, TraceHB.tla):
    a request or event that can be overwritten while it is being read IS a lost wake-up."""
    check_trace(run, what, "TraceHB", "TraceHB.cfg", trace)


def run_hb(run, hb_check, weaken_sites):
    """C07: happens-before over the fibre traces"""
    light = not run.thorough()
    exe = build(run, name="irq_drv_hb")
    trs = run_irq(run, exe=exe, cfgs=[CFGS_QUICK[0], CFGS_QUICK[3], CFGS_QUICK[7]] if light else None, nrandom=100 if light else None, tagp="hb-", validate=True)
    for i, t in enumerate(trs):
        hb_check(run, "hb-fibre-%d" % i, t)
    weaken_sites(run, "fibre", trs[0], max_lines=2500)


def liveness(run):
    """FairSpec (weak fairness on the main loop and on started handlers, main loop running for ever):
    accepted wake-up ~> dispatch, completed send ~> seen; and the violation when the fast path ignores the atomic queue"""
    for c in (["live_a", "live_f"] if not run.thorough() else ["live_a", "live_at", "live_f", "live_d"]):
        res = require_ok(run, tlc(run, "FibreIrq_mc", "FibreIrq_%s.cfg" % c, tag=c, coverage=False, timeout=1500), c)
        if res["violated"]:
            raise Infra("FibreIrq liveness configuration %s violates %s" % (c, res["violated"]))
        account_mc(run, res)
    res = tlc(run, "FibreIrq_mc", "FibreIrq_live_f_broken.cfg", tag="live-broken", coverage=False)
    run.tlc_runs[-1]["expected_violation"] = "temporal"
    if res["violated"] != "temporal":
        raise Infra("vacuity: a fast path that ignores the atomic queue did not violate AcceptedLeadsToDispatch (%s)" % res["violated"])
    run.notes.append("vacuity: FibreIrq_live_f_broken.cfg violates the liveness properties, as it must")


def run(run):
    liveness(run)
    run_irq(run)
