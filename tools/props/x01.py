"""X01 (growth, not a listed property) - ratelimit_check in util.c (spec/Ratelimit.tla, harness/ratelimit_drv.c)"""
from vlib import *  # noqa

LEVEL = "model_checking"
RULE = ("Growth module: TLC checks Ratelimit.tla (abstract remaining-time semantics vs. the code's cyclic test on a 2^6 ring for "
        "every placement); the real ratelimit_check is driven with a controllable clock through random call sequences at "
        "placements straddling 0x7fffffff->0x80000000 and 0xffffffff->0, results validated by TLC against TraceRatelimit.tla.")
ASSUMPTIONS = ["scope: time between calls plus the window stays below 2^31 microseconds; window <= 2147 s"]


def run(run):
    res = require_ok(run, tlc(run, "Ratelimit", "Ratelimit_mc.cfg", tag="mc"), "Ratelimit MC")
    if res["violated"]:
        raise Infra("Ratelimit specification violates %s" % res["violated"])
    account_mc(run, res, ["Check"])
    exe = build_driver(run, "ratelimit_drv", "ratelimit_drv.c", ["librfn/util.c"])
    tr = exec_script(run, exe, [], "Random %d %d 40\n" % (run.seed, 6000 if run.thorough() else 600), run.path("rl.ndjson"), "random")
    check_trace(run, "random", "TraceRatelimit", "TraceRatelimit.cfg", tr)
    sample_trace(run, tr, 8)
