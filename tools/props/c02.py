"""C02 - timeouts never early, in due order, wrap-safe (spec/Fibre.tla + FibreRing.tla, harness/fibre_drv.c at several
placements of the 32-bit time base)"""
from vlib import *  # noqa
from props import c01

LEVEL = "model_checking"
RULE = c01.RULE + (" For C02 every replayed behaviour and every random history is executed at several placements of the "
                   "time base in the 32-bit ring (base 0; straddling 0xffffffff->0 with scale 2^20; straddling "
                   "0x7fffffff->0x80000000 with scale 2^27; ...) and must produce the identical event sequence.")
ASSUMPTIONS = c01.ASSUMPTIONS + ["scope: pending due times within 2^31 ticks after now (model horizon x scale < 2^31)"]


def run(run):
    exe = c01.build(run)
    ring_check(run)
    c01.run_seq(run, exe, c01.PLACEMENTS if run.thorough() else c01.PLACEMENTS[:3])


def ring_check(run):
    """design level: cyclic comparison agrees with natural order inside the scope for every base, and must disagree outside"""
    res = require_ok(run, tlc(run, "FibreRing", "FibreRing_in.cfg", tag="ring-in"), "FibreRing in scope")
    if res["violated"]:
        raise Infra("FibreRing: cyclic comparison disagrees with natural order inside the scope (%s)" % res["violated"])
    account_mc(run, res)
    res = tlc(run, "FibreRing", "FibreRing_out.cfg", tag="ring-out", coverage=False)
    if res["violated"] != "CmpAgree":
        raise Infra("vacuity: FibreRing outside the scope did not violate CmpAgree (%s)" % res["violated"])
    run.tlc_runs[-1]["expected_violation"] = "CmpAgree"
