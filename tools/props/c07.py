"""C07 - data-race freedom under the C11 model (spec/C11HB.tla + TraceHB.tla over the vrt traces of C04-C06)"""
import json
from vlib import *  # noqa
from props import c04, c05

LEVEL = "model_checking"
RULE = ("Every trace recorded for C04/C05/C06 (edge covers of the TLC state graphs and seeded random schedules, real "
        "code under vrt) is validated by TLC against TraceHB/C11HB: happens-before is computed from the memory-order "
        "argument of every atomic operation actually executed (compiler instrumentation), every plain access to shared "
        "payload / single-owner bookkeeping must be ordered. Vacuity: each atomic site is weakened to relaxed in the "
        "recorded trace and TLC must then report a race (or the site is reported as not carrying a hand-over). The "
        "same is repeated with the __STDC_NO_ATOMICS__ fallback of atomic.h (whose traces are also validated against the queue specifications: a fallback macro that returns the wrong value is a defect of that mechanism). A case = one execution; distinct by hash.")
RULE += (" Design level: MessageQHB.tla / RingBufHB.tla compose the queue specifications with C11HB and TLC checks NoRace "
         "in every interleaving of the bounded configurations under the declared (seq_cst) orders, and its violation with a "
         "hand-over site relaxed.")
ASSUMPTIONS = ["executions are sequentially consistent interleavings; reads-from = latest store in the executed order",
               "seq_cst treated as acq_rel, consume as acquire (conservative for race detection on SC executions)",
               "long real-thread runs under ThreadSanitizer (named in the property's quantifier) are NOT part of this check"]


def hb_check(run, what, trace):
    check_trace(run, what, "TraceHB", "TraceHB.cfg", trace)


def weaken_sites(run, what, trace, max_lines=4000):
    """vacuity: rewrite mo -> relaxed at one atomic site at a time; TLC must reject (race) or the site is not needed"""
    lines = []
    with open(trace) as f:
        for i, line in enumerate(f):
            if i >= max_lines and line.startswith('{"e":"Reset"'):
                break
            lines.append(json.loads(line))
    sites = set()
    for ev in lines:
        for e in ev.get("hb", []):
            if e["k"] == "A":
                sites.add((e["op"], e["v"]))
    out = {}
    if not run.thorough():
        sites = {("*", "*")}          # quick tier: one run with every atomic site relaxed at once (per-site detail: thorough tier)
    for site in sorted(sites):
        p = run.path("weak-%s-%s-%s.ndjson" % (what, site[0], site[1]))
        with open(p, "w") as f:
            for ev in lines:
                ev2 = ev
                if "hb" in ev:
                    ev2 = dict(ev)
                    ev2["hb"] = [dict(e, mo=0) if (e["k"] == "A" and ((e["op"], e["v"]) == site or site[0] == "*")) else e for e in ev["hb"]]
                f.write(json.dumps(ev2, separators=(",", ":")) + "\n")
        ok, matched, res = validate_trace(run, "TraceHB", "TraceHB.cfg", p, tag="weak-%s-%s" % site)
        out["%s(%s)" % site] = "needed: relaxing it yields a race (NoRace violated)" if (not ok and res.get("violated") == "NoRace") \
            else ("not needed for payload hand-over" if ok else "rejected: %s" % res.get("violated"))
        os.unlink(p)
    run.extra.setdefault("weakening", {})[what] = out
    if not any(v.startswith("needed") for v in out.values()):
        if max_lines < 200000:
            # the prefix may hold no completed hand-over (short executions, or schedules written for a different step
            # structure when the implementation diverges from the step-level model): look further into the trace
            return weaken_sites(run, what, trace, max_lines=max_lines * 10)
        if run.extra.get("model_divergence"):
            run.notes.append("vacuity probe for %s found no hand-over to break in the replayed schedules (they were written for the "
                             "step-level model, from which this implementation diverges)" % what)
            return out
        raise Infra("vacuity: no weakened site of %s produced a race - the HB model is not exercised" % what)
    return out


def design_level(run):
    """NoRace over ALL interleavings of the bounded MessageQ / RingBuf configurations under the declared memory orders
    (MessageQHB.tla, RingBufHB.tla), and its violation when a site that carries a hand-over is relaxed"""
    light = not run.thorough()
    good = [("MessageQHB", c) for c in (["t212", "i322"] if light else ["t212", "t222", "t321", "i322"])] + \
           [("RingBufHB", c) for c in (["a", "d"] if light else ["a", "b", "d", "e"])]
    for mod, c in good:
        res = require_ok(run, tlc(run, mod, "%s_%s.cfg" % (mod, c), tag="hbmc-%s-%s" % (mod, c), coverage=False), "%s %s" % (mod, c))
        if res["violated"]:
            raise Infra("%s_%s: design-level %s violated under the declared memory orders" % (mod, c, res["violated"]))
        account_mc(run, res)
    weak = [("MessageQHB", c) for c in (["w_or", "w_add"] if light else ["w_or", "w_and", "w_add", "w_sub"])] + \
           [("RingBufHB", c) for c in (["w_pub", "w_ldr"] if light else ["w_pub", "w_ldw", "w_rpub", "w_ldr"])]
    out = {}
    for mod, c in weak:
        res = tlc(run, mod, "%s_%s.cfg" % (mod, c), tag="hbmc-%s-%s" % (mod, c), coverage=False)
        run.tlc_runs[-1]["expected_violation"] = "NoRace"
        if res["violated"] != "NoRace":
            raise Infra("vacuity: %s_%s (a hand-over site relaxed) did not violate NoRace (%s)" % (mod, c, res["violated"]))
        out["%s_%s" % (mod, c)] = "NoRace violated after %d steps, as it must" % len(res["cex"])
    if not light:
        res = require_ok(run, tlc(run, "MessageQHB", "MessageQHB_w_cas.cfg", tag="hbmc-w_cas", coverage=False), "w_cas")
        out["MessageQHB_w_cas"] = "sendp CAS/load relaxed: NoRace still holds (the index carries no hand-over)" if not res["violated"] else res["violated"]
    run.extra["design_level_weakening"] = out


def run(run):
    design_level(run)
    light = not run.thorough()
    for variant, flags in (("c11", ()), ("noatomics", ("-D__STDC_NO_ATOMICS__",))):
        exe = build_vrt(run, "mq_drv_" + variant, "mq_drv.c", ["librfn/messageq.c"], extra_flags=flags)
        cfgs = [("t212", (1, 2, 2, 3)), ("i222", (2, 2, 2, 4))] if light else None
        if light and variant != "c11":
            cfgs = cfgs[:1]
        trs = c04.run_mq(run, exe, cfgs=cfgs, nrandom=(200 if variant == "c11" else 60) if light else None, tagp=variant + "-", validate=True)
        for i, t in enumerate(trs):
            hb_check(run, "hb-mq-%s-%d" % (variant, i), t)
        if variant == "c11":
            weaken_sites(run, "messageq", trs[0])
        exe = build_vrt(run, "rb_drv_" + variant, "rb_drv.c", ["librfn/ringbuf.c"], extra_flags=flags)
        trs = c05.run_rb(run, exe, cfgs=(c05.CFGS[:1] if variant != "c11" else c05.CFGS[:4]) if light else None,
                         nrandom=(300 if variant == "c11" else 80) if light else None, tagp=variant + "-", validate=True)
        for i, t in enumerate(trs):
            hb_check(run, "hb-rb-%s-%d" % (variant, i), t)
        if variant == "c11":
            weaken_sites(run, "ringbuf", trs[0])
            sample_trace(run, trs[0], 6)
    try:
        from props import c06
    except ImportError:
        c06 = None
    if c06 is not None:
        c06.run_hb(run, hb_check, weaken_sites)
