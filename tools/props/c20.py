"""C20 - memory log holds the most recent 256 messages (spec/Mlog.tla, harness/mlog_drv.c)"""
from vlib import *  # noqa

LEVEL = "model_checking"
RULE = ("TLC explores Mlog.tla exhaustively with Cap=4, WrapAt=11 (abstract window vs. head/slot image, Refines on every "
        "state, across the fold); the real mlog.c (Cap 256, fold at 0x7fffffff) is driven through every message count "
        "0..773 with reads of k = -2..257 and dumps, interleaved mlog_nice / mlog_clear, and - via the LIBRFN_VERIF hook "
        "mlog_verif_set_count - from 0x7fffffff-600 upward across two folds, plus seeded random histories; every read/dump "
        "result is validated by TLC against TraceMlog.tla. A case = one event-checked history segment; distinct by hash.")
ASSUMPTIONS = ["the hook only moves the counter; the model treats the window as unknown until 256 messages have been logged after it"]


def run(run):
    res = require_ok(run, tlc(run, "Mlog", "Mlog_mc.cfg", tag="mc", constants_note={"Cap": 4, "WrapAt": 11}), "Mlog MC")
    if res["violated"]:
        raise Infra("Mlog specification violates %s" % res["violated"])
    account_mc(run, res, ["Log", "Nice", "Clear", "Dump", "Read"])
    exe = build_driver(run, "mlog_drv", "mlog_drv.c", ["librfn/mlog.c", "librfn/string.c", "librfn/util.c"])
    full = 1 if run.thorough() else 0
    sc = "Sys 773 %d\nFold %d\nNiceFar\nKinds\nShape\nNestedNice\nRandom %d %d\nRandom %d %d\n" % (full, full, run.seed, 20000 if full else 4000, run.seed + 1, 20000 if full else 3000)
    # more than 2^31 messages that nobody reads: a second, uninstrumented -O2 build of the same driver (2^31 calls under ASan
    # take a minute and more), its trace validated against the same specification
    fast = build_driver(run, "mlog_drv_fast", "mlog_drv.c", ["librfn/mlog.c", "librfn/string.c", "librfn/util.c"],
                        cc=["gcc", "-std=gnu11", "-O2", "-g", "-DLIBRFN_VERIF"])
    tru = exec_script(run, fast, [], "Shape\nUnread 0\n" + ("Unread 1\n" if full else "") + "Sweep %d\n" % (4400 if full else 270), run.path("unread.ndjson"), "unread", timeout=900)
    check_trace(run, "unread", "TraceMlog", "TraceMlog.cfg", tru, timeout=900)
    tr = exec_script(run, exe, [], sc, run.path("mlog.ndjson"), "histories", timeout=600)
    check_trace(run, "histories", "TraceMlog", "TraceMlog.cfg", tr, timeout=1500)
    count_event_cases(run, tr)
    sample_trace(run, tr, 10)
    run.traces = max(run.traces, 4)
