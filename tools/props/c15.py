"""C15 - console line editing, tokenising, dispatch (spec/Console.tla, harness/console_drv.c)"""
from vlib import *  # noqa

LEVEL = "model_checking"
RULE = ("TLC explores Console.tla (line editor, in-place tokeniser transcribed statement by statement, sorted command table, "
        "dispatch) for all streams up to 4/6 characters over {a,b,space,tab,',\",backspace,Ctrl-C,newline} interleaved with "
        "registrations; a (budgeted) edge cover of the state graph is replayed on console.c through console_process and "
        "through console_putchar + the console fibre; the driver then feeds every stream of 4 (5) characters over the same "
        "alphabet, random long lines around the 79-character limit through all three delivery paths (process, putchar, "
        "console_eval), registration orders up to and beyond the table capacity, and pairs of lines typed alternately into two "
        "consoles whose commands yield (each must behave as its own instance); commands named ...b use the scratch buffer for "
        "their own state after reading their arguments; the argc/argv seen by capturing commands, every entry into a command "
        "function (first call and resumptions), "
        "commands, the edited line and registration results are validated by TLC against TraceConsole.tla. The console "
        "structure is heap-allocated so that a write outside it is an ASan report. A case = one execution; distinct by hash.")
ASSUMPTIONS = ["named deviation TokenizeKeepsLeadingBlank: a line starting with a blank names no command (modelled, no alarm)",
               "the environment runs the scheduler before more than 15 characters are pending (ring capacity)"]
SRCS = ["librfn/console.c", "librfn/ringbuf.c", "librfn/fibre.c", "librfn/list.c", "librfn/messageq.c", "librfn/util.c"]
ACTIONS = ["Char", "Register"]


def conv(name, args):
    if name == "Char":
        return "Char %d %d" % (args[0], conv.path)
    return "Reg %d %s" % (len(args[0]), " ".join(map(str, args[0])))


def run(run):
    cfg, budget = ("Console_t.cfg", 600000) if run.thorough() else ("Console_q.cfg", 90000)
    dot = run.path("console.dot")
    res = require_ok(run, tlc(run, "Console_mc", cfg, dump=dot, tag="mc"), "Console MC")
    if res["violated"]:
        raise Infra("Console specification violates %s" % res["violated"])
    account_mc(run, res, ACTIONS)
    inits, edges = parse_dot(dot)
    os.unlink(dot)
    paths, total = edge_cover(inits, edges, budget=budget, seed=run.seed)
    run.extra["graph_edges"] = {"edges": total, "covered": edge_cover.last_covered}
    if edge_cover.last_covered < total:
        run.exhaustive = False
    exe = build_driver(run, "console_drv", "console_drv.c", SRCS)
    script = ""
    for path in (0, 1):
        conv.path = path
        script += labels_to_script(paths[path::2], reset_line="Reset", conv=conv)
    walks = sim_walks(run, "Console_mc", "Console_sim.cfg", 2000 if run.thorough() else 400, 40)
    conv.path = 0
    script += labels_to_script(walks[0::2], reset_line="Reset", conv=conv)
    conv.path = 1
    script += labels_to_script(walks[1::2], reset_line="Reset", conv=conv)
    tr = exec_script(run, exe, [], script, run.path("cover.ndjson"), "edge-cover", timeout=600)
    check_trace(run, "edge-cover", "TraceConsole", "TraceConsole.cfg", tr, timeout=1500)
    sample_trace(run, tr, 10)
    ml, nr = (5, 6000) if run.thorough() else (4, 700)
    sc = "Streams %d 0\nStreams %d 1\nRegOrders %d\nRegCase %d\nEvalEdge\nLongNames\nFloods\nRandom %d %d\nTwos %d %d\n" % (ml, ml - 1, run.seed, run.seed + 3, run.seed + 1, nr, run.seed + 2, nr // 2)
    tr2 = exec_script(run, exe, [], sc, run.path("streams.ndjson"), "streams+random", timeout=900)
    check_trace(run, "streams+random", "TraceConsole", "TraceConsole.cfg", tr2, timeout=1700)
