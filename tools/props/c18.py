"""C18 - hex dump parses back; parser safe on any text (spec/Hex.tla, harness/hex_drv.c)"""
from vlib import *  # noqa

LEVEL = "model_checking"
RULE = ("TLC checks Hex.tla (Dump and the hex_get_byte machine transcribed case by case, with the highest index read) on "
        "every string over {0,9,a,F,x,:,space,newline,g} up to length 4 (5 in thorough) and on structured byte arrays of "
        "length 0..34 (RoundTrip, DumpShape, ParserSafe); the driver runs the real hex.c on the same string domain (one "
        "longer in each tier) in exactly sized heap buffers under ASan, on the dump of the same arrays and all 256 single "
        "bytes, and on random long strings; every returned value and every *p is validated by TLC against TraceHex.tla. "
        "A case = one string or array; distinct by hash.")
ASSUMPTIONS = ["reads past the NUL are observed by ASan on exactly sized buffers", "isspace/isxdigit in the C locale"]


def run(run):
    cfg, ml = ("Hex_t.cfg", 6) if run.thorough() else ("Hex_q.cfg", 5)
    res = require_ok(run, tlc(run, "Hex_mc", cfg, tag="mc"), "Hex MC")
    if res["violated"]:
        raise Infra("Hex specification violates %s" % res["violated"])
    account_mc(run, res)
    exe = build_driver(run, "hex_drv", "hex_drv.c", ["librfn/hex.c", "librfn/util.c"])
    tr = exec_script(run, exe, [], "Dumps 40\nStrings %d\nRandom %d %d\nTwo %d %d\nLong\nManyLines 1000000\nHugeText 0\n%s" % (
                         ml, run.seed, 20000 if run.thorough() else 3000, run.seed, 2000 if run.thorough() else 300,
                         "HugeText 1\nBigDumps 0 60000 1\nBigDumps 60001 70000 13\n" if run.thorough() else "BigDumps 41 16500 1\nBigDumps 16501 70000 997\nBigDumps 32700 32800 1\nBigDumps 65500 65600 1\n"),
                     run.path("hex.ndjson"), "cases", timeout=1800 if run.thorough() else 600)
    n = count_lines(tr)
    check_trace(run, "cases", "TraceHex", "TraceHex.cfg", tr, timeout=1500)
    hs = set()
    with open(tr, "rb") as f:
        for line in f:
            hs.add(hashlib.sha1(line).digest()[:10])
    run.hashes |= hs
    run.evaluations += n
    run.traces += n - 1
    sample_trace(run, tr, 4)
