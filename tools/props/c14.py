"""C14 - decoding untrusted WAV bytes is memory-safe and reports length faithfully (spec/WavHeader.tla, harness/wav_drv.c)"""
from vlib import *  # noqa
from props import c13

LEVEL = "model_checking"
RULE = ("TLC checks NoTruncatedSuccess and the Parse/contract operators on the bounded domain; the driver decodes, in "
        "exactly sized heap buffers under ASan, every truncation point of six valid header shapes, every header byte "
        "corrupted three ways, size fields set to 20 boundary values (0..0xffffffff) combined with 6 cb_size values, and "
        "seeded random mutations/byte strings; validate, get_format and (in a forked child) tostring are run on whatever "
        "structure results. Each case is one event validated by TLC against TraceWav.tla (DecodeRetOK: negative error, "
        "> sz when incomplete, or exact length >= 44). A case = one event; distinct by hash.")
ASSUMPTIONS = ["an over-read is observed by ASan on the exactly sized buffer (execution, not proof)",
               "a signal in rf_wavheader_tostring is observed in a forked child"]


def run(run):
    exe = build_driver(run, "wav_drv", "wav_drv.c", c13.SRCS)
    c13.mc(run)
    tr = c13.events(run, exe, "Decode %d %d\n" % (run.seed, 60000 if run.thorough() else 4000), "decode-cases", cfg="TraceWav14.cfg")
    sample_trace(run, tr, 2)
