"""X03 (growth, not a listed property) - rgb.c: cross-fade and gamma look-up (spec/Rgb.tla, harness/rgb_drv.c)"""
from vlib import *  # noqa

LEVEL = "model_checking"
RULE = ("Growth module: TLC checks Rgb.tla on a small colour range (every from / goal / step count: a fade always ends, on the "
        "goal; an upward fade stays in range) and shows that a downward fade is NOT gradual (Rgb_down.cfg must violate "
        "DownwardGradual - the unsigned step makes the first call jump to the goal; recorded as a behaviour outside the listed "
        "properties); the real rgb_fader_init / rgb_fade / rgb_correct are driven with structured and random colours and "
        "tables, every call's value and return validated by TLC against TraceRgb.tla.")
ASSUMPTIONS = ["colours below 2^24, nsteps >= 1 (nsteps = 0 divides by zero: outside the API's contract)"]


def run(run):
    res = require_ok(run, tlc(run, "Rgb", "Rgb_mc.cfg", tag="mc", constants_note={"Max": 24, "MaxSteps": 6}), "Rgb MC")
    if res["violated"]:
        raise Infra("Rgb specification violates %s" % res["violated"])
    account_mc(run, res, ["Fade"])
    res2 = tlc(run, "Rgb", "Rgb_down.cfg", tag="down", coverage=False)
    if res2["violated"] != "DownwardGradual":
        raise Infra("Rgb_down.cfg should violate DownwardGradual (got %s)" % res2["violated"])
    run.tlc_runs[-1]["expected_violation"] = "DownwardGradual"
    run.notes.append("downward fades are not gradual (counterexample of %d steps): behaviour outside the listed properties" % len(res2["cex"]))
    exe = build_driver(run, "rgb_drv", "rgb_drv.c", ["librfn/rgb.c"])
    tr = exec_script(run, exe, [], "Random %d %d\n" % (run.seed, 3000 if run.thorough() else 400), run.path("rgb.ndjson"), "cases")
    check_trace(run, "cases", "TraceRgb", "TraceRgb.cfg", tr)
    count_event_cases(run, tr)
    sample_trace(run, tr, 3)
