"""C04 - message queue safe for many senders, one receiver (spec/MessageQ.tla, harness/mq_drv.c + vrt.c)"""
from vlib import *  # noqa

LEVEL = "model_checking"
RULE = ("TLC explores MessageQ.tla (one action per atomic operation) exhaustively for each bounded configuration under "
        "free preemption and under run-to-completion nesting; every edge of each state graph is executed as a schedule "
        "on the real messageq.c under the vrt interleaving runtime and validated by TLC against TraceMessageQ.tla; plus "
        "seeded random schedules over larger geometries. A case = one execution (one schedule from Reset to its end); "
        "distinct by event-text hash; non-trivial = at least one step.")
ASSUMPTIONS = ["sequentially consistent interleavings at atomic-operation granularity (weak-memory effects are C07's subject)",
               "plain code between two atomic operations of one context is one step (justified by C07's race freedom)",
               "compare-exchange does not fail spuriously (vrt implements it with a strong CAS)"]
LOOSE = ("TraceMessageQLoose", "TraceMessageQLoose.cfg")
ACTIONS = ["ClaimDec", "ClaimUndo", "ClaimLoad", "ClaimCas", "SendOr", "EmptyLoad", "RecvAnd", "RelAdd"]

CFGS_QUICK = [("t212", (1, 2, 2, 3)), ("i212", (1, 2, 2, 3)), ("t222", (2, 2, 2, 4)), ("i222", (2, 2, 2, 4)),
              ("t321", (2, 3, 1, 3)), ("i321", (2, 3, 1, 3)), ("i322", (2, 3, 2, 4))]
CFGS_THOROUGH = CFGS_QUICK + [("t322", (2, 3, 2, 4)), ("t431", (3, 4, 1, 4))]


def conv(name, args):
    if name in ("EmptyLoad", "RecvAnd", "RelAdd"):
        return "S 0"
    return "S %d" % args[0]


def run_mq(run, exe, trace_cfg="TraceMessageQ.cfg", trace_mod="TraceMessageQ", cfgs=None, nrandom=None, tagp="", validate=True):
    # vacuity: with the counter read as unsigned the design must violate ExclusiveOwnership
    if validate:
        res = tlc(run, "MessageQ", "MessageQ_unsigned.cfg", tag=tagp + "unsigned", coverage=False)
        if res["violated"] != "ExclusiveOwnership":
            raise Infra("vacuity check failed: unsigned counter did not violate ExclusiveOwnership (%s)" % res["violated"])
        run.notes.append("vacuity: MessageQ_unsigned.cfg violates ExclusiveOwnership after %d steps, as it must" % len(res["cex"]))
        run.tlc_runs[-1]["expected_violation"] = "ExclusiveOwnership"
    traces = []
    for name, geo in (cfgs or (CFGS_THOROUGH if run.thorough() else CFGS_QUICK)):
        dot = run.path("mq-%s.dot" % name)
        res = require_ok(run, tlc(run, "MessageQ", "MessageQ_%s.cfg" % name, dump=dot, tag=tagp + name,
                                  constants_note=dict(zip(("Depth", "NSenders", "MsgsPer", "RecvTries"), geo))), name)
        if res["violated"]:
            raise Infra("MessageQ specification violates %s in %s" % (res["violated"], name))
        account_mc(run, res, ACTIONS)
        inits, edges = parse_dot(dot)
        os.unlink(dot)
        paths, total = edge_cover(inits, edges)
        run.extra.setdefault("graph_edges", {})[name] = total
        script = labels_to_script(paths, reset_line="Reset %d %d %d %d" % geo, conv=conv)
        tr = exec_script(run, exe, [], script, run.path("%scover-%s.ndjson" % (tagp, name)), "edge-cover-" + name)
        if validate:
            check_trace(run, "edge-cover-" + name, trace_mod, trace_cfg, tr, loose=LOOSE if trace_mod == "TraceMessageQ" else None)
        traces.append(tr)
    sample_trace(run, traces[0], 10)
    n = nrandom or (4000 if run.thorough() else 600)
    gen = "".join("Gen %d %d %d %d %d %d\n" % (run.seed * 100 + i, n, d, s, m, irq)
                  for i, (d, s, m, irq) in enumerate([(3, 4, 3, 0), (3, 4, 3, 1), (8, 6, 2, 0), (32, 6, 8, 0), (2, 6, 2, 1)]))
    gen += "Cycle 3 700\nCycle 7 300\n"                      # histories long enough to wrap a narrow ticket / counter
    gen += "Starve 16 12\nStarve 32 20\nStarve 13 9\n"      # a claim that loses the sendp race many times in a row must still succeed
    tr = exec_script(run, exe, [], gen, run.path(tagp + "random.ndjson"), "random-schedules")
    if validate:
        check_trace(run, "random-schedules", trace_mod, trace_cfg, tr, loose=LOOSE if trace_mod == "TraceMessageQ" else None)
    traces.append(tr)
    return traces


def run(run):
    exe = build_vrt(run, "mq_drv", "mq_drv.c", ["librfn/messageq.c"])
    run_mq(run, exe)
    # release-style build (NDEBUG, unsigned char, -O2): random schedules again
    exe2 = build_vrt(run, "mq_drv_alt", "mq_drv.c", ["librfn/messageq.c"], extra_flags=ALT_FLAGS)
    n = 1500 if run.thorough() else 300
    gen = "".join("Gen %d %d %d %d %d %d\n" % (run.seed * 100 + 50 + i, n, d, s, m, irq)
                  for i, (d, s, m, irq) in enumerate([(2, 4, 3, 0), (3, 4, 3, 1), (8, 6, 2, 0), (1, 3, 3, 0)]))
    gen += "Cycle 3 300\nStarve 16 12\n"
    tr = exec_script(run, exe2, [], gen, run.path("alt-random.ndjson"), "release-build-schedules")
    check_trace(run, "release-build-schedules", "TraceMessageQ", "TraceMessageQ.cfg", tr, loose=LOOSE)
