"""C03 - returned wake-up time never oversleeps: sequential part on spec/Fibre.tla (ret compared at every pass),
interrupt part on spec/FibreIrq.tla via props/c06 (when built)"""
from vlib import *  # noqa
from props import c01

LEVEL = "model_checking"
RULE = c01.RULE + (" For C03 the value returned by every fibre_scheduler_next is compared with the specification's "
                   "NextWakeup (now / earliest due / unbounded) and TLC checks NoOversleep on every state; the interrupt "
                   "placements inside fibre_scheduler_next are explored on FibreIrq.tla (irq discipline). Consumer side: "
                   "MainLoop.tla (one action per iteration of fibre_scheduler_main_loop, NoOversleep) and the real "
                   "fibre_posix.c loop run against a scripted scheduler and a mock clock, validated by TraceMainLoop.tla.")
ASSUMPTIONS = c01.ASSUMPTIONS


def run_mainloop(run):
    """consumer side: the POSIX main loop's own arithmetic (MainLoop.tla), bound to fibre_posix.c by a scripted scheduler"""
    res = require_ok(run, tlc(run, "MainLoop", "MainLoop_mc.cfg", tag="mainloop-mc", constants_note={"Cap": 6, "MaxD": 9, "MaxW": 4}), "MainLoop MC")
    if res["violated"]:
        raise Infra("MainLoop specification violates %s" % res["violated"])
    account_mc(run, res, ["Iter"])
    pre = tlc(run, "MainLoop", "MainLoop_prefix.cfg", tag="mainloop-prefix", coverage=False)
    if pre["violated"] != "NoOversleep":
        raise Infra("vacuity check failed: the pre-fix cap rule should violate NoOversleep (got %s)" % pre["violated"])
    run.tlc_runs[-1]["expected_violation"] = "NoOversleep"
    rs = tlc(run, "MainLoop", "MainLoop_resume.cfg", tag="mainloop-resume", coverage=False)
    if rs["violated"] != "WakeNotSleptOn":
        raise Infra("vacuity check failed: a loop that resumes an interrupted sleep should violate WakeNotSleptOn (got %s)" % rs["violated"])
    run.tlc_runs[-1]["expected_violation"] = "WakeNotSleptOn"
    # (no ASan here: the driver interposes clock_gettime, which the sanitizer runtime uses itself)
    exe = build_driver(run, "mainloop_drv", "mainloop_drv.c", ["librfn/posix/fibre_posix.c", "librfn/posix/time_posix.c", "librfn/util.c"],
                       cc=["gcc", "-std=gnu11", "-O1", "-g", "-DLIBRFN_VERIF"])
    tr = exec_script(run, exe, [], "Run %d %d\n" % (run.seed, 20000 if run.thorough() else 2000), run.path("mainloop.ndjson"), "main-loop")
    ok, matched, res = validate_trace(run, "TraceMainLoop", "TraceMainLoop.cfg", tr)
    if not ok:
        # the loop does not sleep exactly min(interval, 50 ms): what the property demands is only that it never oversleeps
        check_trace(run, "main-loop", "TraceMainLoop", "TraceMainLoop_prop.cfg", tr)
        run.notes.append("main loop: sleep arithmetic differs from MainLoop.tla's SleepArg (event %d); NoOversleep holds on every iteration" % (matched + 1))
        run.extra["model_divergence"] = True
    count_event_cases(run, tr)


def run(run):
    run_mainloop(run)
    exe = c01.build(run)
    c01.run_seq(run, exe, c01.PLACEMENTS[:3])
    try:
        from props import c06
    except ImportError:
        c06 = None
    if c06 is not None:
        c06.run_irq(run, for_c03=True)
