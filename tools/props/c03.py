"""C03 - returned wake-up time never oversleeps: sequential part on spec/Fibre.tla (ret compared at every pass),
interrupt part on spec/FibreIrq.tla via props/c06 (when built)"""
from vlib import *  # noqa
from props import c01

LEVEL = "model_checking"
RULE = c01.RULE + (" For C03 the value returned by every fibre_scheduler_next is compared with the specification's "
                   "NextWakeup (now / earliest due / unbounded) and TLC checks NoOversleep on every state; the interrupt "
                   "placements inside fibre_scheduler_next are explored on FibreIrq.tla (irq discipline).")
ASSUMPTIONS = c01.ASSUMPTIONS


def run(run):
    exe = c01.build(run)
    c01.run_seq(run, exe, c01.PLACEMENTS[:3])
    try:
        from props import c06
    except ImportError:
        c06 = None
    if c06 is not None:
        c06.run_irq(run, for_c03=True)
