"""X04 (growth, not a listed property) - string.c (spec/RfRfString.tla, harness/string_drv.c)"""
from vlib import *  # noqa

LEVEL = "model_checking"
RULE = ("Growth module: random strings over every byte value run through strtolower / strtoupper (in place and copying), "
        "strdup_join and (x)strdup_printf in exactly sized heap blocks under ASan; every case is one event validated by TLC "
        "against the operators of RfString.tla (C-locale case mapping, bytes >= 128 untouched, source untouched, printf text).")
ASSUMPTIONS = ["C locale"]


def run(run):
    exe = build_driver(run, "string_drv", "string_drv.c", ["librfn/string.c", "librfn/util.c"])
    tr = exec_script(run, exe, [], "Random %d %d\n" % (run.seed, 3000 if run.thorough() else 400), run.path("string.ndjson"), "cases")
    check_trace(run, "cases", "TraceString", "TraceString.cfg", tr)
    count_event_cases(run, tr)
    sample_trace(run, tr, 3)
