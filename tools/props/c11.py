"""C11 - tree iterators: order, restoration, safe free (spec/BinTree.tla, harness/bt_drv.c)"""
from vlib import *  # noqa

LEVEL = "model_checking"
RULE = ("TLC explores BinTree.tla from every binary tree shape with up to 6 (quick) / 8 (thorough) nodes x {in-order, "
        "pre-order, post-order, bintree_free} plus left- and right-leaning list spines, one action per bintree_next call, "
        "checking OrderMatchesRecursive, RestoredAtCompletion, ThreadsWellFormed, NoReadAfterFree, ChildrenFirst; the driver "
        "runs the real bintree.c (compiled directly - it is not in the library build) on the same shapes with individually "
        "malloc'ed nodes under ASan and logs, after every bintree_next / deallocation, the returned node and the complete "
        "link image (temporary threads and tag bits included); TLC validates every event against TraceBinTree.tla; random "
        "and degenerate shapes (chains, zig-zag, complete) up to 300 nodes likewise. A case = one (shape, procedure) run.")
ASSUMPTIONS = ["nodes are at least 2-byte aligned (malloc)", "a read of a deallocated node is observed by ASan (nodes are poisoned and really freed)"]
LOOSE_S = ("TraceBinTreeLoose", "TraceBinTreeLoose_small.cfg")
LOOSE_L = ("TraceBinTreeLoose", "TraceBinTreeLoose.cfg")
ACTIONS = ["StepIn", "StepPre", "StartPost", "StepPost", "StartList", "StepList"]


def run(run):
    cfg, mx = ("BinTree_t.cfg", 8) if run.thorough() else ("BinTree_q.cfg", 6)
    res = require_ok(run, tlc(run, "BinTree", cfg, tag="mc", constants_note={"MaxNodes": mx}, timeout=1500), "BinTree MC")
    if res["violated"]:
        raise Infra("BinTree specification violates %s" % res["violated"])
    account_mc(run, res, ACTIONS)
    exe = build_driver(run, "bt_drv", "bt_drv.c", ["librfn/bintree.c", "librfn/util.c"], libs=["-lpthread"])
    tr = exec_script(run, exe, [], "All %d\n" % (mx + (0 if run.thorough() else 1)), run.path("bt.ndjson"), "all-shapes", timeout=600)
    check_trace(run, "all-shapes", "TraceBinTree", "TraceBinTree_small.cfg", tr, timeout=1700, loose=LOOSE_S)
    sample_trace(run, tr, 8)
    rn, rmax = (40, 300) if run.thorough() else (6, 48)
    tr2 = exec_script(run, exe, [], "Random %d %d %d\nDeep %d\n" % (run.seed, rn, rmax, 20000), run.path("bt-random.ndjson"), "large-shapes", timeout=600)
    check_trace(run, "large-shapes", "TraceBinTree", "TraceBinTree.cfg", tr2, timeout=1700, loose=LOOSE_L)
    # release-style build (NDEBUG, unsigned char, -O2): all shapes up to 5 nodes and a few large ones again
    exe2 = build_driver(run, "bt_drv_alt", "bt_drv.c", ["librfn/bintree.c", "librfn/util.c"], libs=["-lpthread"], extra_flags=ALT_FLAGS)
    tr3 = exec_script(run, exe2, [], "All 5\n", run.path("bt-alt.ndjson"), "release-build shapes", timeout=600)
    check_trace(run, "release-build-shapes", "TraceBinTree", "TraceBinTree_small.cfg", tr3, timeout=1700, loose=LOOSE_S)
    tr4 = exec_script(run, exe2, [], "Random %d %d %d\nDeep 20000\n" % (run.seed + 5, 3, 40), run.path("bt-alt-random.ndjson"), "release-build large", timeout=600)
    check_trace(run, "release-build-large", "TraceBinTree", "TraceBinTree.cfg", tr4, timeout=1700, loose=LOOSE_L)
