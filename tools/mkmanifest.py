#!/usr/bin/env python3
"""Regenerates /verif/MANIFEST.json from the table below (one entry per claimed property)."""
import json
import os

ROOT = os.path.dirname(os.path.dirname(os.path.abspath(__file__)))
props = [json.loads(l) for l in open(os.path.join(ROOT, "properties.jsonl"))]

MC = "model_checking"
CHECKS = {
    "C09": dict(
        engine="tlc+replay+tracecheck", category=MC, design_ref="DESIGN.md section 4/C09",
        technique="TLA+ spec (List.tla) model-checked with TLC; edge cover of the TLC state graph replayed on list.c and "
                  "validated by TLC against TraceList.tla; seeded random histories validated the same way",
        text="Every reachable state of the bounded List specification (pointer image + abstract sequence, refinement and "
             "tail invariants) is checked by TLC; every transition of that graph is executed on the real list.c and every "
             "observable (traversals, return values, tail while meaningful, next of all nodes, iterator position) is "
             "compared by TLC with the specification after each call; random histories extend this to 8 nodes / 3 lists.",
        note="Bounded: 3 nodes (quick) / 4 nodes (thorough) x 2 lists exhaustively, 8 nodes x 3 lists randomly. Binding is by "
             "execution of the compiled list.c (gcc -O1 + ASan). API preconditions are action guards."),
}
NOT_YET = "check not built yet (work in progress; planned per DESIGN.md section 4)"
NA = {}

m = {
    "version": 1,
    "setup_cmd": "./check --setup",
    "hooks": {"guard": "LIBRFN_VERIF",
              "enable": "drivers compile librfn sources from /repo with -DLIBRFN_VERIF (tools/vlib.py build_driver)",
              "baseline_off_cmd": "make -C /repo check",
              "source_commits": [], "add_only": True},
    "engines": [
        {"name": "tlc-spec", "path": "spec/", "kind_free_text": "TLA+ specification suite checked with TLC (BFS, simulation)",
         "serves_properties": sorted(CHECKS)},
        {"name": "replay", "path": "tools/vlib.py", "kind_free_text": "edge cover of TLC state graphs / simulated behaviours executed on the real code by harness/*_drv.c",
         "serves_properties": sorted(CHECKS)},
        {"name": "tracecheck", "path": "spec/Trace*.tla", "kind_free_text": "TLC validation of ndjson traces recorded from the real code",
         "serves_properties": sorted(CHECKS)},
    ],
    "checks": [],
    "notes": "see DESIGN.md; ./check <id> quick|thorough",
    "not_applicable": [],
}
hooks_file = os.path.join(ROOT, "HOOK_COMMITS.txt")
if os.path.exists(hooks_file):
    m["hooks"]["source_commits"] = [l.split()[0] for l in open(hooks_file) if l.strip() and not l.startswith("#")]
for p in props:
    pid = p["id"]
    if pid in CHECKS:
        c = CHECKS[pid]
        m["checks"].append({
            "property_id": pid,
            "quick_cmd": "./check %s quick" % pid,
            "thorough_cmd": "./check %s thorough" % pid,
            "evidence_file": "evidence/%s.json" % pid,
            "replay_cmd_template": "./check %s --replay {path}" % pid,
            "engine": c["engine"],
            "level_claimed": {"category": c["category"], "text": c["text"], "design_ref": c["design_ref"]},
            "level_note": c["note"],
            "technique": c["technique"],
        })
    else:
        m["not_applicable"].append({"property_id": pid, "reason": NA.get(pid, NOT_YET)})
json.dump(m, open(os.path.join(ROOT, "MANIFEST.json"), "w"), indent=1)
print("checks:", len(m["checks"]), "not_applicable:", len(m["not_applicable"]))
