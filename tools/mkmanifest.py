#!/usr/bin/env python3
"""Regenerates /verif/MANIFEST.json from the table below (one entry per claimed property)."""
import json
import os

ROOT = os.path.dirname(os.path.dirname(os.path.abspath(__file__)))
props = [json.loads(l) for l in open(os.path.join(ROOT, "properties.jsonl"))]

MC = "model_checking"
CHECKS = {
    "C09": dict(
        engine="tlc+replay+tracecheck", category=MC, design_ref="DESIGN.md section 4/C09",
        technique="TLA+ spec (List.tla) model-checked with TLC; edge cover of the TLC state graph replayed on list.c and "
                  "validated by TLC against TraceList.tla; seeded random histories validated the same way",
        text="Every reachable state of the bounded List specification (pointer image + abstract sequence, refinement and "
             "tail invariants) is checked by TLC; every transition of that graph is executed on the real list.c and every "
             "observable (traversals, return values, tail while meaningful, next of all nodes, iterator position) is "
             "compared by TLC with the specification after each call; random histories extend this to 8 nodes / 3 lists.",
        note="Bounded: 3 nodes (quick) / 4 nodes (thorough) x 2 lists exhaustively, 8 nodes x 3 lists randomly. Binding is by "
             "execution of the compiled list.c (gcc -O1 + ASan). API preconditions are action guards."),
}
CHECKS["C04"] = dict(
    engine="tlc+vrt-replay+tracecheck", category=MC, design_ref="DESIGN.md section 4/C04",
    technique="TLA+ spec (MessageQ.tla, one action per atomic operation) model-checked with TLC under threads and irq "
              "disciplines; edge cover of every TLC state graph executed as schedules on the real messageq.c under the vrt "
              "interleaving runtime and validated by TLC against TraceMessageQ.tla; seeded random schedules likewise",
    text="TLC checks exclusive ownership, exactly-once/in-claim-order delivery, justified claim failure and the counting "
         "invariant in every interleaving of the bounded configurations (2-4 senders, depth 1-3, full queues with several "
         "claims in flight). Each transition of those graphs is then executed on the compiled messageq.c, preempted at "
         "exactly the atomic operations by harness/vrt.c, and TLC confirms that operation, operands, API results and "
         "shared variables match the specification after every step.",
    note="Bounded configurations; SC interleavings at atomic-op grain (ordering is C07); CAS assumed not to fail spuriously; "
         "binding by execution of clang -O1 code instrumented via -fsanitize=thread callbacks.")
CHECKS["C05"] = dict(
    engine="tlc+vrt-replay+tracecheck", category=MC, design_ref="DESIGN.md section 4/C05",
    technique="TLA+ spec (RingBuf.tla, one action per atomic load/store and per plain ring access) model-checked with TLC; "
              "edge covers executed as schedules on the real ringbuf.c under vrt and validated by TLC against TraceRingBuf.tla; "
              "seeded random programs/schedules on rings of 2..4096 bytes with guard bytes",
    text="TLC checks FIFO exactness, the unread-window invariant, no overwrite of unread bytes and justified put/get/empty "
         "failures in every interleaving (both preemption directions) for ring lengths 2-5 and several start indices; every "
         "transition is executed on the compiled ringbuf.c with preemption at each atomic operation and each ring byte "
         "access, and TLC compares operation, results, indices and the unread window after every step.",
    note="Bounded programs (3-6 puts, 4-8 gets) exhaustively; random beyond. One producer and one consumer context. SC "
         "interleavings (ordering is C07).")
CHECKS["C07"] = dict(
    engine="tlc-tracecheck(C11HB)+vrt", category=MC, design_ref="DESIGN.md section 4/C07",
    technique="TLA+ happens-before specification (C11HB.tla) evaluated by TLC over every trace recorded from the real code "
              "under vrt (memory order of each executed atomic operation taken from compiler instrumentation); site-by-site "
              "weakening as vacuity control; repeated with the __STDC_NO_ATOMICS__ fallback",
    text="For every execution explored for C04/C05 (and C06 when built) TLC computes vector-clock happens-before from the "
         "logged memory orders and requires every plain access to payload or single-owner bookkeeping to be ordered with "
         "all conflicting accesses; a plain access to an atomic object is rejected outright.",
    note="SC executions only; seq_cst treated as acq_rel. The property's 'long randomised real-thread runs under "
         "ThreadSanitizer' are a different technique and are not built (DESIGN.md section 6).")
FIB = ("TLA+ spec (Fibre.tla: PassBegin / body calls / PassEnd / outside calls) model-checked with TLC; edge covers and "
       "simulated behaviours of the TLC state graphs replayed on the real fibre.c (snapshot hook) and validated by TLC against "
       "TraceFibre.tla; seeded random histories likewise")
CHECKS["C01"] = dict(
    engine="tlc+replay+tracecheck", category=MC, design_ref="DESIGN.md section 4/C01", technique=FIB,
    text="TLC checks NoDup, QueuedIffReason (coalescing), SelfIsLast etc. on every state of the bounded scheduler model; "
         "every transition of the replayed graphs (1-2 fibres exhaustively, 3 fibres by simulation) is executed on the "
         "compiled fibre.c and who ran, at which protothread section, fibre_self, every call result and the run/timer/atomic "
         "queues are compared with the specification after every call.",
    note="Bounded model (<=3 fibres, times 0..3, <=2 undrained atomic requests exhaustively; 6 fibres / 8 requests randomly); "
         "quick tier covers a seeded subset of the 2-fibre graph's edges; sequential histories only (interrupts: C06).")
CHECKS["C02"] = dict(
    engine="tlc+replay+tracecheck", category=MC, design_ref="DESIGN.md section 4/C02",
    technique=FIB + "; FibreRing.tla checks cyclic = natural comparison for every base of a 2^5 ring inside the scope "
              "(and its violation outside); every behaviour is executed at several placements of the 32-bit time base",
    text="As C01, with the timeout invariants (TimerSorted, NeverLate, NeverEarly) and fibre_timeout's result; wrap "
         "safety is decided at design level by FibreRing.tla and bound to the code by executing every replayed behaviour and "
         "random history at placements of the time base that straddle 0xffffffff->0 and 0x7fffffff->0x80000000 (scales up "
         "to 2^27) and requiring identical event sequences.",
    note="Scope: due times within 2^31 of now (model horizon x scale < 2^31). Placements: 3 quick / 5 thorough.")
CHECKS["C03"] = dict(
    engine="tlc+replay+tracecheck", category=MC, design_ref="DESIGN.md section 4/C03", technique=FIB,
    text="TLC checks NoOversleep on every state (returned time = now whenever anything is runnable, else earliest due, else "
         "unbounded); the value returned by every real fibre_scheduler_next call in the replayed and random histories is "
         "compared with the specification's NextWakeup.",
    note="Interrupt part: FibreIrq.tla under the irq discipline (RetSeesCompleted action property; every placement of 2-3 "
         "interrupt calls between the main context's atomic operations replayed on the real code, returned time compared). "
         "Free-running threads are outside the property (a completed request can hide behind an unsent slot).")
CHECKS["C10"] = dict(
    engine="tlc+replay+tracecheck", category=MC, design_ref="DESIGN.md section 4/C10",
    technique="TLA+ spec (MessageQSeq.tla: abstract window + implementation image with refinement invariant) model-checked "
              "with TLC; edge covers replayed on messageq.c at several message sizes/slacks/initialisers; every geometry "
              "depth 1..32 x 6 sizes x slacks driven systematically and randomly, validated by TLC against TraceMessageQSeq.tla",
    text="TLC checks the refinement between the cyclic-index implementation image and the abstract FIFO window for depth "
         "1..5 under all API-permitted call orders; the real code's returned buffer offsets, NULLs and empty() answers, "
         "payload integrity and untouched slack bytes are compared call by call for every depth 1..32.",
    note="Results (offsets, NULL, empty) are compared, not internal fields; ASan + exactly sized storage observe stray writes.")
CHECKS["C12"] = dict(
    engine="tlc+replay+tracecheck", category=MC, design_ref="DESIGN.md section 4/C12",
    technique="TLA+ spec (Pack.tla: byte-sequence buffer, sticky cursor) model-checked with TLC; edge cover replayed on pack.c "
              "and validated by TLC against TracePack.tla; 16-bit value sweep, 32-bit patterns and random sequences validated likewise",
    text="TLC checks TouchedInside, Sticky, AllOrNothing and the little-endian round trip on all operation sequences up to "
         "the bound over buffer sizes 0..5/6; after every real call the buffer image, the returned value, consumed/remaining "
         "and the guard bytes around the exactly sized buffer are compared with the specification.",
    note="Bounded sequences (4 operations) exhaustively, quick tier covers a seeded subset of the graph's edges; every 16-bit "
         "value only in the thorough tier (stride 9 + boundary values in quick). Out-of-buffer access observed by ASan/guards.")
CHECKS["C13"] = dict(
    engine="tlc+tracecheck", category=MC, design_ref="DESIGN.md section 4/C13",
    technique="TLA+ spec (WavHeader.tla: init/set_frames/encode/parse as byte-tuple arithmetic) checked with TLC on a bounded "
              "domain; every case run on wavheader.c is one event validated by TLC against TraceWav.tla (structure field by "
              "field, bytes, lengths, size relations)",
    text="For 3 prior contents x 3 formats x 4 channel counts x 4 rates x 6 frame counts (up to the 32-bit limit) the real "
         "structure, validate result, encoded bytes and the decoded structure are compared with the specification; "
         "decode-first: every accepted byte string of the C14 corpus must re-encode to its normalised self.",
    note="The specification is written to the property (all unset fields zero, RIFF size = bytes following in the file); "
         "fact_chunk_size = 12 is accepted as the code's convention.")
CHECKS["C14"] = dict(
    engine="tlc+tracecheck", category=MC, design_ref="DESIGN.md section 4/C14",
    technique="TLA+ spec (WavHeader.tla Parse + DecodeRetOK contract) checked with TLC; structured, hostile and random byte "
              "strings decoded by wavheader.c in exactly sized heap buffers under ASan, each case validated by TLC against TraceWav.tla",
    text="Every truncation point of six header shapes, every byte corrupted, size fields at 20 boundary values up to "
         "0xffffffff x 6 cb_size values, random mutations: the return value must be a negative error, > sz when the header "
         "is incomplete, or the exact length (>= 44); validate/get_format/tostring must terminate without a signal.",
    note="Memory safety is observed (ASan, exact-size buffers), not proved; tostring runs in a forked child.")
CHECKS["C19"] = dict(
    engine="tlc+tracecheck", category=MC, design_ref="DESIGN.md section 4/C19",
    technique="TLA+ spec (Rotenc.tla) model-checked with TLC on reduced widths; the real rotenc.c walked through the position "
              "range with bounce / repeated-state / invalid-jump patterns, both readings after every decode validated by TLC "
              "against TraceRotenc.tla at the real widths",
    text="TLC checks the whole decoder machine (last x pos x latched x input) for pos mod 2^8; every rotenc_decode of the "
         "real code in walks crossing the 8-, 14- and 16-bit wrap points in both directions is compared (count and count14) "
         "with the specification.",
    note="Quick: windows around the wrap points + 60k random steps; thorough: the entire 16-bit range with 7 bounce patterns.")
CHECKS["C20"] = dict(
    engine="tlc+tracecheck", category=MC, design_ref="DESIGN.md section 4/C20",
    technique="TLA+ spec (Mlog.tla: abstract window + head/slot image, Refines) model-checked with TLC for Cap=4/WrapAt=11; "
              "systematic and random histories on mlog.c (incl. across the 2^31 fold via the LIBRFN_VERIF hook) validated by "
              "TLC against TraceMlog.tla with the real constants",
    text="TLC checks that get_line on the implementation image equals the abstract window for every index in every "
         "reachable state including the fold; the real code's mlog_get_line for k=-2..257 and mlog_dump are compared after "
         "every message for counts 0..773 and across two folds of the counter.",
    note="The fold is reached through mlog_verif_set_count (hook); messages are identified by distinct format strings and arguments.")
CHECKS["C16"] = dict(
    engine="tlc+tracecheck+sweep", category="exploration", design_ref="DESIGN.md section 4/C16",
    technique="TLA+ spec (Bits.tla): TLC proves algorithm = definition for all 16-bit words; TLC validates real results and a C "
              "oracle against the definitions on structured 32/64-bit vectors (TraceBits); exhaustive 2^32 conformance sweep "
              "against that oracle",
    text="Exhaustive exploration of all 2^32 arguments of bitcnt/clz/ctz/ilog2 against an oracle that TLC has validated "
         "against the TLA+ definitions on ~30000 structured and random vectors; 64-bit macros on all one-/two-bit patterns, "
         "contiguous masks and random values, as compile-time constants and run-time values.",
    note="Honest level (DESIGN section 4/C16): the TLA+ specification supplies the definition, the 16-bit algorithm proof and the "
         "vectors; the 2^32 statement is a conformance sweep against a C transcription of the definitions.")
CHECKS["C17"] = dict(
    engine="tlc+tracecheck+sweep", category="exploration", design_ref="DESIGN.md section 4/C17",
    technique="TLA+ spec (Rand31.tla): TLC checks Carta transcription = Park-Miller (Schrage) on ~295k structured states; TLC "
              "validates real results and the 64-bit reference on vectors (TraceRand); exhaustive sweep of all 2^31-2 states",
    text="All 2^31-2 states: returned value, updated seed and range compared with 16807*s mod (2^31-1) computed in 64 bits, "
         "the reference itself being validated by TLC against the TLA+ definition on structured/trajectory/random vectors.",
    note="As C16: exploration (exhaustive) with a TLC-validated oracle; full period is a number-theoretic consequence, not checked.")
CHECKS["C18"] = dict(
    engine="tlc+tracecheck", category=MC, design_ref="DESIGN.md section 4/C18",
    technique="TLA+ spec (Hex.tla: Dump and the hex_get_byte machine with highest index read) checked with TLC on all strings "
              "over a 9-symbol alphabet up to length 4/5 and structured arrays; the same domain (one longer) run on hex.c in "
              "exactly sized heap buffers, every return value and *p validated by TLC against TraceHex.tla",
    text="TLC checks RoundTrip, DumpShape and ParserSafe (range, termination bound, never past the NUL, stays at -1) on the "
         "bounded domain; the real parser's complete return sequence and cursor after every call, and the real dump text, "
         "are compared with the specification for ~66k strings, 570 arrays and random long strings with arbitrary bytes.",
    note="Memory safety beyond the executed inputs is not proved (ASan observation on exact-size buffers).")
CHECKS["C11"] = dict(
    engine="tlc+tracecheck", category=MC, design_ref="DESIGN.md section 4/C11",
    technique="TLA+ spec (BinTree.tla: Morris threads and tag bits as state, one action per bintree_next / deallocation) "
              "model-checked with TLC from every tree shape up to 6/8 nodes; the real bintree.c run on the same shapes and on "
              "large random/degenerate shapes, every returned node and full link image validated by TLC against TraceBinTree.tla",
    text="TLC checks order = recursive traversal, each node once, links restored at completion, threads well formed, no read "
         "after free and children-before-parents for all 197 (quick) / 2056 (thorough) shapes x 4 procedures + list spines; the "
         "compiled bintree.c must produce the same returned node and the same temporary link image after every call.",
    note="bintree.c is compiled directly by the driver (it is not in librfn's build). Reads of freed nodes are observed by "
         "ASan (nodes are poisoned and really freed), not proved absent beyond the executed shapes.")
CHECKS["C08"] = dict(
    engine="tlc+generated-programs+tracecheck", category=MC, design_ref="DESIGN.md section 4/C08",
    technique="TLA+ spec (Proto.tla: Exec = one invocation through the macros' switch/case machinery, SeqRun = the uncut "
              "sequential program) checked with TLC on every generated program; the same programs emitted as C built from the "
              "real protothreads.h and run invocation by invocation, validated by TLC against Exec (TraceProto); cross-check "
              "of the generator's two translations through sequential stand-in macros",
    text="For ~415 (quick) / ~2700 (thorough) programs - every blocking construct in eleven control-flow contexts up to nesting "
         "depth 3, children to depth 2, PT_FAIL/PT_CHILD_OK/PT_SPAWN_AND_CHECK/PT_CALL, restart after PT_INIT, plus seeded "
         "random programs - TLC checks Exec == SeqRun and the compiled macros must reproduce Exec's effects, return code and "
         "variables at every single invocation.",
    note="Programs are generated (systematic + random), not every program up to a size bound; the AST->C and AST->graph "
         "translations of tools/ptgen.py are trusted up to the sequential cross-check.")
CHECKS["C15"] = dict(
    engine="tlc+replay+tracecheck", category=MC, design_ref="DESIGN.md section 4/C15",
    technique="TLA+ spec (Console.tla: editor, in-place tokeniser, sorted table, dispatch) model-checked with TLC; edge cover "
              "replayed on console.c through console_process and console_putchar+fibre; exhaustive short streams, random long "
              "lines through process/putchar/console_eval and registration orders validated by TLC against TraceConsole.tla",
    text="TLC checks buffer limit, table order and dispatch shape on all bounded streams; the real console's dispatches (which "
         "registered command ran, argc, argv strings, each argv inside the line buffer), the edited line after every character "
         "and every registration result are compared with the specification for all 4-/5-character streams, lines around the "
         "79-character limit, multi-line console_eval injections and up to 39 registrations.",
    note="Heap-allocated console_t under ASan observes writes outside the structure; a line starting with a blank names no "
         "command (named deviation, modelled as the code behaves).")
CHECKS["C06"] = dict(
    engine="tlc+vrt-replay+tracecheck", category=MC, design_ref="DESIGN.md section 4/C06",
    technique="TLA+ spec (FibreIrq.tla: main context of fibre_scheduler_next at atomic-operation and slot-access grain, "
              "interrupt-context fibre_run_atomic / fibre_eventq_claim+send) model-checked with TLC under irq nesting and free "
              "threads; edge covers executed as schedules on the real fibre.c+messageq.c under vrt and validated by TLC against "
              "TraceFibreIrq.tla; seeded random schedules with up to 11 interrupt calls",
    text="TLC checks AcceptedIsQueuedOrPending (a request whose fibre_run_atomic returned true is an undrained slot, in the "
         "drain loop's hand, or on the run queue until its fibre is dispatched), QueuesIntact and EventsExactlyOnceInOrder in "
         "every interleaving of the bounded scenarios (event fibre, yielding fibre, sleeping fibre or lone yielder; 2-3 "
         "interrupt calls placed between any two atomic operations or slot accesses of the main context); every transition is "
         "executed on the compiled code and operation, results, run/timer queues and both queues' atomic state are compared.",
    note="Fixed fibre bodies (the property's scenario); events are checked in claim order (messageq semantics); liveness is "
         "covered as safety (nothing accepted is ever outside slot/hand/run queue) plus the exact dispatch behaviour of the "
         "replayed passes, not as a TLC temporal property.")
# additions of session 3 (DESIGN.md section 15)
EXTRA = {
    "C04": " Release-style second build (-DNDEBUG -funsigned-char -O2). Plain accesses to message buffers (incl. libc block functions, wrapped) must come from the context that holds the buffer. A step-level rejection is put to the result-level specification TraceMessageQLoose before it is reported.",
    "C05": " Rings of 2^31..2^32-1 bytes (address space only) with the indices next to the end are validated against RingBufBig.tla (indices as 16-bit halves; bounded model with small halves). Release-style second build. Result-level second opinion TraceRingBufLoose.",
    "C06": " Both queues start at any cursor position after up to 700 earlier messages. Result-level second opinion TraceFibreIrqLoose (free alignment).",
    "C03": " Interrupt part: as C06 (queues with a history, result-level second opinion). Consumer side: MainLoop.tla (one action per iteration of fibre_scheduler_main_loop; NoOversleep) bound to librfn/posix/fibre_posix.c by a scripted scheduler and a mock clock.",
    "C07": " Block functions (memset/memcpy/memmove) called by librfn are wrapped so that their accesses are events too.",
    "C09": " Release-style second build; list_contains' result discarded on alternate calls.",
    "C10": " Caller memory at every offset from an 8-byte boundary; runs of up to 66000 refused claims.",
    "C11": " Nil- and NULL-terminated right spines; 20000-node chains on a 256 KiB stack; release-style second build. A step-level rejection (the link image in mid-iteration is the code's business) is put to the result-level specification TraceBinTreeLoose before it is reported.",
    "C12": " Items of 2^30 bytes and more; buffers of 2^31 bytes and more through a window abstraction (TracePack `big`).",
    "C16": " Constant signed / negative argument expressions; sign of the macros' values; release-style second build (unsigned plain char).",
    "C20": " Burst(n) action (closed form of n logs, equal to the iteration in Mlog_mc) for 2^31+261 (thorough: 2^32+5) messages that nobody reads; every line length 0..700; '*' widths.",
}
# additions of round e (DESIGN.md section 15.5)
EXTRA_E = {
    "C01": " The first execution of every driver run uses the statically initialised scheduler as it is (no reset hook). Crowd event: thousands of fibres on one queue, tallies judged by CrowdOK.",
    "C02": " Exact distances at the far end of the 2^31 window (lateness 2^31-1 and 2^31, a maximal delay registered behind a one-tick sleeper).",
    "C03": " MainLoop.tla IterSignal / WakeNotSleptOn: sleeps cut short by a signal whose handler posts a wake-up (all mock sleeping primitives report EINTR the POSIX way).",
    "C05": " ringbuf_empty called from the producer's side (actions PEmptyLoadR/W, configuration g); index distances equal to 2^32 - len on huge rings.",
    "C06": " Directed executions that fill (and overflow) the atomic run queue between two passes of an otherwise idle main loop, judged by the result-level specification as well; 4 KiB events in a 32-deep queue.",
    "C07": " The rest of each descriptor is registered as plain memory, so fields added by a change take part in the happens-before check.",
    "C08": " Resume points on every line 1..65535 (Sweep events; functions of up to 8192 yields), #line bases spread over the range, user variables named like macro-declared locals (scanned from gcc -E, header namespace excluded) or everyday names, stack pre-filled before each invocation.",
    "C09": " Relocate action (a list_t copied to other storage), comparator shapes incl. one that never reports a tie, stale links through list_iterator_insert.",
    "C10": " Cycles(n) action: 2^27 (thorough 2^32+1) whole cycles on an idle queue in closed form, run natively and checked as they go; every power-of-two message size through both initialisers.",
    "C13": " Re-encoded bytes compared with the decoded bytes whatever length the decoder consumed; chunk ids in every letter case; the largest files that fit.",
    "C14": " Chunks in front of the fmt chunk with sizes of every magnitude.",
    "C15": " Command names at and beyond the longest typable token (79 characters).",
    "C16": " Every power of two +-1 as compile-time constants; the functions' external symbols (pointers, parenthesised names) in the vectors and in the exhaustive sweep.",
    "C17": " External symbol, callers' pointer names, heap / struct seeds; unity, LTO and -O3 builds.",
    "C19": " Fast steady rotation (no repeated sample) of many lengths ended by a two-bit jump.",
    "C20": " Conversion-free formats with literal per cent signs; a natural 270 M-message (thorough 4.4 G) history inspected at round message counts.",
}
for _d in (EXTRA, EXTRA_E):
    for _k, _v in _d.items():
        CHECKS[_k]["note"] += _v

NOT_YET = "check not built yet (work in progress; planned per DESIGN.md section 4)"
NA = {}

m = {
    "version": 1,
    "setup_cmd": "./check --setup",
    "hooks": {"guard": "LIBRFN_VERIF",
              "enable": "drivers compile librfn sources from /repo with -DLIBRFN_VERIF (tools/vlib.py build_driver)",
              "baseline_off_cmd": "make -C /repo check",
              "source_commits": [], "add_only": True},
    "engines": [
        {"name": "tlc-spec", "path": "spec/", "kind_free_text": "TLA+ specification suite checked with TLC (BFS, simulation)",
         "serves_properties": sorted(CHECKS)},
        {"name": "replay", "path": "tools/vlib.py", "kind_free_text": "edge cover of TLC state graphs / simulated behaviours executed on the real code by harness/*_drv.c",
         "serves_properties": sorted(CHECKS)},
        {"name": "tracecheck", "path": "spec/Trace*.tla", "kind_free_text": "TLC validation of ndjson traces recorded from the real code",
         "serves_properties": sorted(CHECKS)},
        {"name": "vrt", "path": "harness/vrt.c", "kind_free_text": "interleaving runtime: librfn compiled with clang -fsanitize=thread instrumentation only, linked against our own __tsan_* entry points (and wrapped memset/memcpy/memmove); contexts are coroutines, every atomic operation (and marked plain accesses) is a switch point",
         "serves_properties": ["C03", "C04", "C05", "C06", "C07"]},
        {"name": "result-level-second-opinion", "path": "spec/Trace*Loose.tla", "kind_free_text": "TraceMessageQLoose / TraceRingBufLoose / TraceFibreIrqLoose / TraceBinTreeLoose: the property restated on call results alone, consulted only after a step-level rejection so that an implementation that differs at the grain of atomic operations or private links is not reported",
         "serves_properties": ["C03", "C04", "C05", "C06", "C07", "C11"]},
        {"name": "selftest", "path": "tools/selftest.py", "kind_free_text": "binding demonstration: every mutants/*.diff and seeded/*/patch.diff must be reported (exit 1), every benign/*/patch.diff (behaviour-preserving change) must stay quiet (exit 0); not part of any registered command",
         "serves_properties": sorted(CHECKS)},
        {"name": "growth-modules", "path": "tools/props/x0*.py", "kind_free_text": "specifications beyond the listed properties, same four-file pattern, ./check X01..X05: Ratelimit, Misc (regdump/enum/stats), Rgb (cross-fade, gamma), RfString, Fuzz (approximate comparisons)",
         "serves_properties": []},
    ],
    "checks": [],
    "notes": "see DESIGN.md; ./check <id> quick|thorough",
    "not_applicable": [],
}
hooks_file = os.path.join(ROOT, "HOOK_COMMITS.txt")
if os.path.exists(hooks_file):
    m["hooks"]["source_commits"] = [l.split()[0] for l in open(hooks_file) if l.strip() and not l.startswith("#")]
for p in props:
    pid = p["id"]
    if pid in CHECKS:
        c = CHECKS[pid]
        m["checks"].append({
            "property_id": pid,
            "quick_cmd": "./check %s quick" % pid,
            "thorough_cmd": "./check %s thorough" % pid,
            "evidence_file": "evidence/%s.json" % pid,
            "replay_cmd_template": "./check %s --replay {path}" % pid,
            "engine": c["engine"],
            "level_claimed": {"category": c["category"], "text": c["text"], "design_ref": c["design_ref"]},
            "level_note": c["note"],
            "technique": c["technique"],
        })
    else:
        m["not_applicable"].append({"property_id": pid, "reason": NA.get(pid, NOT_YET)})
json.dump(m, open(os.path.join(ROOT, "MANIFEST.json"), "w"), indent=1)
print("checks:", len(m["checks"]), "not_applicable:", len(m["not_applicable"]))
