#!/bin/sh
# tools/mkwt.sh <name> : scratch git worktree of /repo at /tmp/wt-<name>, configured and built so that `make check` works there.
# Remove with: git -C /repo worktree remove --force /tmp/wt-<name>
set -e
wt=/tmp/wt-$1
git -C /repo worktree add --detach -f "$wt" HEAD >/dev/null 2>&1
cd /repo
for f in configure Makefile.in aclocal.m4 ar-lib compile config.guess config.sub depcomp install-sh missing test-driver m4; do
  [ -e "$f" ] && cp -a "$f" "$wt/" 
done
cd "$wt"
# keep timestamps ordered so automake does not try to regenerate
touch aclocal.m4; sleep 1; touch configure Makefile.in
./configure -q >/dev/null 2>&1
make -j8 >/dev/null 2>&1
mkdir -p _mut
echo "$wt"
