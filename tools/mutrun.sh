#!/bin/sh
# tools/mutrun.sh <patch> <check-id> [tier] : run a check against a scratch copy of /repo with the patch applied
d=$(mktemp -d /tmp/librfn-x.XXXX); cp -r /repo/include /repo/librfn $d/
(cd $d && patch -p1 -s -i "$1") || { echo "patch failed"; rm -rf $d; exit 3; }
VERIF_REPO=$d timeout 1800 "$(dirname "$0")/../check" $2 ${3:-quick} 2>&1 | grep -E "^(detail|VIOLATION|NOTE|INFRA|C[0-9]+ )" | cut -c1-400
rm -rf $d
