#!/usr/bin/env python3
"""ptgen.py - one source form, two translations, for property C08.

A protothread *program* is a structured AST (python lists).  This tool (1) enumerates / samples a set of programs,
(2) compiles each AST to the flat control-flow graph interpreted by spec/Proto.tla (written as spec/ProtoProgs_<tag>.tla),
(3) emits each AST as a C function built from the REAL include/librfn/protothreads.h macros with structured control
flow, one blocking macro per source line (harness side: build/<..>/proto_gen.c).  The same C bodies are compiled a
second time against sequential stand-ins of the macros (PT_SEQ) to cross-check the two translations.

AST:  stmt := ["eff",k] | ["inc",v] | ["set",v,c] | ["yield"] | ["wait"] | ["wait_until",cond] | ["exit"] | ["exit_on",cond]
            | ["fail"] | ["fail_on",cond] | ["if",cond,[stmt],[stmt]] | ["while",cond,[stmt]]
            | ["spawn",k] | ["spawn_check",k] | ["call",k] | ["if_child_ok",[stmt],[stmt]]
      cond := [kind, v, c]  kind in lt/eq/ge (variable v in {"a","b"}) or ["tickge", "", c]
A program = {"main": [stmt], "kids": [program]} (kids to depth 2).
"""
import json
import random
import sys

VARS = ("a", "b")


# ---------------------------------------------------------------- AST -> flat CFG
def compile_cfg(stmts):
    code = []

    def ins(op, x=0, y="", z=0, t=0):
        code.append({"op": op, "x": x, "y": y, "z": z, "t": t})
        return len(code)  # 1-based index of the instruction just added

    def cond(c):
        if c[0] in WIDE:
            return "", "tickge", c[2]       # identical meaning in the specification
        return (c[1] if c[0] != "tickge" else ""), c[0], c[2]

    def gen(ss):
        for s in ss:
            k = s[0]
            if k == "eff":
                ins("eff", z=s[1])
            elif k == "inc":
                ins("inc", y=s[1])
            elif k == "set":
                ins("set", y=s[1], z=s[2])
            elif k in ("yield", "wait", "exit", "fail"):
                ins(k)
            elif k in ("wait_until", "exit_on", "fail_on"):
                v, kind, c = cond(s[1])
                ins(k, x=kind, y=v, z=c)
            elif k == "if":
                v, kind, c = cond(s[1])
                br = ins("br", x=kind, y=v, z=c)          # branch to t if the condition is FALSE
                gen(s[2])
                jmp = ins("jmp")
                code[br - 1]["t"] = len(code) + 1
                gen(s[3])
                code[jmp - 1]["t"] = len(code) + 1
            elif k == "while":
                top = len(code) + 1
                v, kind, c = cond(s[1])
                br = ins("br", x=kind, y=v, z=c)
                gen(s[2])
                ins("jmp", t=top)
                code[br - 1]["t"] = len(code) + 1
            elif k in ("spawn", "spawn_check"):
                ins("spawninit", z=s[1])
                ins("spawnrun", z=s[1])
                if k == "spawn_check":
                    ins("failonchildfail")
            elif k == "call":
                ins("call", z=s[1])
            elif k == "if_child_ok":
                br = ins("brchildfail")                   # branch to t if the child FAILED
                gen(s[1])
                jmp = ins("jmp")
                code[br - 1]["t"] = len(code) + 1
                gen(s[2])
                code[jmp - 1]["t"] = len(code) + 1
            else:
                raise ValueError(s)

    gen(stmts)
    ins("end")
    # normalise x (cond kind) to strings everywhere
    for c in code:
        c["x"] = c["x"] if isinstance(c["x"], str) else ""
    return code


# ---------------------------------------------------------------- AST -> C
# spellings of "vp_tick >= N" whose type is not int: a condition is whatever C accepts as one
WIDE = {"tickwide": "((unsigned long long)(vp_tick >= %d) << 40)",          # 64-bit, low 32 bits zero
        "tickfrac": "(0.25 * (vp_tick >= %d))",                              # double, 0 < value < 1
        "tick128": "((unsigned __int128)(vp_tick >= %d) << 64)",            # wider than long, low 64 bits zero
        "tickptr": "((vp_tick >= %d) ? (void *)c : (void *)0)",             # a pointer
        "tickhalf": "((float)(vp_tick >= %d) / 2)"}


SPELL = {"a": "c->a", "b": "c->b"}      # how the top-level thread's variables are spelled (capture variants change it)


def c_cond(c):
    if c[0] == "tickge":
        return "(vp_tick >= %d)" % c[2]
    if c[0] in WIDE:
        return WIDE[c[0]] % c[2]
    op = {"lt": "<", "eq": "==", "ge": ">="}[c[0]]
    return "(%s %s %d)" % (SPELL[c[1]], op, c[2])


LINE_BASES = [10, 250, 65400, 32760, 57000 - 5, 4090, 127, 1, 16380, 49150, 65535 - 80, 255 * 256 - 10]
emit_count = [0]


def emit_c(name, prog, out, depth=0):
    global SPELL
    if depth == 0:
        saved, spell = None, SPELL
    else:
        saved, spell = SPELL, {"a": "c->a", "b": "c->b"}       # children always use their own context
    SPELL = {"a": "c->a", "b": "c->b"}
    for i, kid in enumerate(prog.get("kids", [])):
        emit_c("%s_k%d" % (name, i), kid, out, depth + 1)
    SPELL = spell
    lines = []

    def gen(ss, ind):
        p = "\t" * ind
        for s in ss:
            k = s[0]
            if k == "eff":
                lines.append(p + "VP_EFF(%d);" % s[1])
            elif k == "inc":
                lines.append(p + "%s++;" % SPELL[s[1]])
            elif k == "set":
                lines.append(p + "%s = %d;" % (SPELL[s[1]], s[2]))
            elif k == "yield":
                lines.append(p + "PT_YIELD();")
            elif k == "wait":
                lines.append(p + "PT_WAIT();")
            elif k == "wait_until":
                lines.append(p + "PT_WAIT_UNTIL(%s);" % c_cond(s[1]))
            elif k == "exit":
                lines.append(p + "PT_EXIT();")
            elif k == "exit_on":
                lines.append(p + "PT_EXIT_ON(%s);" % c_cond(s[1]))
            elif k == "fail":
                lines.append(p + "PT_FAIL();")
            elif k == "fail_on":
                lines.append(p + "PT_FAIL_ON(%s);" % c_cond(s[1]))
            elif k == "if" and len(s[2]) == 1 and len(s[3]) == 1 and s[2][0][0] not in ("if", "while", "if_child_ok") \
                    and s[3][0][0] not in ("if", "while", "if_child_ok"):
                # single-statement branches are emitted WITHOUT braces: the macros must behave as statements
                lines.append(p + "if %s" % c_cond(s[1]))
                gen(s[2], ind + 1)
                lines.append(p + "else")
                gen(s[3], ind + 1)
            elif k == "if":
                lines.append(p + "if %s {" % c_cond(s[1]))
                gen(s[2], ind + 1)
                lines.append(p + "} else {")
                gen(s[3], ind + 1)
                lines.append(p + "}")
            elif k == "while":
                lines.append(p + "while %s {" % c_cond(s[1]))
                gen(s[2], ind + 1)
                lines.append(p + "}")
            elif k in ("spawn", "spawn_check", "call"):
                mac = {"spawn": "PT_SPAWN", "spawn_check": "PT_SPAWN_AND_CHECK", "call": "PT_CALL"}[k]
                call = "%s_k%d(&c->kid[%d])" % (name, s[1], s[1])
                # the thread argument is an expression, not necessarily a bare call: a conditional that selects it, an
                # assignment that keeps its result (then checked: the macro must leave the child's final result there)
                form = (len(lines) + depth + s[1]) % 4
                if form == 1:
                    call = "c->a >= 0 ? %s : PT_FAILED" % call
                elif form == 2:
                    call = "c->a < 0 ? PT_FAILED : %s" % call
                elif form == 3:
                    call = "c->r = %s" % call
                if form == 3 and k == "call":      # one (compound) statement, so that it can stand as an unbraced branch
                    lines.append(p + "{ %s(&c->kid[%d].pt, %s); if (c->r != PT_EXITED && c->r != PT_FAILED) VP_EFF(99); }" % (mac, s[1], call))
                else:
                    lines.append(p + "%s(&c->kid[%d].pt, %s);" % (mac, s[1], call))
            elif k == "if_child_ok":
                lines.append(p + "if (PT_CHILD_OK()) {")
                gen(s[1], ind + 1)
                lines.append(p + "} else {")
                gen(s[2], ind + 1)
                lines.append(p + "}")

    gen(prog["main"], 1)
    # pt_t is 16 bits wide and stores __LINE__: restart the line numbering for every function so that a large generated
    # file does not run past 65535 (labels only need to be unique within one function)
    # The base line differs from function to function: a resume point is a line number, and any of 1..65535 may be one.
    emit_count[0] += 1
    base = LINE_BASES[emit_count[0] % len(LINE_BASES)] if emit_count[0] % 3 else 1 + (emit_count[0] * 7919) % 65300
    base = max(1, min(base, 65535 - len(lines) - 6))
    out.append("#line %d\nstatic int %s(vp_ctx_t *c)\n{\n\tPT_BEGIN(&c->pt);\n%s\n\tPT_END();\n}\n" % (base, name, "\n".join(lines)))
    if saved is not None:
        SPELL = saved


# ---------------------------------------------------------------- program set
def kids_library():
    K = []
    K.append({"main": [["eff", 11], ["yield"], ["eff", 12]], "kids": []})                                   # yields once
    K.append({"main": [["eff", 21], ["wait_until", ["tickge", "", 3]], ["eff", 22]], "kids": []})            # waits for the environment
    K.append({"main": [["set", "a", 0], ["while", ["lt", "a", 2], [["inc", "a"], ["eff", 31], ["wait"]]], ["fail"]], "kids": []})  # fails after two waits
    K.append({"main": [["eff", 41], ["exit_on", ["tickge", "", 2]], ["yield"], ["eff", 42]], "kids": []})
    K.append({"main": [["eff", 51], ["spawn", 0], ["if_child_ok", [["eff", 52]], [["eff", 53]]], ["yield"], ["eff", 54]],
              "kids": [{"main": [["inc", "b"], ["fail_on", ["ge", "b", 2]], ["yield"], ["eff", 55]], "kids": []}]})   # two levels; fails on 2nd spawn
    K.append({"main": [["eff", 61]], "kids": []})                                                          # exits at once
    return K


def blockers():
    B = [("yield", [["yield"]]), ("wait", [["wait"]]), ("wu", [["wait_until", ["tickge", "", 4]]]),
         ("wu_var", [["wait_until", ["tickge", "", 2]]])]
    for k in range(6):
        B.append(("spawn%d" % k, [["spawn", k], ["if_child_ok", [["eff", 7]], [["eff", 8]]]]))
    B.append(("wu_a", [["inc", "a"], ["wait_until", ["ge", "a", 1]]]))               # conditions on the thread's own variables
    B.append(("wu_b", [["set", "b", 2], ["wait_until", ["eq", "b", 2]], ["inc", "b"]]))
    B.append(("spawnchk2", [["spawn_check", 2]]))
    B.append(("spawnchk0", [["spawn_check", 0]]))
    B.append(("call0", [["call", 0]]))
    B.append(("call2", [["call", 2], ["eff", 9]]))
    B.append(("call5", [["call", 5]]))
    B.append(("call0_spawn0", [["call", 0], ["spawn", 0], ["if_child_ok", [["eff", 7]], [["eff", 8]]]]))      # same child pt_t driven by PT_CALL, then spawned
    B.append(("call2_spawn2", [["call", 2], ["spawn", 2], ["if_child_ok", [["eff", 7]], [["eff", 8]]]]))
    B.append(("spawn4_call4", [["spawn", 4], ["call", 4], ["eff", 9]]))
    for w in sorted(WIDE):
        B.append(("wu_" + w, [["wait_until", [w, "", 3]]]))
        B.append(("exit_" + w, [["exit_on", [w, "", 2]], ["yield"]]))
        B.append(("fail_" + w, [["yield"], ["fail_on", [w, "", 1]], ["eff", 9]]))
    return B


def contexts(body):
    """place a blocking fragment in control-flow contexts of increasing nesting"""
    e1, e2, e3 = ["eff", 1], ["eff", 2], ["eff", 3]
    yield "top", [e1] + body + [e2]
    yield "if_then", [["set", "a", 1], ["if", ["eq", "a", 1], [e1] + body + [e2], [e3]], e3]
    yield "if_else", [["if", ["eq", "a", 1], [e3], [e1] + body + [e2]], e3]
    yield "while", [["while", ["lt", "a", 3], [["inc", "a"], e1] + body + [e2]], e3]
    yield "while_in_if", [["set", "b", 1], ["if", ["ge", "b", 1], [["while", ["lt", "a", 2], [["inc", "a"]] + body + [e1]]], [e3]], e2]
    yield "if_in_while", [["while", ["lt", "a", 3], [["inc", "a"], ["if", ["eq", "a", 2], body + [e1], [e2]]]], e3]
    yield "nest3", [["while", ["lt", "a", 2], [["inc", "a"], ["set", "b", 0], ["while", ["lt", "b", 2], [["inc", "b"], ["if", ["eq", "b", 1], body, [e1]]]]]], e2]
    yield "twice", [e1] + body + [e2] + body + [e3]
    yield "exit_after", [e1] + body + [["exit_on", ["tickge", "", 1]], e2, ["yield"], e3]
    yield "fail_after", body + [["inc", "a"], ["fail_on", ["ge", "a", 1]], e2]
    yield "loop_exit", [["while", ["lt", "a", 5], [["inc", "a"]] + body + [["exit_on", ["ge", "a", 3]], e1]], e2]


def unbraced(K):
    """a single macro as the unbraced then/else branch of an if/else (dangling-else hazards)"""
    out = []
    singles = [("yield", ["yield"]), ("wait", ["wait"]), ("wu", ["wait_until", ["tickge", "", 2]]), ("exit", ["exit"]), ("fail", ["fail"]),
               ("exit_on_t", ["exit_on", ["tickge", "", 0]]), ("exit_on_f", ["exit_on", ["tickge", "", 9]]),
               ("fail_on_t", ["fail_on", ["ge", "b", 0]]), ("fail_on_f", ["fail_on", ["ge", "b", 5]]),
               ("spawn0", ["spawn", 0]), ("spawn2", ["spawn", 2]), ("call0", ["call", 0]), ("eff", ["eff", 4]),
               ("spawnchk0", ["spawn_check", 0]), ("spawnchk2", ["spawn_check", 2]), ("spawnchk4", ["spawn_check", 4])]
    for name, st in singles:
        for v in (0, 1):
            out.append({"name": "unbraced_then_%s_%d" % (name, v), "kids": K,
                        "main": [["set", "a", v], ["if", ["eq", "a", 1], [st], [["eff", 5]]], ["eff", 6], ["yield"], ["eff", 7]]})
            out.append({"name": "unbraced_else_%s_%d" % (name, v), "kids": K,
                        "main": [["set", "a", v], ["if", ["eq", "a", 1], [["eff", 5]], [st]], ["eff", 6], ["yield"], ["eff", 7]]})
    return out


def systematic():
    progs = []
    K = kids_library()
    progs += unbraced(K)
    # straight-line threads of k yields: the shape the line sweep runs at full scale (its Sweep events are judged by the closed
    # form n yields, n + 1 effects, then exit - which TLC checks here against Exec / SeqRun for k = 1..8)
    for k in range(1, 9):
        progs.append({"name": "straight_%d" % k, "main": [["eff", 1], ["yield"]] * k + [["eff", 1]], "kids": K})
    for bn, body in blockers():
        for cn, main in contexts(body):
            progs.append({"name": "%s_%s" % (cn, bn), "main": main, "kids": K})
    return progs


def rnd_stmts(r, depth, budget):
    out = []
    n = r.randint(1, 3)
    for _ in range(n):
        if budget[0] <= 0:
            break
        budget[0] -= 1
        x = r.random()
        if x < 0.18:
            out.append(["eff", r.randint(1, 9)])
        elif x < 0.28:
            out.append(["inc", r.choice(VARS)])
        elif x < 0.40:
            out.append(r.choice([["yield"], ["wait"]]))
        elif x < 0.48:
            out.append(["wait_until", ["tickge", "", r.randint(0, 6)]])
        elif x < 0.56:
            k = r.randint(0, 5)
            out.append(["spawn", k])
            if r.random() < 0.7:
                out.append(["if_child_ok", [["eff", 7]], [["eff", 8]]])
        elif x < 0.60:
            out.append(["spawn_check", r.randint(0, 5)])
        elif x < 0.64:
            out.append(["call", r.choice([0, 2, 4, 5])])
        elif x < 0.70:
            out.append(r.choice([["exit_on", ["tickge", "", r.randint(1, 8)]], ["fail_on", ["ge", r.choice(VARS), r.randint(2, 4)]]]))
        elif x < 0.85 and depth < 3:
            out.append(["if", [r.choice(["lt", "eq", "ge"]), r.choice(VARS), r.randint(0, 2)], rnd_stmts(r, depth + 1, budget),
                        rnd_stmts(r, depth + 1, budget)])
        elif depth < 3:
            v = r.choice(VARS)
            out.append(["while", ["lt", v, r.randint(1, 3)], [["inc", v]] + rnd_stmts(r, depth + 1, budget)])
        else:
            out.append(["eff", r.randint(1, 9)])
    return out


def randoms(seed, n):
    r = random.Random(seed)
    K = kids_library()
    return [{"name": "rnd%d" % i, "main": rnd_stmts(r, 0, [r.randint(3, 9)]), "kids": K} for i in range(n)]


# ---------------------------------------------------------------- TLA+ data
def tla_code(code):
    return "<<" + ", ".join('[op |-> "%s", x |-> "%s", y |-> "%s", z |-> %d, t |-> %d]' % (c["op"], c["x"], c["y"], c["z"], c["t"])
                            for c in code) + ">>"


def tla_prog(p):
    return "[main |-> %s, kids |-> <<%s>>]" % (tla_code(compile_cfg(p["main"])), ", ".join(tla_prog(k) for k in p.get("kids", [])))


def write_tla(progs, path, module):
    with open(path, "w") as f:
        f.write("---- MODULE %s ----\n\\* generated by tools/ptgen.py - do not edit\nProgs == <<\n" % module)
        f.write(",\n".join("  " + tla_prog(p) for p in progs))
        f.write("\n>>\n====\n")


def write_c(progs, path):
    out = []
    for i, p in enumerate(progs):
        emit_c("prog%d" % i, p, out)
    with open(path, "w") as f:
        f.write("/* generated by tools/ptgen.py - do not edit */\n")
        f.write("\n".join(out))
        f.write("\nstatic int (*const vp_progs[])(vp_ctx_t *) = {\n%s\n};\n" % ",\n".join("\tprog%d" % i for i in range(len(progs))))
        f.write("static const int vp_nprogs = %d;\n" % len(progs))


def write_sweep(path):
    """every line number 1..65535 as a resume point: straight-line threads of n yields (n = 64 .. 8192: the largest make
    functions of several hundred KiB of code), each line one effect and one PT_YIELD.  The functions are spread over several
    translation units of at most ~8200 blocking points each: how many blocking macros ONE translation unit may hold is not the
    property's business (an implementation may number its resume points per translation unit in 16 bits, as the code numbers
    them per line in 16 bits); <path> itself becomes the table, the parts are <path minus .c>_p<j>.c"""
    sizes = [64, 256, 1024, 8192, 128, 4096]
    parts, cur, cur_n, tab, line, k = [], [], 0, [], 1, 0
    while line <= 65535:
        n = min(sizes[k % len(sizes)], 65535 - line + 1)
        first = line
        if first == 1:            # PT_BEGIN sits on the line before the first yield, and line 0 does not exist
            first, n = 2, n - 1
        body = "\n".join("(*acc)++; PT_YIELD();" for _ in range(n))
        if cur and cur_n + n > 8200:
            parts.append(cur)
            cur, cur_n = [], 0
        cur.append("#line %d\nint sweep%d(pt_t *pt, long *acc) { PT_BEGIN(pt);\n%s\n(*acc)++; PT_END(); }\n" % (first - 1, k, body))
        cur_n += n
        tab.append((k, first, n))
        line = first + n
        k += 1
    parts.append(cur)
    names = []
    for j, fns in enumerate(parts):
        pn = path.replace(".c", "_p%d.c" % j)
        names.append(pn)
        with open(pn, "w") as f:
            f.write("/* generated by tools/ptgen.py - do not edit */\n#include <assert.h>\n#include <librfn/protothreads.h>\n" + "\n".join(fns))
    with open(path, "w") as f:
        f.write("/* generated by tools/ptgen.py - do not edit */\n")
        f.write("\n".join("int sweep%d(pt_t *, long *);" % t[0] for t in tab))
        f.write("\nstatic const struct { int (*fn)(pt_t *, long *); int first, n; } vp_sweep[] = {\n%s\n};\n"
                % ",\n".join("\t{ sweep%d, %d, %d }" % t for t in tab))
        f.write("static const int vp_nsweep = %d;\n" % len(tab))
    with open(path + ".parts", "w") as f:
        f.write("\n".join(names) + "\n")


COMMON_NAMES = ["ready", "done", "res", "ret", "r", "tmp", "cond", "i", "n", "x", "state", "pt", "child", "result", "rc", "ok",
                "flag", "expired", "timeout", "thread", "s", "p", "t", "v", "val", "lc", "status", "line", "self", "ctx"]


def write_capture(progs, names, path):
    """the same programs with the top-level thread's variable a kept in a file-scope variable of a given name (loaded from and
    stored back to the context around every invocation): an identifier of the user's own may be any name the language allows"""
    global SPELL
    out, tab = [], []
    out.append("static int %s;\n" % ", ".join("vpcap_dummy" if False else n for n in names))
    # programs whose blocking macros take a condition on the thread's own variable
    wu = [i for i, p in enumerate(progs) if p["name"].endswith(("_wu_a", "_wu_b"))]
    other = [i for i, p in enumerate(progs) if p["name"].startswith(("loop_exit_", "fail_after_"))]
    for j, nm in enumerate(names):
        for q in range(4):
            i = wu[(j * 3 + q * 7) % len(wu)] if q < 3 else other[(j * 5) % len(other)]
            SPELL = {"a": nm, "b": "c->b"}
            emit_c("cap%d_%d" % (j, q), progs[i], out)
            SPELL = {"a": "c->a", "b": "c->b"}
            out.append("static int cap%d_%d_w(vp_ctx_t *c) { %s = c->a; int vpw_ret = cap%d_%d(c); c->a = %s; return vpw_ret; }\n" % (j, q, nm, j, q, nm))
            tab.append(("cap%d_%d_w" % (j, q), i + 1))
    with open(path, "w") as f:
        f.write("/* generated by tools/ptgen.py - do not edit */\n" + "\n".join(out))
        f.write("\nstatic int (*const vp_progs[])(vp_ctx_t *) = {\n%s\n};\n" % ",\n".join("\t" + t[0] for t in tab))
        f.write("static const int vp_progidx[] = { %s };\n" % ", ".join(str(t[1]) for t in tab))
        f.write("static const int vp_nprogs = %d;\n" % len(tab))


def main():
    tag, seed, nrandom, tla_path, c_path = sys.argv[1], int(sys.argv[2]), int(sys.argv[3]), sys.argv[4], sys.argv[5]
    progs = systematic() + randoms(seed, nrandom)
    write_tla(progs, tla_path, "ProtoProgs_" + tag)
    write_c(progs, c_path)
    write_sweep(c_path.replace(".c", "_sweep.c"))
    names = COMMON_NAMES + [n for n in sys.argv[6:] if n not in COMMON_NAMES]
    write_capture(progs, names, c_path.replace(".c", "_capture.c"))
    json.dump([{"name": p["name"], "main": p["main"]} for p in progs], open(c_path + ".json", "w"))
    print(len(progs))


if __name__ == "__main__":
    main()
