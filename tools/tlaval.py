"""Tiny recursive-descent parser for TLA+ value text as printed by TLC.

Handles: integers, strings, TRUE/FALSE, model values / identifiers,
<<..>> tuples, {..} sets, [a |-> v, ..] records, (k :> v @@ ..) functions,
a..b intervals.  Returns python ints, strs, bools, lists (tuples), frozen
sorted lists for sets (tagged tuple ('set', [...])), dicts for records and
functions (function keys are converted with repr-ish `key()`).
"""


class ParseError(Exception):
    pass


class _P:
    def __init__(self, s):
        self.s = s
        self.i = 0

    def ws(self):
        s = self.s
        while self.i < len(s) and s[self.i] in " \t\r\n":
            self.i += 1

    def peek(self, t):
        self.ws()
        return self.s.startswith(t, self.i)

    def eat(self, t):
        self.ws()
        if not self.s.startswith(t, self.i):
            raise ParseError("expected %r at %d in %r" % (t, self.i, self.s[max(0, self.i - 20):self.i + 20]))
        self.i += len(t)

    def value(self):
        self.ws()
        s = self.s
        if self.i >= len(s):
            raise ParseError("eof")
        c = s[self.i]
        if s.startswith("<<", self.i):
            self.i += 2
            out = []
            if self.peek(">>"):
                self.eat(">>")
                return out
            while True:
                out.append(self.value())
                if self.peek(","):
                    self.eat(",")
                    continue
                self.eat(">>")
                return out
        if c == "{":
            self.i += 1
            out = []
            if self.peek("}"):
                self.eat("}")
                return ("set", out)
            while True:
                out.append(self.value())
                if self.peek(","):
                    self.eat(",")
                    continue
                self.eat("}")
                return ("set", out)
        if c == "[":
            self.i += 1
            out = {}
            while True:
                self.ws()
                j = self.i
                while s[self.i].isalnum() or s[self.i] == "_":
                    self.i += 1
                k = s[j:self.i]
                self.eat("|->")
                out[k] = self.value()
                if self.peek(","):
                    self.eat(",")
                    continue
                self.eat("]")
                return out
        if c == "(":
            self.i += 1
            out = {}
            while True:
                k = self.value()
                self.eat(":>")
                v = self.value()
                out[key(k)] = v
                if self.peek("@@"):
                    self.eat("@@")
                    continue
                self.eat(")")
                return out
        if c == '"':
            j = self.i + 1
            buf = []
            while s[j] != '"':
                if s[j] == "\\":
                    j += 1
                    buf.append({"n": "\n", "t": "\t"}.get(s[j], s[j]))
                else:
                    buf.append(s[j])
                j += 1
            self.i = j + 1
            return "".join(buf)
        if c == "-" or c.isdigit():
            j = self.i
            self.i += 1
            while self.i < len(s) and s[self.i].isdigit():
                self.i += 1
            v = int(s[j:self.i])
            if s.startswith("..", self.i):
                self.i += 2
                hi = self.value()
                return ("set", list(range(v, hi + 1)))
            return v
        if c.isalpha() or c == "_":
            j = self.i
            while self.i < len(s) and (s[self.i].isalnum() or s[self.i] == "_"):
                self.i += 1
            w = s[j:self.i]
            if w == "TRUE":
                return True
            if w == "FALSE":
                return False
            return w
        raise ParseError("unexpected %r at %d in %r" % (c, self.i, s[max(0, self.i - 20):self.i + 20]))


def key(k):
    if isinstance(k, (int, str, bool)):
        return k
    return repr(k)


def parse(s):
    p = _P(s)
    v = p.value()
    p.ws()
    if p.i != len(p.s):
        raise ParseError("trailing text %r" % p.s[p.i:p.i + 30])
    return v


def parse_label(lbl):
    """'Inc(1, <<2,3>>)' -> ('Inc', [1, [2,3]]);  'Rst' -> ('Rst', [])."""
    lbl = lbl.strip()
    k = lbl.find("(")
    if k < 0:
        return lbl, []
    name = lbl[:k]
    p = _P(lbl[k + 1:])
    args = []
    if p.peek(")"):
        return name, args
    while True:
        args.append(p.value())
        if p.peek(","):
            p.eat(",")
            continue
        p.eat(")")
        break
    return name, args


def parse_state(text):
    """'/\\ x = 1\n/\\ y = <<>>' -> {'x': 1, 'y': []}"""
    out = {}
    parts = text.split("/\\ ")
    for part in parts:
        part = part.strip()
        if not part:
            continue
        k = part.find(" = ")
        out[part[:k].strip()] = parse(part[k + 3:])
    return out


def flatten(v):
    """flatten a parsed value into a list of script tokens"""
    if isinstance(v, bool):
        return [str(int(v))]
    if isinstance(v, (int, str)):
        return [str(v)]
    if isinstance(v, tuple) and v and v[0] == "set":
        return [str(len(v[1]))] + [t for x in v[1] for t in flatten(x)]
    if isinstance(v, list):
        return [str(len(v))] + [t for x in v for t in flatten(x)]
    if isinstance(v, dict):
        return [t for k in sorted(v, key=str) for t in flatten(v[k])]
    raise ValueError(v)
