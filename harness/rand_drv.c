/* rand_drv.c - conformance driver for librfn/rand.c (C17).
 *   Vectors seed nrandom   states with the real result, the updated seed and the 64-bit reference, one event each
 *   Sweep nproc            all 2^31-2 states against (uint64_t)16807*s % 0x7fffffff (the oracle TLC validated on the vp_vectors) */
#define _GNU_SOURCE
#include "drv.h"
#include <sys/wait.h>
#include <librfn/rand.h>

/* the generator reached through its external symbol, and through callers whose own pointer variable has an everyday name
 * (or a name the header's own expansion uses, if it has one: the list comes from the check) */
static uint32_t (*volatile p_rand31_r)(uint32_t *) = rand31_r;
#ifdef VP_NAMES_H
#include VP_NAMES_H
#else
#define VP_NAMES(X) X(sp) X(p) X(s) X(seed) X(seedp) X(hi) X(lo) X(x) X(state) X(r) X(t) X(tmp) X(ptr) X(v) X(n) X(ret) X(res) X(a) X(q) X(rng)
#endif
#define VP_DRAW(nm) static uint32_t __attribute__((noinline)) draw_##nm(uint32_t *nm) { return rand31_r(nm); }
VP_NAMES(VP_DRAW)
#define VP_ENT(nm) draw_##nm,
static uint32_t (*const vp_draws[])(uint32_t *) = { VP_NAMES(VP_ENT) };
#define vp_NDRAW (sizeof(vp_draws) / sizeof(vp_draws[0]))
static void __attribute__((noinline)) vp_stack_fill(int byte)
{
	volatile unsigned char junk[8192];
	for (unsigned i = 0; i < sizeof(junk); i++) junk[i] = (unsigned char)byte;
}
struct vp_holder { char pad; uint32_t seeds[3]; };

static uint32_t vp_ref(uint32_t s) { return (uint32_t)(((uint64_t)16807 * s) % 0x7fffffffu); }
static void vp_vec(uint32_t s)
{
	/* where the caller keeps the state and how it reaches the generator varies from call to call */
	static unsigned how;
	uint32_t seed = s, r;
	unsigned h = how++ % (vp_NDRAW + 4);
	/* somebody else in the process uses a generator of their own - and not by the book (a state with bit 31 set, zero, the
	 * modulus itself): what this caller gets depends on its own state alone */
	if (how % 3 == 0) {
		static const uint32_t odd[] = { 0x80000000u, 0, 0x7fffffffu, 0xffffffffu };
		uint32_t other = how % 2 ? (s | 0x80000000u) : odd[(how / 6) % 4];
		(void) rand31_r(&other);
	}
	if (h < vp_NDRAW) { vp_stack_fill(h & 1 ? 0xff : 0); r = vp_draws[h](&seed); }
	else if (h == vp_NDRAW) r = p_rand31_r(&seed);
	else if (h == vp_NDRAW + 1) r = (rand31_r)(&seed);
	else if (h == vp_NDRAW + 2) {
		uint32_t *heap = malloc(sizeof(*heap));
		*heap = s; r = rand31_r(heap); seed = *heap; free(heap);
	} else {
		struct vp_holder *hd = calloc(1, sizeof(*hd));
		hd->seeds[1] = s; r = rand31_r(&hd->seeds[1]); seed = hd->seeds[1];
		if (hd->seeds[0] || hd->seeds[2] || hd->pad) r = 0;
		free(hd);
	}
	printf("{\"e\":\"R\",\"s\":[%u,%u],\"r\":[%u,%u],\"seed\":[%u,%u],\"o\":[%u,%u]}\n", s >> 16, s & 0xffff, r >> 16, r & 0xffff,
	       seed >> 16, seed & 0xffff, vp_ref(s) >> 16, vp_ref(s) & 0xffff);
}
static void vp_vectors(long seedv, long nrandom)
{
	static const uint32_t bj[] = { 0, 1, 2, 32767, 32768, 65534, 65535 };
	drv_srand(seedv);
	for (uint32_t s = 1; s < 4096; s++) vp_vec(s);
	for (uint32_t k = 0; k < 32768; k += 37) for (int j = 0; j < 7; j++) { uint32_t s = k * 65536u + bj[j]; if (s && s < 0x7fffffffu) vp_vec(s); }
	vp_vec(0x7ffffffeu); vp_vec(0x7ffffffdu); vp_vec(127773); vp_vec(127772); vp_vec(16807);
	/* states whose folded sum lands next to 2^31-1 (the single conditional subtraction): search by trajectory + random */
	uint32_t s = 1;
	for (long i = 0; i < nrandom; i++) { vp_vec(s); s = vp_ref(s); }
	for (long i = 0; i < nrandom; i++) { uint32_t x = (drv_rand() ^ (drv_rand() << 11)) & 0x7fffffffu; if (x && x != 0x7fffffffu) vp_vec(x); }
	for (long i = 0; i < nrandom; i++) {   /* results within +-2 of the reduction boundary: s = inverse(target) by stepping back is costly; sample hi-heavy seeds */
		uint32_t x = 0x7fff0000u | (drv_rand() & 0xffff);
		if (x != 0x7fffffffu) vp_vec(x);
	}
}
static void vp_sweep(int nproc)
{
	int fds[64][2];
	for (int w = 0; w < nproc; w++) {
		if (pipe(fds[w])) exit(3);
		if (fork() == 0) {
			unsigned long long bad = 0, n = 0, first = 0;
			uint32_t *heap = malloc(sizeof(*heap));
			{ uint32_t other = 0xdeadbeefu ^ (uint32_t)w; (void) rand31_r(&other); }      /* a foreign, out-of-range generator state was stepped earlier in this process */
			for (uint32_t s = 1 + w; s < 0x7fffffffu; s += nproc) {
				uint32_t seed = s, r = rand31_r(&seed), e = vp_ref(s);
				if ((r != e || seed != e || e == 0 || e >= 0x7fffffffu) && !bad++) first = s;
				/* ... the external symbol, and a state that lives on the heap */
				*heap = s;
				uint32_t r2 = p_rand31_r(heap);
				if ((r2 != e || *heap != e) && !bad++) first = s;
				n++;
			}
			unsigned long long o[3] = { n, bad, first };
			(void)!write(fds[w][1], o, sizeof(o));
			_exit(0);
		}
	}
	unsigned long long n = 0, bad = 0, first = 0;
	for (int w = 0; w < nproc; w++) {
		unsigned long long o[3] = { 0, 1, 0 };
		(void)!read(fds[w][0], o, sizeof(o));
		n += o[0]; if (o[1] && !bad) first = o[2]; bad += o[1];
		wait(NULL);
	}
	printf("{\"e\":\"Sweep\",\"n\":[%llu,%llu],\"bad\":%llu,\"first\":[%llu,%llu]}\n", n >> 16, n & 0xffff, bad > 1000000 ? 1000000 : bad, first >> 16, first & 0xffff);
}
int main(void)
{
	drv_cmd_t c;
	drv_install_handlers();
	while (drv_read(&c, stdin)) {
		if (drv_is(&c, "Vectors")) vp_vectors(drv_arg(&c, 0), drv_arg(&c, 1));
		else if (drv_is(&c, "Sweep")) { fflush(stdout); vp_sweep(drv_arg(&c, 0)); }
		else { fprintf(stderr, "rand_drv: unknown command %s\n", c.tok[0]); return 3; }
	}
	fflush(stdout);
	return 0;
}
