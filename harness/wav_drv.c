/* wav_drv.c - conformance driver for librfn/wavheader.c (C13, C14).
 *   Init [thorough]        every (prior contents, format, channels, rate, frames) tuple of the domain
 *   Decode seed nrandom    structured + random byte strings in exactly sized heap buffers
 * Each case is one ndjson event carrying inputs and everything observed; TraceWav.tla says what it must be. */
#define _GNU_SOURCE
#include "drv.h"
#include <sys/wait.h>
#include <librfn/wavheader.h>
#include <librfn/util.h>

uint32_t time_now(void) { return 0; }

static void jbytes(const char *k, const uint8_t *b, int n)
{
	printf("\"%s\":[", k);
	for (int i = 0; i < n; i++) printf("%s%u", i ? "," : "", b[i]);
	printf("]");
}
static void ju32(const char *k, uint32_t v)
{
	uint8_t b[4] = { v & 0xff, (v >> 8) & 0xff, (v >> 16) & 0xff, v >> 24 };
	jbytes(k, b, 4);
}
static void jhdr(const char *k, const rf_wavheader_t *h)
{
	printf("\"%s\":{", k);
	jbytes("chunk_id", h->chunk_id, 4); printf(",");
	ju32("chunk_size", h->chunk_size); printf(",");
	jbytes("format", h->format, 4); printf(",");
	jbytes("fmt_chunk_id", h->fmt_chunk_id, 4); printf(",");
	ju32("fmt_chunk_size", h->fmt_chunk_size);
	printf(",\"audio_format\":%u,\"num_channels\":%u,", h->audio_format, h->num_channels);
	ju32("sample_rate", h->sample_rate); printf(",");
	ju32("byte_rate", h->byte_rate);
	printf(",\"block_align\":%u,\"bits_per_sample\":%u,\"cb_size\":%u,\"valid_bits_per_sample\":%u,", h->block_align,
	       h->bits_per_sample, h->cb_size, h->valid_bits_per_sample);
	ju32("channel_mask", h->channel_mask); printf(",");
	jbytes("sub_format", h->sub_format, 16); printf(",");
	jbytes("fact_chunk_id", h->fact_chunk_id, 4); printf(",");
	ju32("fact_chunk_size", h->fact_chunk_size); printf(",");
	ju32("sample_length", h->sample_length); printf(",");
	jbytes("data_chunk_id", h->data_chunk_id, 4); printf(",");
	ju32("data_chunk_size", h->data_chunk_size);
	printf("}");
}

/* run tostring in a child: a signal (SIGFPE on a zero block_align, ...) is an observation, not the end of the driver */
static int tostring_ok(rf_wavheader_t *h)
{
	fflush(stdout);
	pid_t pid = fork();
	if (pid == 0) {
		signal(SIGFPE, SIG_DFL); signal(SIGSEGV, SIG_DFL); signal(SIGABRT, SIG_DFL);
		alarm(5);
		char *s = rf_wavheader_tostring(h);
		_exit(s ? 0 : 1);
	}
	int st = 0;
	waitpid(pid, &st, 0);
	return WIFEXITED(st) && WEXITSTATUS(st) == 0;
}

/* ------------------------------- C13: init ------------------------------- */
static void prior_fill(rf_wavheader_t *h, int kind, uint32_t rate, unsigned ch, int f)
{
	if (kind == 0) memset(h, 0, sizeof(*h));
	else if (kind == 1) memset(h, 0xA5, sizeof(*h));
	else if (kind == 2) { memset(h, 0, sizeof(*h)); rf_wavheader_init(h, 48000, 2, RF_WAVHEADER_FLOAT); rf_wavheader_set_num_frames(h, 77); }
	else {
		/* a valid-looking header for the VERY SAME rate, channels and format that did not come from init: as decoded from a
		 * file whose RIFF size counts a trailing chunk (3), with a byte rate of its own (4), or an extensible one (5) */
		memset(h, 0, sizeof(*h));
		rf_wavheader_init(h, rate, ch, (rf_wavheader_format_t)f);
		rf_wavheader_set_num_frames(h, 77);
		h->chunk_size += 30;
		if (kind == 4) { h->byte_rate += 1; h->sample_length += 5; }
		if (kind == 5) {
			h->audio_format = 0xfffe; h->chunk_size += 40 - h->fmt_chunk_size; h->fmt_chunk_size = 40; h->cb_size = 22;
			h->valid_bits_per_sample = h->bits_per_sample; h->channel_mask = 3;
			h->sub_format[0] = f == 2 ? 3 : 1;
			for (int i = 2; i < 16; i++) h->sub_format[i] = (uint8_t)(0x40 + i);
		}
	}
}
static uint32_t frames0_of(int prior, uint32_t frames) { return prior == 1 ? 0xffffffffu : (frames * 7u + 3u) % 5000u; }
static int force_frames0_set;
static uint32_t force_frames0;
static void init_case(int prior, int f, unsigned ch, uint32_t rate, uint32_t frames)
{
	rf_wavheader_t *h = malloc(sizeof(*h)), *d = malloc(sizeof(*d));
	uint8_t *buf = malloc(128);
	prior_fill(h, prior, rate, ch, f);
	rf_wavheader_init(h, rate, ch, (rf_wavheader_format_t)f);
	/* prior kinds 0 and 2: the frame count is set twice (a first, different count, then the final one) */
	uint32_t frames0 = force_frames0_set ? force_frames0 : frames0_of(prior, frames);
	if (force_frames0_set || frames0 != 0xffffffffu)
		rf_wavheader_set_num_frames(h, frames0);
	rf_wavheader_set_num_frames(h, frames);
	int val = rf_wavheader_validate(h);
	memset(buf, 0xEE, 128);
	int el = rf_wavheader_encode(h, buf, 128);
	int dl = -1000;
	memset(d, 0x5A, sizeof(*d));
	if (el > 0 && el <= 128) {
		uint8_t *exact = malloc(el);
		memcpy(exact, buf, el);
		dl = rf_wavheader_decode(exact, el, d);
		free(exact);
	}
	printf("{\"e\":\"Init\",\"prior\":%d,\"f\":%d,\"ch\":%u,", prior, f, ch);
	ju32("rate", rate); printf(",");
	ju32("frames", frames); printf(",\"twice\":%d,", force_frames0_set || frames0 != 0xffffffffu);
	ju32("frames0", (!force_frames0_set && frames0 == 0xffffffffu) ? 0 : frames0); printf(",");
	jhdr("h", h);
	printf(",\"val\":%d,\"enclen\":%d,", val, el);
	jbytes("enc", buf, el > 0 && el <= 128 ? el : 0);
	printf(",\"declen\":%d,", dl);
	jhdr("dec", d);
	printf(",\"ts\":%d}\n", tostring_ok(h));
	free(h); free(d); free(buf);
}
static void gen_init(int thorough)
{
	static const unsigned chs[] = { 1, 2, 6, 255, 3 };
	static const uint32_t rates[] = { 1, 8000, 44100, 192000, 1u << 27, (1u << 28) + 1, 0x3fffffffu };
	/* the largest files that fit: the RIFF chunk size (36 or, with a fact chunk, 50 bytes more than the sample data) in its
	 * last few values below 2^32 */
	for (int f = 0; f < 3; f++)
		for (int c = 0; c < 5; c++) {
			unsigned ba = chs[c] * (f == 0 ? 2 : 4);
			uint32_t top = (0xffffffffu - (f == 2 ? 50 : 36)) / ba;
			for (uint32_t k = 0; k < 6 && k <= top; k++)
				init_case(k % 3, f, chs[c], k & 1 ? 8000 : 44100, top - k);
		}
	for (int prior = 0; prior < 6; prior++)
		for (int f = 0; f < 3; f++)
			for (int c = 0; c < 4; c++)
				for (int r = 0; r < 7; r++) {
					if (prior >= 3 && (r > 3 || (!thorough && (c + r + prior) % 2))) continue;
					unsigned ba = chs[c] * (f == 0 ? 2 : 4);
					if ((uint64_t)rates[r] * ba > 0xffffffffull) continue;      /* scope: sizes fit in 32 bits */
					if (r >= 4 && prior == 1) continue;
					uint32_t fr[] = { 0, 1, 2, 1000, 65536, (0xffffffffu - 64) / ba };
					for (int k = 0; k < 6; k++) {
						if (!thorough && prior && (k == 2 || k == 4)) continue;
						init_case(prior, f, chs[c], rates[r], fr[k]);
					}
				}
	/* a first frame count whose sizes do not fit 32 bits (out of scope for that call), then one that is in scope: the second
	 * call must describe the file whatever the first one left behind */
	force_frames0_set = 1;
	for (int f = 0; f < 3; f++)
		for (int c = 0; c < 3; c++) {
			unsigned ba = chs[c] * (f == 0 ? 2 : 4);
			uint32_t firsts[] = { 0x7fffffffu, 0xffffffffu, 0xffffffffu / ba, 0xffffffffu / ba + 1, (0xffffffffu - 20) / ba, 0x80000000u / ba, 0x80000000u };
			for (unsigned k = 0; k < sizeof(firsts) / sizeof(firsts[0]); k++) {
				force_frames0 = firsts[k];
				init_case(0, f, chs[c], 44100, 1000);
				init_case(2, f, chs[c], 8000, (k & 1) ? 0 : 7);
			}
		}
	force_frames0_set = 0;
	if (thorough)
		for (int i = 0; i < 3000; i++) {
			unsigned ch = 1 + drv_below(300), f = drv_below(3);
			unsigned ba = (ch * (f == 0 ? 2 : 4)) & 0xffff;
			uint32_t rate = 1 + drv_below(400000);
			uint32_t frames = ba ? drv_rand() % ((0xffffffffu - 64) / ba + 1) : 0;
			init_case(drv_below(3), f, ch, rate, frames);
		}
}

/* ------------------------------ C14: decode ------------------------------ */
static int base_header(int kind, uint8_t *buf);
static void decode_case(const uint8_t *src, int sz)
{
	uint8_t *exact = malloc(sz ? sz : 1);      /* exactly sized: a one-byte over-read is an ASan report */
	memcpy(exact, src, sz);
	rf_wavheader_t *h = malloc(sizeof(*h));
	/* what the caller's structure held before: poison, zeros, or a header decoded into it earlier (extensible / float) */
	static unsigned prior;
	static uint8_t pbuf[256];
	switch (prior++ % 5) {
	case 0: case 1: memset(h, 0x3C, sizeof(*h)); break;
	case 2: memset(h, 0, sizeof(*h)); break;
	case 3: memset(h, 0, sizeof(*h)); rf_wavheader_decode(pbuf, base_header(3, pbuf), h); break;
	case 4: memset(h, 0, sizeof(*h)); rf_wavheader_decode(pbuf, base_header(2, pbuf), h); break;
	}
	int ret = rf_wavheader_decode(sz ? exact : exact, sz, h);
	int ro = memcmp(exact, src, sz) == 0;        /* the input is const: it must read back as it was */
	int val = rf_wavheader_validate(h);
	int fmt = rf_wavheader_get_format(h);
	int ts = tostring_ok(h);
	printf("{\"e\":\"Decode\",\"sz\":%d,", sz);
	jbytes("b", src, sz);
	printf(",\"ret\":%d,\"val\":%d,\"fmt\":%d,\"ts\":%d,\"ro\":%d,", ret, val, fmt, ts, ro);
	jhdr("h", h);
	int relen = -1000;
	uint8_t *re = NULL;
	if (ret >= 0 && ret <= sz && ret <= 200000) {
		re = malloc(ret ? ret : 1);
		memset(re, 0xEE, ret);
		relen = rf_wavheader_encode(h, re, ret);
	}
	printf(",\"relen\":%d,", relen);
	jbytes("re", re, (re && relen == ret) ? ret : 0);
	printf("}\n");
	free(re); free(h); free(exact);
}
static int base_header(int kind, uint8_t *buf)
{
	rf_wavheader_t h;
	memset(&h, 0, sizeof(h));
	switch (kind) {
	case 0: rf_wavheader_init(&h, 44100, 1, RF_WAVHEADER_S16LE); rf_wavheader_set_num_frames(&h, 10); break;
	case 1: rf_wavheader_init(&h, 48000, 2, RF_WAVHEADER_S32LE); rf_wavheader_set_num_frames(&h, 3); break;
	case 2: rf_wavheader_init(&h, 44100, 2, RF_WAVHEADER_FLOAT); rf_wavheader_set_num_frames(&h, 5); break;
	case 3: /* extensible with the 22-byte extension */
		rf_wavheader_init(&h, 96000, 6, RF_WAVHEADER_S32LE);
		h.fmt_chunk_size = 40; h.audio_format = 0xfffe; h.cb_size = 22; h.valid_bits_per_sample = 24; h.channel_mask = 0x3f;
		for (int i = 0; i < 16; i++) h.sub_format[i] = 0x10 + i;
		h.chunk_size = 4 + 8 + 40 + 8;
		rf_wavheader_set_num_frames(&h, 2);
		break;
	case 4: /* 18-byte fmt chunk, cb_size 0 */
		rf_wavheader_init(&h, 8000, 1, RF_WAVHEADER_S16LE);
		h.fmt_chunk_size = 18; h.chunk_size = 4 + 8 + 18 + 8;
		break;
	case 6: /* PCM with a fact chunk (legal, though init never produces it): spliced into the byte image below */
		rf_wavheader_init(&h, 22050, 2, RF_WAVHEADER_S16LE);
		break;
	case 5: /* 21-byte fmt chunk: cb_size 3 and three ignored bytes */
		rf_wavheader_init(&h, 8000, 1, RF_WAVHEADER_S16LE);
		h.fmt_chunk_size = 21; h.cb_size = 3; h.chunk_size = 4 + 8 + 21 + 8;
		break;
	}
	memset(buf, 0, 256);
	int n = rf_wavheader_encode(&h, buf, 256);
	if (kind == 5) { buf[38] = 0xAA; buf[39] = 0xBB; buf[40] = 0xCC; }   /* the ignored bytes are not zero on the wire */
	if (kind == 6 && n == 44) {          /* the header is written by hand, not by the encoder under test */
		memmove(buf + 48, buf + 36, 8);
		memcpy(buf + 36, "fact", 4); buf[40] = 12; buf[41] = buf[42] = buf[43] = 0; buf[44] = 9; buf[45] = buf[46] = buf[47] = 0;
		buf[4] += 12;
		n = 56;
	}
	return n;
}
static void put32(uint8_t *p, uint32_t v) { p[0] = v; p[1] = v >> 8; p[2] = v >> 16; p[3] = v >> 24; }
static void gen_decode(long seed, int nrandom)
{
	static const uint32_t sizes[] = { 0, 1, 15, 16, 17, 18, 19, 20, 40, 41, 0x7fffffffu, 0x80000000u, 0x80000011u, 0x80000012u,
					  0xfffffff3u, 0xfffffff4u, 0xfffffffeu, 0xffffffffu, 0x10000, 0xffff, 0xffffffe4u, 0xffffffe5u, 0xfffffff0u,
					  0xffffffd0u, 0xc0000000u };
	static const unsigned cbs[] = { 0, 1, 21, 22, 23, 0xffff };
	uint8_t buf[300], m[300];
	drv_srand(seed);
	for (int kind = 0; kind < 7; kind++) {
		int n = base_header(kind, buf);
		for (int k = 0; k <= n; k++) decode_case(buf, k);                 /* every truncation point */
		decode_case(buf, n);
		memcpy(m, buf, n); memset(m + n, 0x99, 8); decode_case(m, n + 8);   /* trailing sample data */
		for (unsigned s = 0; s < sizeof(sizes) / sizeof(sizes[0]); s++) {   /* hostile size fields */
			memcpy(m, buf, n); put32(m + 16, sizes[s]); decode_case(m, n); memset(m + n, 0, 20); decode_case(m, n + 20);
			memcpy(m, buf, n); put32(m + 4, sizes[s]); decode_case(m, n);
			memcpy(m, buf, n); put32(m + 16, sizes[s]); put32(m + 4, 0xffffffffu); decode_case(m, n); memset(m + n, 0, 20); decode_case(m, n + 20);
			memcpy(m, buf, n); put32(m + n - 4, sizes[s]); decode_case(m, n);
			if (kind == 2) { memcpy(m, buf, n); put32(m + 42, sizes[s]); decode_case(m, n); }
			for (unsigned c = 0; c < 6; c++) {
				memcpy(m, buf, n); memset(m + n, 0x42, 40);
				put32(m + 16, sizes[s]); m[36] = cbs[c] & 0xff; m[37] = cbs[c] >> 8;
				decode_case(m, n); decode_case(m, n + 40);
			}
		}
		for (int off = 0; off < n; off++) {                               /* every byte corrupted */
			memcpy(m, buf, n); m[off] ^= 0x20; decode_case(m, n);
			memcpy(m, buf, n); m[off] = 0; decode_case(m, n);
			memcpy(m, buf, n); m[off] = 0xff; decode_case(m, n);
		}
		for (int off = 32; off < 36; off++) { memcpy(m, buf, n); m[32] = m[33] = 0; m[off] = 0; decode_case(m, n); } /* block_align 0 */
	}
	/* an ignored fmt extension larger than 64 KiB */
	{
		int ext = 70000, n = base_header(5, buf);
		uint8_t *big = calloc(1, n + ext);
		memcpy(big, buf, 38);
		put32(big + 16, 18 + ext);
		put32(big + 4, 4 + 8 + 18 + ext + 8);
		memset(big + 38, 0x5a, ext);
		memcpy(big + 38 + ext, buf + 41, n - 41);
		decode_case(big, 38 + ext + (n - 41));
		decode_case(big, 38 + ext + (n - 41) - 1);
		free(big);
	}
	/* combinations of field values (several fields at once): format tag x bits x block_align x channels x sub-format tag */
	{
		static const unsigned fmts[] = { 0, 1, 3, 0xfffe }, bitsv[] = { 0, 1, 4, 7, 8, 16, 32 }, bas[] = { 0, 1, 4 }, chv[] = { 0, 1, 2 }, tags[] = { 0, 1, 3, 0xfffe };
		for (int kind = 0; kind < 6; kind += 3)            /* a 44-byte PCM header and the 68-byte extensible one */
			for (unsigned a = 0; a < 4; a++) for (unsigned b = 0; b < 7; b++) for (unsigned c = 0; c < 3; c++)
				for (unsigned d = 0; d < 3; d++) for (unsigned e = 0; e < (kind == 3 ? 4u : 1u); e++) {
					int n = base_header(kind, buf);
					memcpy(m, buf, n);
					m[20] = fmts[a] & 0xff; m[21] = fmts[a] >> 8;
					m[22] = chv[d]; m[23] = 0;
					m[32] = bas[c]; m[33] = 0;
					m[34] = bitsv[b]; m[35] = 0;
					if (kind == 3) { m[44] = tags[e] & 0xff; m[45] = tags[e] >> 8; }
					decode_case(m, n);
				}
	}
	/* well-known RIFF chunk ids where the decoder expects "data" (and, for the headers that have one, "fact"), each followed
	 * by a payload and a real data chunk: whatever is accepted must re-encode to the bytes that were consumed */
	{
		static const char *known[] = { "LIST", "list", "cue ", "smpl", "bext", "JUNK", "junk", "PEAK", "id3 ", "fact", "data", "fmt ", "RIFF", "WAVE", "PAD ", "INFO" };
		static const char *own[] = { "fact", "data", "fmt ", "riff", "wave" };
		static char ids[16 + 5 * 17][5];
		static const unsigned plens[] = { 0, 1, 4, 26, 27 };
		unsigned nids = 0;
		for (unsigned i = 0; i < 16; i++) strcpy(ids[nids++], known[i]);
		/* the ids the codec itself looks for, in every spelling that differs only in letter case, and with one bit flipped */
		for (unsigned w = 0; w < 5; w++) {
			for (unsigned v = 1; v < 16; v++) {
				strcpy(ids[nids], own[w]);
				for (int b = 0; b < 4; b++) if ((v >> b & 1) && ids[nids][b] >= 'a' && ids[nids][b] <= 'z') ids[nids][b] -= 32;
				if (strcmp(ids[nids], own[w])) nids++;
			}
			strcpy(ids[nids], own[w]); ids[nids++][1] ^= 0x01;
			strcpy(ids[nids], own[w]); ids[nids++][3] ^= 0x80;
		}
		/* the same ids where the decoder expects "fmt " (a chunk in front of the format chunk), with sizes of every magnitude:
		 * whatever the decoder makes of it, it reads only the bytes it was given */
		{
			static const uint32_t hs[] = { 0, 1, 4, 16, 28, 0x7fffffffu, 0x80000000u, 0xffffffc0u, 0xffffffecu, 0xfffffff0u, 0xffffffffu, 0xffffff00u };
			for (int kind = 0; kind < 4; kind += 3)
				for (unsigned i = 0; i < nids; i++)
					for (unsigned h = 0; h < sizeof(hs) / sizeof(hs[0]); h++) {
						int n = base_header(kind, buf);
						memset(m, 0, sizeof(m));
						/* (a) the id replaces "fmt " in place; (b) a whole extra chunk header is put in front of the fmt chunk */
						memcpy(m, buf, n); memcpy(m + 12, ids[i], 4); put32(m + 16, hs[h]);
						decode_case(m, n);
						if (h % 3 == 0) decode_case(m, 20);
						memcpy(m, buf, 12); memcpy(m + 12, ids[i], 4); put32(m + 16, hs[h]); memcpy(m + 20, buf + 12, n - 12);
						put32(m + 4, n);
						decode_case(m, n + 8);
					}
		}
		for (int kind = 0; kind < 7; kind++)
			for (unsigned i = 0; i < nids; i++)
				for (unsigned pl = 0; pl < 5; pl++) {
					if (i >= 16 && pl != 0 && pl != 2) continue;
					int n = base_header(kind, buf);
					int has_fact = (kind == 2 || kind == 6);
					for (int where = 0; where <= has_fact; where++) {
						memset(m, 0, sizeof(m));
						memcpy(m, buf, n);
						int at = where ? n - 8 - 12 : n - 8;         /* the fact chunk sits 12 bytes before the data chunk */
						memcpy(m + at, ids[i], 4);
						if (!where) put32(m + at + 4, plens[pl]);
						int tail = n;
						for (unsigned k = 0; k < plens[pl]; k++) m[tail++] = 0x30 + k;
						memcpy(m + tail, "data", 4); put32(m + tail + 4, 16); tail += 8;
						for (int k = 0; k < 16; k++) m[tail++] = 0x80 + k;
						put32(m + 4, tail - 8);
						decode_case(m, tail); decode_case(m, n); decode_case(m, n + plens[pl] + 8); decode_case(m, n + plens[pl] + 7);
					}
				}
	}
	/* extreme values in the fields rf_wavheader_tostring prints (the longest text it can be asked for) */
	{
		static const unsigned fm[] = { 1, 3, 7, 0xfffe }, chn[] = { 1, 9999, 10000, 65535 }, ba[] = { 1, 2, 4, 0xffff }, bi[] = { 8, 16, 32 };
		static const uint32_t rt[] = { 1, 999999999u, 1000000000u, 0x7fffffffu, 0x80000000u, 0xffffffffu }, ds[] = { 0, 0x7fffffffu, 0x80000000u, 0xffffffffu };
		int n = base_header(0, buf);
		for (unsigned a = 0; a < 4; a++) for (unsigned b = 0; b < 4; b++) for (unsigned c = 0; c < 6; c++)
			for (unsigned d = 0; d < 4; d++) for (unsigned e = 0; e < 4; e++) for (unsigned f = 0; f < 3; f++) {
				if ((a + b + c + d + e + f) % 3 == 1 && a != 2) continue;      /* thin out; keep every unknown-format combination */
				memcpy(m, buf, n);
				m[20] = fm[a] & 0xff; m[21] = fm[a] >> 8; m[22] = chn[b] & 0xff; m[23] = chn[b] >> 8;
				put32(m + 24, rt[c]); m[32] = ba[d] & 0xff; m[33] = ba[d] >> 8; m[34] = bi[f]; m[35] = 0;
				put32(m + 40, ds[e]);
				decode_case(m, n);
			}
	}
	for (int i = 0; i < nrandom; i++) {
		int kind = drv_below(6), n = base_header(kind, buf);
		int len = n;
		memcpy(m, buf, n);
		memset(m + n, 0, 40);
		switch (drv_below(4)) {
		case 0: for (int k = drv_below(4) + 1; k > 0; k--) m[drv_below(n)] = drv_rand(); break;
		case 1: put32(m + 16, drv_below(2) ? drv_below(64) : drv_rand() | 0x80000000u); len = n + drv_below(40); break;
		case 2: len = drv_below(120); for (int k = 0; k < len; k++) m[k] = drv_rand(); if (drv_below(2) && len >= 12) { memcpy(m, "RIFF", 4); memcpy(m + 8, "WAVE", 4); } break;
		case 3: m[36 + drv_below(2)] = drv_rand(); put32(m + 16, 18 + drv_below(30)); len = n + drv_below(40); break;
		}
		decode_case(m, drv_below(8) ? len : (int)drv_below(len + 1));
	}
}

int main(void)
{
	drv_cmd_t c;
	drv_install_handlers();
	while (drv_read(&c, stdin)) {
		if (drv_is(&c, "Init")) gen_init(drv_arg(&c, 0));
		else if (drv_is(&c, "Decode")) gen_decode(drv_arg(&c, 0), drv_arg(&c, 1));
		else { fprintf(stderr, "wav_drv: unknown command %s\n", c.tok[0]); return 3; }
	}
	fflush(stdout);
	return 0;
}
