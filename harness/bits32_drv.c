/* bits32_drv.c - librfn/bitops.c and constexpr.h built for an ILP32 target (gcc -m32, freestanding; see rand32_drv.c) (C16).
 * Vectors as ordinary B32 / B64 events (TLC validates the real results and this program's table oracle on them), then a sweep
 * of the 32-bit argument space: every STRIDE-th block of 2^16 arguments plus the blocks at the ends and in the middle. */
#include <stdint.h>
#include <librfn/bitops.h>
#include <librfn/constexpr.h>
#ifndef STRIDE
#define STRIDE 16
#endif

static long sys3(long n, long a, long b, long c)
{
	long r;
	__asm__ volatile("int $0x80" : "=a"(r) : "a"(n), "b"(a), "c"(b), "d"(c) : "memory");
	return r;
}
static char obuf[8192];
static unsigned olen;
static void flush(void) { if (olen) sys3(4, 1, (long)obuf, olen); olen = 0; }
static void puts_(const char *s) { while (*s) { if (olen == sizeof(obuf)) flush(); obuf[olen++] = *s++; } }
static void putu(uint32_t v) { char t[12]; int n = 0; do { t[n++] = '0' + v % 10; v /= 10; } while (v); while (n) { char c[2] = { t[--n], 0 }; puts_(c); } }
static void puti(int v) { if (v < 0) { puts_("-"); putu((uint32_t)(-(v + 1)) + 1); } else putu((uint32_t)v); }
void verif_assert_fail(void) { puts_("{\"e\":\"FATAL\",\"what\":\"assert\"}\n"); flush(); sys3(1, 2, 0, 0); for (;;) ; }

/* oracle: the definitions, by table (bit loops fill the table) */
static uint8_t tpop[256], tclz[256], tctz[256];
static void mktab(void)
{
	for (int v = 0; v < 256; v++) {
		int p = 0, z = 8, t = 8;
		for (int i = 0; i < 8; i++) if (v & (1 << i)) { p++; z = 7 - i; if (t == 8) t = i; }
		tpop[v] = p; tclz[v] = z; tctz[v] = t;
	}
}
static int o_pop(uint32_t x) { return tpop[x & 255] + tpop[(x >> 8) & 255] + tpop[(x >> 16) & 255] + tpop[x >> 24]; }
static int o_clz(uint32_t x) { return x >> 24 ? tclz[x >> 24] : (x >> 16) ? 8 + tclz[x >> 16] : (x >> 8) ? 16 + tclz[x >> 8] : 24 + tclz[x]; }
static int o_ctz(uint32_t x) { return (x & 255) ? tctz[x & 255] : ((x >> 8) & 255) ? 8 + tctz[(x >> 8) & 255] : ((x >> 16) & 255) ? 16 + tctz[(x >> 16) & 255] : 24 + tctz[x >> 24]; }
static int o_pop64(uint64_t c) { return o_pop((uint32_t)c) + o_pop((uint32_t)(c >> 32)); }
static int o_lssb64(uint64_t c) { return !c ? -1 : (uint32_t)c ? o_ctz((uint32_t)c) : 32 + o_ctz((uint32_t)(c >> 32)); }

static void v32(uint32_t x)
{
	puts_("{\"e\":\"B32\",\"x\":["); putu(x & 255); puts_(","); putu((x >> 8) & 255); puts_(","); putu((x >> 16) & 255); puts_(","); putu(x >> 24);
	puts_("],\"bitcnt\":"); puti(bitcnt(x)); puts_(",\"clz\":"); puti(clz(x)); puts_(",\"ctz\":"); puti(ctz(x));
	puts_(",\"ilog2\":"); puti(x ? ilog2(x) : -1);
	puts_(",\"o\":["); puti(o_pop(x)); puts_(","); puti(o_clz(x)); puts_(","); puti(o_ctz(x)); puts_("]}\n");
}
static void v64(uint64_t c)
{
	volatile uint64_t rt = c;
	puts_("{\"e\":\"B64\",\"c\":[");
	for (int i = 0; i < 8; i++) { if (i) puts_(","); putu((uint32_t)((c >> (8 * i)) & 0xff)); }
	puts_("],\"pop\":"); puti((int)const_pop(rt)); puts_(",\"lssb\":"); puti((int)const_lssb(rt)); puts_(",\"popk\":-99,\"lssbk\":-99,\"lneg\":");
	puti(const_lssb(rt) < 0 ? 1 : 0); puts_(",\"pneg\":"); puti(const_pop(rt) < 0 ? 1 : 0);
	puts_(",\"o\":["); puti(o_pop64(c)); puts_(","); puti(o_lssb64(c)); puts_("]}\n");
}
void _start(void)
{
	mktab();
	v32(0); v32(0xffffffffu);
	for (int i = 0; i < 32; i++) { v32(1u << i); v32(~(1u << i)); v32(0xffffffffu << i); v32(0xffffffffu >> i); }
	uint32_t r = 12345;
	for (int i = 0; i < 400; i++) { r = r * 1103515245u + 12345u; v32(r ^ (r >> 13)); }
	v64(0); v64(~0ull);
	for (int i = 0; i < 64; i++) { v64(1ull << i); v64(~0ull << i); v64((1ull << i) | (1ull << 63)); v64(~0ull >> i); }
	uint32_t bad = 0, first = 0, nblk = 0;
	for (uint32_t blk = 0; blk < 65536; blk++) {
		if (STRIDE > 1 && (blk % STRIDE) != 0 && blk != 65535 && blk != 32768 && blk != 32767 && blk != 1) continue;
		uint32_t x = blk << 16;
		for (uint32_t k = 0; k < 65536; k++, x++) {
			int p = o_pop(x), z = x ? o_clz(x) : 32, t = x ? o_ctz(x) : 32;
			int ok = bitcnt(x) == p && clz(x) == z && ctz(x) == t && (!x || ilog2(x) == 31 - z);
			if (!ok && !bad++) first = x;
		}
		nblk++;
	}
	puts_("{\"e\":\"Sweep32\",\"n_hi\":"); putu(nblk); puts_(",\"n_lo\":0,\"bad\":"); putu(bad > 1000000 ? 1000000 : bad);
	puts_(",\"first\":["); putu(first & 255); puts_(","); putu((first >> 8) & 255); puts_(","); putu((first >> 16) & 255); puts_(","); putu(first >> 24); puts_("],\"ilp32\":1}\n");
	flush();
	sys3(1, 0, 0, 0);
	for (;;) ;
}
