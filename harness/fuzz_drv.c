/* fuzz_drv.c - conformance driver for librfn/fuzz.c (growth module X05).  Random seed n */
#include "drv.h"
#include <librfn/fuzz.h>

uint32_t time_now(void) { return 0; }
static long pick(long lim)
{
	unsigned x = drv_below(8);
	long v = x < 2 ? (long)drv_below(5) : x < 5 ? (long)drv_below(200) : (long)drv_below(lim);
	return drv_below(3) ? v : -v;
}
int main(void)
{
	drv_cmd_t c;
	drv_install_handlers();
	while (drv_read(&c, stdin)) {
		if (!drv_is(&c, "Random")) { fprintf(stderr, "fuzz_drv: unknown command %s\n", c.tok[0]); return 3; }
		drv_srand(drv_arg(&c, 0));
		long n = drv_arg(&c, 1);
		for (long i = 0; i < n; i++) {
			/* floats are exact below 2^12 * (2^10 + 1) < 2^24; doubles far beyond */
			long a = pick(4096), b;
			int bits = drv_below(11);
			switch (drv_below(6)) {
			case 0: b = a; break;
			case 1: b = -a; break;
			case 2: b = a + (long)drv_below(5) - 2; break;
			case 3: { long s = a < 0 ? -1 : 1, m = a < 0 ? -a : a;   /* right on the boundary m * (1 + 2^-bits), and one off */
				  b = s * (m + (m >> bits) + (long)drv_below(3) - 1); break; }
			default: b = pick(4096); break;
			}
			if (b > 4095) b = 4095;
			if (b < -4095) b = -4095;
			double dl = 1.0 + 1.0 / (double)(1 << bits);
			printf("{\"e\":\"B\",\"a\":%ld,\"b\":%ld,\"bits\":%d,\"d\":%d,\"f\":%d,\"dr\":%d,\"fr\":%d,\"dd\":%d}\n", a, b, bits,
			       !!fuzzcmpb((double)a, (double)b, bits), !!fuzzcmpbf((float)a, (float)b, bits),
			       !!fuzzcmpb((double)b, (double)a, bits), !!fuzzcmpbf((float)b, (float)a, bits), !!fuzzcmp((double)a, (double)b, dl));
			long e = drv_below(4) ? (long)drv_below(6) : (long)drv_below(5000);
			if (drv_below(4) == 0) e = (a > b ? a - b : b - a) + (long)drv_below(3) - 1;     /* the boundary again */
			if (e < 0) e = 0;
			printf("{\"e\":\"E\",\"a\":%ld,\"b\":%ld,\"eps\":%ld,\"d\":%d,\"f\":%d,\"dr\":%d,\"fr\":%d}\n", a, b, e,
			       !!fuzzcmpe((double)a, (double)b, (double)e), !!fuzzcmpef((float)a, (float)b, (float)e),
			       !!fuzzcmpe((double)b, (double)a, (double)e), !!fuzzcmpef((float)b, (float)a, (float)e));
		}
	}
	fflush(stdout);
	return 0;
}
