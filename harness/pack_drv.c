/* pack_drv.c - conformance driver for librfn/pack.c (C12).  Script in, ndjson out.
 * The buffer is an exactly sized heap block (ASan redzones) between two guard words that are checked after every call. */
#define _GNU_SOURCE
#include "drv.h"
#include <sys/mman.h>
#include <librfn/pack.h>

/* operations the header declares but pack.c does not (yet) define: used only if the library provides them */
#pragma weak rf_pack_char
#pragma weak rf_pack_s8
#pragma weak rf_pack_u8
#pragma weak rf_pack_s16be
#pragma weak rf_pack_s32be
#pragma weak rf_pack_u32be
#pragma weak rf_unpack_s16be
#pragma weak rf_unpack_s16le
#pragma weak rf_unpack_u16be
#pragma weak rf_unpack_s32be
#pragma weak rf_unpack_s32le
#pragma weak rf_unpack_u32be
static uint8_t *area, *buf;
static int size, asize;      /* asize: the allocated size (guards sit behind it); size shrinks when the packer is re-initialised over what it consumed */
static rf_pack_t pk;
#define GUARD 16

static uint8_t *bigmap;
static size_t bigmaplen;
static int is_big;
#define WINDOW 64
/* a buffer of 2^31 + extra bytes: address space only (PROT_NONE, never touched) except for the first page, of which the
 * first WINDOW bytes are the modelled window */
static void reset_big(unsigned extra)
{
	if (bigmap) munmap(bigmap, bigmaplen);
	free(area); area = NULL;
	bigmaplen = (size_t)0x80000000u + extra + 8192;
	bigmap = mmap(NULL, bigmaplen, PROT_NONE, MAP_PRIVATE | MAP_ANONYMOUS | MAP_NORESERVE, -1, 0);
	if (bigmap == MAP_FAILED || mprotect(bigmap, 4096, PROT_READ | PROT_WRITE)) { fprintf(stderr, "pack_drv: cannot reserve address space\n"); exit(3); }
	buf = bigmap;
	size = WINDOW;
	is_big = 1;
	for (int i = 0; i < WINDOW; i++)
		buf[i] = (uint8_t)(((i + 1) * 37 + 11) % 256);
	memset(buf + WINDOW, 0xC3, 4096 - WINDOW);
	rf_pack_init(&pk, buf, 0x80000000u + extra);
	printf("{\"e\":\"ResetBig\",\"window\":%d,\"extra\":%u}\n", WINDOW, extra);
}
static void reset(int sz)
{
	if (bigmap) { munmap(bigmap, bigmaplen); bigmap = NULL; }
	is_big = 0;
	free(area);
	size = asize = sz;
	area = malloc(sz + 2 * GUARD);
	memset(area, 0xC3, sz + 2 * GUARD);
	buf = area + GUARD;
	for (int i = 0; i < sz; i++)
		buf[i] = (uint8_t)(((i + 1) * 37 + 11) % 256);
	rf_pack_init(&pk, buf, sz);
	printf("{\"e\":\"Reset\",\"size\":%d}\n", sz);
}
static int guards_ok(void)
{
	if (is_big) {
		for (int i = WINDOW; i < 4096; i++) if (buf[i] != 0xC3) return 0;
		return 1;
	}
	for (int i = 0; i < GUARD; i++)
		if (area[i] != 0xC3 || buf[asize + i] != 0xC3)
			return 0;
	return 1;
}
static void tail(void)
{
	printf(",\"p\":%d,\"rem\":%d,\"g\":%d,\"buf\":[", rf_pack_consumed(&pk), rf_pack_remaining(&pk), guards_ok());
	for (int i = 0; i < size; i++)
		printf("%s%u", i ? "," : "", buf[i]);
	printf("]}\n");
}
static void bytes_json(const uint8_t *b, int n)
{
	printf("[");
	for (int i = 0; i < n; i++)
		printf("%s%u", i ? "," : "", b[i]);
	printf("]");
}
/* value given as n bytes, most significant first */
static uint32_t val(const uint8_t *b, int n)
{
	uint32_t v = 0;
	for (int i = 0; i < n; i++)
		v = (v << 8) | b[i];
	return v;
}
static void do_packint(const char *op, const uint8_t *b, int n)
{
	uint32_t v = val(b, n);
	if (!strcmp(op, "PackS16le")) rf_pack_s16le(&pk, (int16_t)(uint16_t)v);
	else if (!strcmp(op, "PackU16le")) rf_pack_u16le(&pk, (uint16_t)v);
	else if (!strcmp(op, "PackU16be")) rf_pack_u16be(&pk, (uint16_t)v);
	else if (!strcmp(op, "PackS32le")) rf_pack_s32le(&pk, (int32_t)v);
	else if (!strcmp(op, "PackU32le")) rf_pack_u32le(&pk, v);
	else { fprintf(stderr, "pack_drv: bad op %s\n", op); exit(3); }
	printf("{\"e\":\"%s\",\"a\":[", op);
	bytes_json(b, n);
	printf("],\"r\":[]");
	tail();
}
static void do_packbytes(int n, int data)
{
	static uint8_t src[1 << 17];
	for (int i = 0; data && i < n; i++) src[i] = (uint8_t)(((i + 1) * 16 + 1) % 256);
	rf_pack_bytes(&pk, data ? src : NULL, n);
	printf("{\"e\":\"PackBytes\",\"a\":[%d,\"%s\"],\"r\":[]", n, data ? "data" : "null");
	tail();
}
static void do_packbytesv(const uint8_t *b, int n)
{
	uint8_t src[256];
	memcpy(src, b, n);
	rf_pack_bytes(&pk, src, n);
	printf("{\"e\":\"PackBytesV\",\"a\":[");
	bytes_json(b, n);
	printf("],\"r\":[]");
	tail();
}
static void do_unpackbytes(int n, int dst)
{
	uint8_t *d = malloc(dst && n ? n : 1);   /* exactly sized destination */
	if (dst) memset(d, 0x77, n);
	/* dst == 2: the output array lies where the cursor stands (a record whose body follows its header in memory, the packer
	 * covering the header only): used when the item does not fit - the array must come back zero-filled like any other */
	long at = rf_pack_consumed(&pk);
	if (dst == 2 && !is_big && n > 0 && at >= size && at + n <= asize && rf_pack_remaining(&pk) < n) {   /* at or past the end of what the packer covers */
		memset(buf + at, 0x77, n);
		rf_unpack_bytes(&pk, buf + at, n);
		memcpy(d, buf + at, n);
	} else
	rf_unpack_bytes(&pk, dst ? d : NULL, n);
	printf("{\"e\":\"UnpackBytes\",\"a\":[%d,\"%s\"],\"r\":", n, dst ? "data" : "null");
	bytes_json(d, dst ? n : 0);
	tail();
	free(d);
}
static void do_unpack(const char *op)
{
	uint8_t r[4];
	int n = 1;
	long sv = 0;
	if (!strcmp(op, "UnpackChar")) { char c = rf_unpack_char(&pk); r[0] = (uint8_t)c; sv = (signed char)c; }
	else if (!strcmp(op, "UnpackS8")) { int8_t s = rf_unpack_s8(&pk); r[0] = (uint8_t)s; sv = s; }
	else if (!strcmp(op, "UnpackU8")) { uint8_t u = rf_unpack_u8(&pk); r[0] = u; sv = u; }
	else if (!strcmp(op, "UnpackU16le")) { uint16_t u = rf_unpack_u16le(&pk); r[0] = u >> 8; r[1] = u & 0xff; n = 2; sv = u; }
	else if (!strcmp(op, "UnpackU32le")) { uint32_t u = rf_unpack_u32le(&pk); r[0] = u >> 24; r[1] = (u >> 16) & 0xff; r[2] = (u >> 8) & 0xff; r[3] = u & 0xff; n = 4; sv = u & 0xffff; }
	else { fprintf(stderr, "pack_drv: bad op %s\n", op); exit(3); }
	printf("{\"e\":\"%s\",\"a\":[],\"sv\":%ld,\"r\":", op, sv);
	bytes_json(r, n);
	tail();
}
static void do_rewind(void)
{
	rf_pack_init(&pk, buf, size);
	printf("{\"e\":\"Rewind\",\"a\":[],\"r\":[]");
	tail();
}

/* "flip": re-initialise the packer over exactly what it has consumed so far (pack, flip, unpack) - the size argument reads
 * the very packer that is being initialised */
static void do_flip(void)
{
	if (rf_pack_consumed(&pk) < 0 || rf_pack_consumed(&pk) > size) { do_rewind(); return; }
	rf_pack_init(&pk, buf, rf_pack_consumed(&pk));
	size = rf_pack_remaining(&pk) + rf_pack_consumed(&pk);
	printf("{\"e\":\"Flip\",\"a\":[],\"r\":[]");
	tail();
}
/* late additions to the library: each declared operation that exists is run at every amount of room; the event carries the
 * bytes in wire order (pack) or the value most significant byte first with the order its name states (unpack) */
static void wire_pack(const char *op, int n, int be, uint32_t v)
{
	uint8_t w[4];
	for (int i = 0; i < n; i++) w[i] = (uint8_t)(v >> (8 * (be ? n - 1 - i : i)));
	printf("{\"e\":\"PackWire\",\"op\":\"%s\",\"a\":[", op);
	bytes_json(w, n);
	printf("],\"r\":[]");
	tail();
}
static void wire_unpack(const char *op, int n, int be, uint32_t v)
{
	uint8_t r[4];
	for (int i = 0; i < n; i++) r[i] = (uint8_t)(v >> (8 * (n - 1 - i)));
	printf("{\"e\":\"UnpackWire\",\"op\":\"%s\",\"a\":[%d,\"%s\"],\"r\":", op, n, be ? "be" : "le");
	bytes_json(r, n);
	tail();
}
static void weak_ops(void)
{
	static const uint32_t vals[] = { 0xa1b2c3d4u, 0x00000080u, 0xffffffffu, 0x01020304u };
	for (int room = 0; room <= 6; room++)
		for (unsigned vi = 0; vi < 4; vi++) {
			uint32_t v = vals[vi];
			if (rf_pack_char) { reset(room); do_packbytes(room > 2 ? room - 2 : 0, 1); rf_pack_char(&pk, (char)v); wire_pack("rf_pack_char", 1, 1, v & 0xff); }
			if (rf_pack_s8) { reset(room); rf_pack_s8(&pk, (int8_t)v); wire_pack("rf_pack_s8", 1, 1, v & 0xff); }
			if (rf_pack_u8) { reset(room); rf_pack_u8(&pk, (int16_t)(v & 0xff)); wire_pack("rf_pack_u8", 1, 1, v & 0xff); }
			if (rf_pack_s16be) { reset(room); do_packbytes(room / 2, 0); rf_pack_s16be(&pk, (int16_t)v); wire_pack("rf_pack_s16be", 2, 1, v & 0xffff); }
			if (rf_pack_s32be) { reset(room); do_packbytes(room / 3, 1); rf_pack_s32be(&pk, (int32_t)v); wire_pack("rf_pack_s32be", 4, 1, v); }
			if (rf_pack_u32be) { reset(room); do_packbytes(room > 3 ? room - 3 : 0, 1); rf_pack_u32be(&pk, v); wire_pack("rf_pack_u32be", 4, 1, v); }
			if (rf_pack_u32be) { reset(room); rf_pack_u32be(&pk, v); wire_pack("rf_pack_u32be", 4, 1, v); }
			/* unpackers read the buffer's pattern */
			if (rf_unpack_s16be) { reset(room); do_unpackbytes(room / 2, 0); wire_unpack("rf_unpack_s16be", 2, 1, (uint16_t)rf_unpack_s16be(&pk)); }
			if (rf_unpack_s16le) { reset(room); wire_unpack("rf_unpack_s16le", 2, 0, (uint16_t)rf_unpack_s16le(&pk)); }
			if (rf_unpack_u16be) { reset(room); do_unpackbytes(room > 1 ? room - 1 : 0, 1); wire_unpack("rf_unpack_u16be", 2, 1, rf_unpack_u16be(&pk)); }
			if (rf_unpack_s32be) { reset(room); do_unpackbytes(room / 3, 1); wire_unpack("rf_unpack_s32be", 4, 1, (uint32_t)rf_unpack_s32be(&pk)); }
			if (rf_unpack_s32le) { reset(room); wire_unpack("rf_unpack_s32le", 4, 0, (uint32_t)rf_unpack_s32le(&pk)); }
			if (rf_unpack_u32be) { reset(room); do_unpackbytes(room > 3 ? room - 3 : 0, 0); wire_unpack("rf_unpack_u32be", 4, 1, rf_unpack_u32be(&pk)); }
			if (rf_unpack_u32be) { reset(room); wire_unpack("rf_unpack_u32be", 4, 1, rf_unpack_u32be(&pk)); }
		}
}
static const char *ops16[] = { "PackS16le", "PackU16le", "PackU16be" };
static const char *ops32[] = { "PackS32le", "PackU32le" };
static void sweep16(int stride)
{
	/* every 16-bit value (or every stride-th), each 16-bit operation, at fit / exact-fit / one-short positions */
	for (unsigned v = 0; v < 65536; v += (v < 512 || v > 65000 || (v & 0xff) >= 0xfe || (v & 0xff) <= 1) ? 1 : stride) {
		uint8_t b[2] = { v >> 8, v & 0xff };
		for (int o = 0; o < 3; o++) {
			int slack = (v + o) % 3;      /* 0: exact fit, 1: room to spare, 2: one byte short */
			reset(slack == 0 ? 4 : slack == 1 ? 5 : 3);
			do_packint(ops16[(o + 1) % 3], b, 2);
			do_packint(ops16[o], b, 2);
			do_rewind();
			do_unpack("UnpackU16le");
			do_unpack("UnpackU16le");
		}
	}
}
static void sweep32(int nrandom)
{
	for (int pos = 0; pos < 4; pos++)
		for (unsigned x = 0; x < 256; x++) {
			uint8_t b[4] = { 0, 0, 0, 0 };
			b[pos] = x;
			for (int o = 0; o < 2; o++) {
				reset(4 + (x + pos + o) % 3 * 2 - 1); /* 3 (short), 5, 7 */
				do_packint(ops32[o], b, 4);
				do_rewind();
				do_unpack("UnpackU32le");
			}
		}
	/* the extremes of the 32-bit range and of each half */
	static const uint32_t ext[] = { 0xffffffffu, 0xfffffffeu, 0x7fffffffu, 0x80000000u, 0, 1, 0xffff0000u, 0x0000ffffu, 0xff00ff00u, 0x00ff00ffu, 0xfffffeffu, 0x01000000u };
	for (unsigned i = 0; i < sizeof(ext) / sizeof(ext[0]); i++)
		for (int o = 0; o < 2; o++) {
			uint8_t b[4] = { ext[i] >> 24, ext[i] >> 16, ext[i] >> 8, ext[i] };
			reset(4 + o);
			do_packint(ops32[o], b, 4);
			do_rewind();
			do_unpack("UnpackU32le");
			reset(9);
			do_packint(ops32[1 - o], b, 4); do_packint(ops32[o], b, 4);
			do_flip();
			do_unpack("UnpackU32le"); do_unpack("UnpackU32le"); do_unpack("UnpackU8");
		}
	for (int i = 0; i < nrandom; i++) {
		uint8_t b[4] = { drv_rand(), drv_rand(), drv_rand(), drv_rand() };
		reset(7 + drv_below(3));
		do_packint(ops32[i & 1], b, 4);
		do_packint(ops32[(i >> 1) & 1], b, 4);
		do_rewind();
		do_unpack("UnpackU32le");
		do_unpack("UnpackU32le");
	}
}
/* items far larger than the buffer: the counters must keep counting every requested byte (scope: total < 2^31) */
static void huge(void)
{
	static const int big[] = { 65535, 65536, 65537, 70000, 131071 };
	for (int i = 0; i < 5; i++) {
		reset(i);
		do_packbytes(big[i], 0); do_packbytes(3, 1);
		uint8_t b[2] = { 1, 2 }; do_packint("PackU16le", b, 2);
		do_rewind();
		do_unpackbytes(big[i], 0); do_unpack("UnpackU16le"); do_unpackbytes(2, 1);
		reset(8);
		do_packbytes(big[i], 1);
		do_rewind();
		do_unpack("UnpackU32le");
	}
}
/* skips and pads of 2^30 bytes and more (no memory is involved: NULL source / destination, nothing fits) */
static void huger(void)
{
	uint8_t b[2] = { 1, 2 };
	reset(16);
	do_unpackbytes(0x50000000, 0); do_unpack("UnpackU16le"); do_packint("PackU16le", b, 2); do_unpackbytes(0x2fffff00, 0); do_unpack("UnpackU8");
	reset(16);
	do_unpack("UnpackU32le"); do_packbytes(0x3fffffff, 0); do_packbytes(1, 0); do_packbytes(0x20000000, 0); do_packbytes(0x1fffff00, 0); do_unpack("UnpackChar");
	reset(0);
	do_packbytes(0x7ffffff0, 0); do_packint("PackU16le", b, 2); do_unpack("UnpackU32le");
	reset(40);
	do_packbytes(8, 1); do_unpackbytes(0x40000000, 0); do_unpackbytes(0x10, 1); do_unpackbytes(0x3ffff000, 0); do_unpack("UnpackU16le");
}
/* buffers of 2^31 bytes and more: items at the start fit */
static void bigbuf(void)
{
	static const unsigned extras[] = { 0, 1, 2, 70000, 0x7fffffffu };
	uint8_t b4[4] = { 0x81, 0x02, 0xfe, 0x7f }, b2[2] = { 0xab, 0xcd };
	for (unsigned k = 0; k < sizeof(extras) / sizeof(extras[0]); k++) {
		reset_big(extras[k]);
		do_packint("PackU16le", b2, 2); do_packint("PackU32le", b4, 4); do_packbytes(9, 1); do_packint("PackU16be", b2, 2);
		do_packint("PackS32le", b4, 4); do_packbytes(5, 0); do_packint("PackS16le", b2, 2);
		rf_pack_init(&pk, buf, 0x80000000u + extras[k]);
		printf("{\"e\":\"Rewind\",\"a\":[],\"r\":[]"); tail();
		do_unpack("UnpackU16le"); do_unpack("UnpackU32le"); do_unpackbytes(9, 1); do_unpack("UnpackU16le"); do_unpack("UnpackU32le");
		do_unpackbytes(3, 0); do_unpack("UnpackChar"); do_unpack("UnpackS8"); do_unpack("UnpackU8");
	}
	reset(4);
}
static void randomseq(int nexec, int nops)
{
	huge();
	huger();
	bigbuf();
	weak_ops();
	static const char *un[] = { "UnpackChar", "UnpackS8", "UnpackU8", "UnpackU16le", "UnpackU32le" };
	for (int x = 0; x < nexec; x++) {
		reset(drv_below(4) ? drv_below(24) : drv_below(65));
		int n = 1 + drv_below(nops);
		for (int k = 0; k < n; k++) {
			uint8_t b[8];
			for (int i = 0; i < 8; i++) b[i] = drv_below(3) ? drv_rand() : (drv_below(2) ? 0xff : 0x80);
			switch (drv_below(12)) {
			case 0: do_packbytes(drv_below(4) ? drv_below(9) : 9 + drv_below(16), drv_below(2)); break;
			case 1: do_packbytesv(b, drv_below(9)); break;
			case 2: case 3: do_packint(ops16[drv_below(3)], b, 2); break;
			case 4: case 5: do_packint(ops32[drv_below(2)], b, 4); break;
			case 6: do_unpackbytes(drv_below(5) ? drv_below(9) : 9 + drv_below(16), drv_below(4) ? 1 + (drv_below(3) == 0) : 0); break;
			case 7: case 8: case 9: do_unpack(un[drv_below(5)]); break;
			case 10: if (drv_below(2)) do_rewind(); else do_flip(); break;
			case 11: do_unpack("UnpackU32le"); break;
			}
		}
	}
}

int main(void)
{
	drv_cmd_t c;
	uint8_t b[256];
	drv_install_handlers();
	reset(4);
	while (drv_read(&c, stdin)) {
		const char *op = c.tok[0];
		if (drv_is(&c, "Reset")) reset(drv_arg(&c, 0));
		else if (drv_is(&c, "PackBytes")) do_packbytes(drv_arg(&c, 0), !strcmp(c.tok[2], "data"));
		else if (drv_is(&c, "UnpackBytes")) do_unpackbytes(drv_arg(&c, 0), !strcmp(c.tok[2], "data"));
		else if (!strncmp(op, "Pack", 4)) {
			int n = drv_arg(&c, 0);
			for (int i = 0; i < n; i++) b[i] = drv_arg(&c, 1 + i);
			if (drv_is(&c, "PackBytesV")) do_packbytesv(b, n); else do_packint(op, b, n);
		}
		else if (!strncmp(op, "Unpack", 6)) do_unpack(op);
		else if (drv_is(&c, "Rewind")) do_rewind();
		else if (drv_is(&c, "Flip")) do_flip();
		else if (drv_is(&c, "Sweep16")) sweep16(drv_arg(&c, 0));
		else if (drv_is(&c, "Sweep32")) { drv_srand(drv_arg(&c, 0)); sweep32(drv_arg(&c, 1)); }
		else if (drv_is(&c, "Alias")) {
			/* output arrays that start at the cursor, after the end of what the packer covers */
			for (int hdr = 0; hdr <= 8; hdr += (hdr < 2 ? 1 : 3))
				for (int n = 1; n <= 9; n += 4) {
					reset(24);
					do_unpackbytes(hdr, 0); do_flip(); do_unpackbytes(hdr, 1); do_unpackbytes(n, 2); do_unpack("UnpackU8"); do_unpackbytes(2, 2);
					reset(24);
					do_unpackbytes(hdr, 1); do_flip(); do_unpackbytes(hdr + 2, 0); do_unpackbytes(n, 2); do_unpackbytes(1, 2);
				}
		}
		else if (drv_is(&c, "Random")) { drv_srand(drv_arg(&c, 0)); randomseq(drv_arg(&c, 1), drv_arg(&c, 2)); }
		else { fprintf(stderr, "pack_drv: unknown command %s\n", op); return 3; }
	}
	fflush(stdout);
	return 0;
}
