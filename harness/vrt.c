/* vrt.c - verification runtime: deterministic interleaving of real librfn code.
 *
 * librfn sources (and the driver's own "user" code) are compiled with
 * clang -fsanitize=thread, which only inserts calls to __tsan_* entry
 * points; this file defines those entry points itself (no libtsan):
 *
 *   - every atomic operation is (1) a switch point - the calling coroutine
 *     parks and the driver decides which context runs next - then (2) is
 *     performed for real and (3) logged with its memory-order argument and
 *     operands;
 *   - every plain load/store that falls into a registered region is logged.
 *
 * Contexts are ucontext coroutines on one OS thread, so an execution is a
 * deterministic function of the schedule (the list of context ids chosen).
 */
#define _GNU_SOURCE
#include "vrt.h"
#include <stdio.h>
#include <stdlib.h>
#include <string.h>
#include <ucontext.h>

#define STACKSZ (256 * 1024)

typedef struct {
	ucontext_t uc;
	char *stack;
	int used, finished, parked;
	void (*fn)(void *);
	void *arg;
} ctx_t;

static ctx_t ctxs[VRT_MAXCTX];
static ucontext_t main_uc;
static int cur = -1;

static struct region {
	const char *name;
	char *lo, *hi;
	size_t elem;
	int atomic;
	int swp; /* plain accesses are switch points too */
} regions[VRT_MAXREG];
static int nregions;

static vrt_ev_t evbuf[VRT_MAXEV];
static int nev;
static int overflow;

void vrt_clear_regions(void) { nregions = 0; }
void vrt_region(const char *name, void *addr, size_t len, size_t elem, int atomic)
{
	if (nregions >= VRT_MAXREG) { fprintf(stderr, "vrt: too many regions\n"); exit(3); }
	regions[nregions++] = (struct region){ name, addr, (char *)addr + len, elem ? elem : len, atomic & 1, (atomic & 2) != 0 };
}
static struct region *find(const void *a)
{
	for (int i = 0; i < nregions; i++)
		if ((char *)a >= regions[i].lo && (char *)a < regions[i].hi)
			return &regions[i];
	return NULL;
}

vrt_ev_t *vrt_events(int *n) { *n = nev; return evbuf; }
void vrt_clear_events(void) { nev = 0; }
int vrt_overflowed(void) { return overflow; }
int vrt_current(void) { return cur; }

static vrt_ev_t *newev(void)
{
	if (nev >= VRT_MAXEV) { overflow = 1; return &evbuf[VRT_MAXEV - 1]; }
	vrt_ev_t *e = &evbuf[nev++];
	memset(e, 0, sizeof(*e));
	e->ctx = cur;
	return e;
}

void vrt_note(const char *name, long r)
{
	vrt_ev_t *e = newev();
	e->kind = 'C';
	e->op = name;
	e->res = r;
}

/* ---- coroutines ---- */
static void trampoline(void)
{
	ctx_t *c = &ctxs[cur];
	c->fn(c->arg);
	c->finished = 1;
	c->parked = 0;
	swapcontext(&c->uc, &main_uc);
	abort();
}

void vrt_reset(void)
{
	for (int i = 0; i < VRT_MAXCTX; i++)
		ctxs[i].used = ctxs[i].finished = ctxs[i].parked = 0;
	cur = -1;
	nev = 0;
	overflow = 0;
}

static int resume(int c)
{
	int prev = cur;
	cur = c;
	swapcontext(&main_uc, &ctxs[c].uc);
	cur = prev;
	return !ctxs[c].finished;
}

int vrt_spawn(void (*fn)(void *), void *arg)
{
	int c;
	for (c = 0; c < VRT_MAXCTX && ctxs[c].used; c++)
		;
	if (c >= VRT_MAXCTX) { fprintf(stderr, "vrt: too many contexts\n"); exit(3); }
	ctx_t *x = &ctxs[c];
	if (!x->stack)
		x->stack = malloc(STACKSZ);
	x->used = 1;
	x->finished = 0;
	x->fn = fn;
	x->arg = arg;
	getcontext(&x->uc);
	x->uc.uc_stack.ss_sp = x->stack;
	x->uc.uc_stack.ss_size = STACKSZ;
	x->uc.uc_link = NULL;
	makecontext(&x->uc, trampoline, 0);
	resume(c); /* run the purely local prologue up to the first switch point */
	return c;
}

int vrt_step(int c)
{
	if (c < 0 || c >= VRT_MAXCTX || !ctxs[c].used || ctxs[c].finished)
		return -1;
	return resume(c);
}
int vrt_finished(int c) { return ctxs[c].finished; }
int vrt_used(int c) { return c >= 0 && c < VRT_MAXCTX && ctxs[c].used; }

/* what the parked context is about to do */
static struct { const char *op; const void *addr; } pending[VRT_MAXCTX];
const char *vrt_pending(int c, const char **var, int *idx)
{
	if (!ctxs[c].used || ctxs[c].finished || !ctxs[c].parked) {
		*var = ""; *idx = 0;
		return "none";
	}
	struct region *r = find(pending[c].addr);
	*var = r ? r->name : "?";
	*idx = r ? (int)(((char *)pending[c].addr - r->lo) / r->elem) : 0;
	return pending[c].op;
}

static void switch_point(const char *op, const void *a)
{
	if (cur < 0)
		return;
	ctx_t *c = &ctxs[cur];
	pending[cur].op = op;
	pending[cur].addr = a;
	c->parked = 1;
	swapcontext(&c->uc, &main_uc);
	c->parked = 0;
}

static void log_atomic(const char *op, const void *a, int size, int mo, long old, long arg, long res)
{
	if (cur < 0)
		return; /* the driver's own calls (initialisation, snapshots) are not part of any context */
	struct region *r = find(a);
	vrt_ev_t *e = newev();
	e->kind = 'A';
	e->op = op;
	e->var = r ? r->name : "?";
	e->idx = r ? (int)(((char *)a - r->lo) / r->elem) : 0;
	e->plain_on_atomic = r ? !r->atomic : 0; /* atomic op on a region registered as plain payload */
	e->mo = mo;
	e->old = old;
	e->arg = arg;
	e->res = res;
	e->size = size;
}

static void switch_point(const char *op, const void *a);
static void log_plain(char kind, const void *a, int size)
{
	if (cur < 0)
		return; /* the driver's own bookkeeping, not part of any context */
	struct region *r = find(a);
	if (!r)
		return;
	if (r->swp) {
		switch_point(kind == 'R' ? "read" : "write", a);
		vrt_ev_t *e = newev();
		e->kind = kind;
		e->op = kind == 'R' ? "read" : "write";
		e->var = r->name;
		e->idx = (int)(((char *)a - r->lo) / r->elem);
		e->size = size;
		e->sw = 1;
		return;
	}
	/* coalesce with the previous identical event of this step */
	if (nev > 0) {
		vrt_ev_t *p = &evbuf[nev - 1];
		if (p->kind == kind && p->var == r->name && p->ctx == cur &&
		    p->idx == (int)(((char *)a - r->lo) / r->elem))
			return;
	}
	vrt_ev_t *e = newev();
	e->kind = kind;
	e->op = kind == 'R' ? "read" : "write";
	e->var = r->name;
	e->idx = (int)(((char *)a - r->lo) / r->elem);
	e->plain_on_atomic = r->atomic;
	e->size = size;
}

/* ---- __tsan interface ---- */
typedef unsigned char a8;
typedef unsigned short a16;
typedef unsigned int a32;
typedef unsigned long long a64;

#define DEF_ATOMIC(N, T)                                                                              \
	T __tsan_atomic##N##_load(const volatile T *a, int mo)                                        \
	{                                                                                             \
		switch_point("load", (const void *)a);                                                \
		T v = __atomic_load_n(a, __ATOMIC_SEQ_CST);                                           \
		log_atomic("load", (const void *)a, N / 8, mo, (long)v, 0, (long)v);                  \
		return v;                                                                             \
	}                                                                                             \
	void __tsan_atomic##N##_store(volatile T *a, T v, int mo)                                     \
	{                                                                                             \
		switch_point("store", (const void *)a);                                               \
		T old = __atomic_load_n(a, __ATOMIC_SEQ_CST);                                         \
		__atomic_store_n(a, v, __ATOMIC_SEQ_CST);                                             \
		log_atomic("store", (const void *)a, N / 8, mo, (long)old, (long)v, (long)v);         \
	}                                                                                             \
	T __tsan_atomic##N##_exchange(volatile T *a, T v, int mo)                                     \
	{                                                                                             \
		switch_point("exchange", (const void *)a);                                            \
		T old = __atomic_exchange_n(a, v, __ATOMIC_SEQ_CST);                                  \
		log_atomic("exchange", (const void *)a, N / 8, mo, (long)old, (long)v, (long)v);      \
		return old;                                                                           \
	}                                                                                             \
	DEF_RMW(N, T, fetch_add) DEF_RMW(N, T, fetch_sub) DEF_RMW(N, T, fetch_and)                    \
	DEF_RMW(N, T, fetch_or) DEF_RMW(N, T, fetch_xor) DEF_RMW(N, T, fetch_nand)                    \
	T __tsan_atomic##N##_compare_exchange_val(volatile T *a, T c, T v, int mo, int fmo)           \
	{                                                                                             \
		(void)fmo;                                                                            \
		switch_point("cas", (const void *)a);                                                 \
		T exp = c;                                                                            \
		int ok = __atomic_compare_exchange_n(a, &exp, v, 0, __ATOMIC_SEQ_CST, __ATOMIC_SEQ_CST); \
		log_atomic("cas", (const void *)a, N / 8, mo, (long)exp, (long)v, ok);                \
		return exp;                                                                           \
	}                                                                                             \
	int __tsan_atomic##N##_compare_exchange_strong(volatile T *a, T *c, T v, int mo, int fmo)     \
	{                                                                                             \
		(void)fmo;                                                                            \
		switch_point("cas", (const void *)a);                                                 \
		int ok = __atomic_compare_exchange_n(a, c, v, 0, __ATOMIC_SEQ_CST, __ATOMIC_SEQ_CST); \
		log_atomic("cas", (const void *)a, N / 8, mo, (long)*c, (long)v, ok);                 \
		return ok;                                                                            \
	}                                                                                             \
	int __tsan_atomic##N##_compare_exchange_weak(volatile T *a, T *c, T v, int mo, int fmo)       \
	{                                                                                             \
		return __tsan_atomic##N##_compare_exchange_strong(a, c, v, mo, fmo);                  \
	}

#define DEF_RMW(N, T, OP)                                                                             \
	T __tsan_atomic##N##_##OP(volatile T *a, T v, int mo)                                         \
	{                                                                                             \
		switch_point(#OP, (const void *)a);                                                   \
		T old = __atomic_##OP(a, v, __ATOMIC_SEQ_CST);                                        \
		log_atomic(#OP, (const void *)a, N / 8, mo, (long)old, (long)v,                       \
			   (long)__atomic_load_n(a, __ATOMIC_SEQ_CST));                               \
		return old;                                                                           \
	}

DEF_ATOMIC(8, a8)
DEF_ATOMIC(16, a16)
DEF_ATOMIC(32, a32)
DEF_ATOMIC(64, a64)

static void log_fence(const char *op, int mo)
{
	if (cur < 0)
		return;
	vrt_ev_t *e = newev();
	e->kind = 'F';
	e->op = op;
	e->var = "";
	e->mo = mo;
}
void __tsan_atomic_thread_fence(int mo) { log_fence("thread_fence", mo); }
void __tsan_atomic_signal_fence(int mo) { log_fence("signal_fence", mo); }

#define DEF_PLAIN(N)                                                           \
	void __tsan_read##N(void *a) { log_plain('R', a, N); }                 \
	void __tsan_write##N(void *a) { log_plain('W', a, N); }                \
	void __tsan_unaligned_read##N(void *a) { log_plain('R', a, N); }       \
	void __tsan_unaligned_write##N(void *a) { log_plain('W', a, N); }
DEF_PLAIN(1) DEF_PLAIN(2) DEF_PLAIN(4) DEF_PLAIN(8) DEF_PLAIN(16)
void __tsan_read_range(void *a, unsigned long n) { log_plain('R', a, (int)n); }
void __tsan_write_range(void *a, unsigned long n) { log_plain('W', a, (int)n); }
void __tsan_read_range_pc(void *a, unsigned long n, void *pc) { (void)pc; log_plain('R', a, (int)n); }
void __tsan_write_range_pc(void *a, unsigned long n, void *pc) { (void)pc; log_plain('W', a, (int)n); }
void __tsan_read1_pc(void *a, void *pc) { (void)pc; log_plain('R', a, 1); }
void __tsan_read2_pc(void *a, void *pc) { (void)pc; log_plain('R', a, 2); }
void __tsan_read4_pc(void *a, void *pc) { (void)pc; log_plain('R', a, 4); }
void __tsan_read8_pc(void *a, void *pc) { (void)pc; log_plain('R', a, 8); }
void __tsan_write1_pc(void *a, void *pc) { (void)pc; log_plain('W', a, 1); }
void __tsan_write2_pc(void *a, void *pc) { (void)pc; log_plain('W', a, 2); }
void __tsan_write4_pc(void *a, void *pc) { (void)pc; log_plain('W', a, 4); }
void __tsan_write8_pc(void *a, void *pc) { (void)pc; log_plain('W', a, 8); }
void __tsan_init(void) {}
void __tsan_func_entry(void *pc) { (void)pc; }
void __tsan_func_exit(void) {}
void __tsan_vptr_update(void **a, void *b) { (void)a; (void)b; }
void __tsan_vptr_read(void **a) { (void)a; }
void __tsan_ignore_thread_begin(void) {}
void __tsan_ignore_thread_end(void) {}
void *__tsan_memcpy(void *d, const void *s, unsigned long n) { log_plain('R', s, (int)n); log_plain('W', d, (int)n); return memcpy(d, s, n); }
void *__tsan_memmove(void *d, const void *s, unsigned long n) { log_plain('R', s, (int)n); log_plain('W', d, (int)n); return memmove(d, s, n); }
void *__tsan_memset(void *d, int c, unsigned long n) { log_plain('W', d, (int)n); return memset(d, c, n); }

/* clang 14 leaves calls to the libc block functions in instrumented code as they are (libtsan would intercept them);
 * the vrt link wraps them (-Wl,--wrap=memset,...) so that block accesses of librfn code to registered regions are
 * events like any other plain access. */
void *__real_memset(void *d, int c, size_t n);
void *__real_memcpy(void *d, const void *s, size_t n);
void *__real_memmove(void *d, const void *s, size_t n);
void *__wrap_memset(void *d, int c, size_t n) { if (cur >= 0 && n) log_plain('W', d, (int)n); return __real_memset(d, c, n); }
void *__wrap_memcpy(void *d, const void *s, size_t n)
{
	if (cur >= 0 && n) { log_plain('R', s, (int)n); log_plain('W', d, (int)n); }
	return __real_memcpy(d, s, n);
}
void *__wrap_memmove(void *d, const void *s, size_t n)
{
	if (cur >= 0 && n) { log_plain('R', s, (int)n); log_plain('W', d, (int)n); }
	return __real_memmove(d, s, n);
}

/* ---- printing ---- */
void vrt_print_hb(FILE *f)
{
	/* the happens-before relevant sub-events of this step, for TraceHB */
	fprintf(f, "\"hb\":[");
	int first = 1;
	for (int i = 0; i < nev; i++) {
		vrt_ev_t *e = &evbuf[i];
		if (e->kind == 'C')
			continue;
		fprintf(f, "%s{\"k\":\"%c\",\"op\":\"%s\",\"v\":\"%s\",\"i\":%d,\"mo\":%d,\"x\":%d}", first ? "" : ",",
			e->kind, e->op, e->var, e->idx, e->mo, e->plain_on_atomic);
		first = 0;
	}
	fprintf(f, "]");
}
