/* mlog_drv.c - conformance driver for librfn/mlog.c (C20).
 *   Reset | Log | Nice | Clear | Read k | ReadAll | Dump | SetCount c | Sys n | Fold | Random seed n */
#define _GNU_SOURCE
#include "drv.h"
#include <librfn/mlog.h>

uint32_t time_now(void) { return 0; }
#define NFMT 2048
#define NSTD 1024        /* formats 0..1023: "f<i> %lu %lu %lu" (every 64th padded to more than 256 characters) */
#define NLEN 701         /* formats 1024..1724: "g%lu " + k filler characters, k = 0..700: a line of every length */
static char fmts[NFMT][760];
#define PADLEN 300
static unsigned long nextid;
static const char *const star[4] = { "s%lu [%*lu]\n", "s%lu [%-*lu]\n", "s%lu [%.*s]\n", "s%lu %lu%%%lu\n" };  /* '*' takes an argument of its own */

static void init_fmts(void)
{
	for (int i = 0; i < NFMT; i++) {
		int n;
		if (i < NSTD) {
			n = snprintf(fmts[i], sizeof(fmts[i]), "f%d %%lu %%lu %%lu", i);
			if (i % 64 == 7) { memset(fmts[i] + n, 'x', PADLEN); n += PADLEN; }      /* a line longer than 256 characters */
		} else if (i < NSTD + NLEN) {
			n = snprintf(fmts[i], sizeof(fmts[i]), "g%%lu ");
			memset(fmts[i] + n, 'y', i - NSTD); n += i - NSTD;
		} else if (i % 5 == 4) {
			/* no conversion at all, only literal per cent signs: the text carries the format's index (the message is the
			 * latest one logged with that format - the window is far shorter than the format table) */
			static const char *const plain[3] = { "p%d 100%%%% done|%%%%|a%%%%b%%%%%%%%c\n", "p%d%%%%\n", "p%d plain text\n" };
			snprintf(fmts[i], sizeof(fmts[i]), plain[(i / 5) % 3], i);
			continue;
		} else {
			strcpy(fmts[i], star[i % 4]);
			continue;
		}
		fmts[i][n] = '\n'; fmts[i][n + 1] = 0;
	}
}
static void args_of(unsigned long id, uintptr_t a[3])
{
	unsigned i = id % NFMT;
	a[0] = id;
	if (i < NSTD) { a[1] = id ^ 0x5555ul; a[2] = id * 3; }
	else if (i < NSTD + NLEN) { a[1] = 1; a[2] = 2; }
	else switch (i % 4) {
	case 0: case 1: a[1] = 3 + id % 9; a[2] = id * 3; break;
	case 2: a[1] = id % 11; a[2] = (uintptr_t)"abcdefghij"; break;
	default: a[1] = id ^ 7; a[2] = id + 1; break;
	}
}
/* the message id a line carries, if the line is exactly what that message's format and arguments print (-2 otherwise) */
static long parse(const char *s, int dumpline)
{
	static char want[1400];
	unsigned long id;
	int fi;
	uintptr_t a[3];
	if (!s) return -1;
	if (s[0] == 'f') { if (sscanf(s, "f%d %lu", &fi, &id) != 2) return -2; }
	else if (s[0] == 'g' || s[0] == 's') { if (sscanf(s + 1, "%lu", &id) != 1) return -2; }
	else if (s[0] == 'p') {
		if (sscanf(s + 1, "%d", &fi) != 1 || fi < 0 || fi >= NFMT) return -2;
		unsigned long last = (nextid + (1ul << 30) - 1) % (1ul << 30);
		id = (last + (1ul << 30) - (last + NFMT - (unsigned long)fi) % NFMT) % (1ul << 30);
	}
	else return -2;
	args_of(id, a);
	snprintf(want, sizeof(want), fmts[id % NFMT], a[0], a[1], a[2]);
	size_t n = strlen(want), m = strlen(s);
	if (dumpline && m == n - 1 && want[n - 1] == '\n') n--;          /* a dump line is handed over without its newline */
	if (m != n || memcmp(s, want, n) != 0) return -2;
	return (long)id;
}
static void do_log(int nice)
{
	unsigned long id = nextid;
	uintptr_t a[3];
	nextid = (nextid + 1) % (1ul << 30);
	args_of(id, a);
	if (nice) mlog_nice(fmts[id % NFMT], a[0], a[1], a[2]);
	else mlog(fmts[id % NFMT], a[0], a[1], a[2]);
	printf("{\"e\":\"%s\",\"id\":%lu}\n", nice ? "Nice" : "Log", id);
}
/* mlog_nice whose first argument is a call that itself logs a message: arguments are evaluated before the call, so the
 * inner message counts when mlog_nice decides whether there is room */
static unsigned long logging_arg(unsigned long v) { do_log(0); return v; }
static void do_nice_nested(void)
{
	unsigned long id = (nextid + 1) % (1ul << 30);        /* the inner message takes nextid, the nice message the one after */
	uintptr_t a[3];
	args_of(id, a);
	mlog_nice(fmts[id % NFMT], logging_arg(a[0]), a[1], a[2]);
	nextid = (id + 1) % (1ul << 30);
	printf("{\"e\":\"Nice\",\"id\":%lu}\n", id);
}
/* n messages in a row with nothing read in between: one event */
static void do_burst(unsigned long n)
{
	for (unsigned long i = 0; i < n; i++) {
		unsigned long id = nextid;
		uintptr_t a[3];
		nextid = (nextid + 1) % (1ul << 30);
		args_of(id, a);
		mlog(fmts[id % NFMT], a[0], a[1], a[2]);
	}
	printf("{\"e\":\"Burst\",\"n\":%lu}\n", n);
}
static void do_read(int k)
{
	char *s = mlog_get_line(k);
	printf("{\"e\":\"Read\",\"k\":%d,\"r\":[%ld]}\n", k, parse(s, 0));
	free(s);
}
/* the shape of an ordinary caller: the same line asked for several times in ONE function, with the log changing in between
 * (nothing here goes through a function pointer or a helper of its own: what the header says about the functions is all the
 * compiler knows) */
static void do_shape(void)
{
	mlog_clear(); printf("{\"e\":\"Clear\"}\n");
	do_log(0);
	char *a = mlog_get_line(0);
	printf("{\"e\":\"Read\",\"k\":0,\"r\":[%ld]}\n", parse(a, 0));
	for (int i = 0; i < 256; i++) do_log(0);
	char *b = mlog_get_line(0);
	printf("{\"e\":\"Read\",\"k\":0,\"r\":[%ld]}\n", parse(b, 0));
	do_log(1);
	char *c = mlog_get_line(255);
	printf("{\"e\":\"Read\",\"k\":255,\"r\":[%ld]}\n", parse(c, 0));
	do_log(0);
	char *d = mlog_get_line(255);
	printf("{\"e\":\"Read\",\"k\":255,\"r\":[%ld]}\n", parse(d, 0));
	mlog_clear(); printf("{\"e\":\"Clear\"}\n");
	char *e = mlog_get_line(0);
	printf("{\"e\":\"Read\",\"k\":0,\"r\":[%ld]}\n", parse(e, 0));
	int distinct = a != b && c != d && (!e || (e != a && e != b));       /* every call hands over a string of its own */
	printf("{\"e\":\"Own\",\"ok\":%d}\n", distinct);
	free(a); if (b != a) free(b); free(c); if (d != c) free(d); if (e != a && e != b) free(e);
}
static void do_readall(void) { for (int k = -2; k <= 257; k++) do_read(k); }
static void do_readsome(void) { static const int ks[] = { -1, 0, 1, 2, 127, 128, 254, 255, 256 }; for (unsigned i = 0; i < 9; i++) do_read(ks[i]); }
static void do_readfar(void)
{
	static const int ks[] = { 65536, 65537, 65536 + 255, -65536, -65535, 131072, 1 << 24, 0x7fffffff, (int)0x80000000u, (int)0x80000001u, -256, 512, 256 + 65536 };
	for (unsigned i = 0; i < sizeof(ks) / sizeof(ks[0]); i++) do_read(ks[i]);
}
static void do_dump(void)
{
	char *buf = NULL;
	size_t len = 0;
	FILE *f = open_memstream(&buf, &len);
	mlog_dump(f);
	fclose(f);
	printf("{\"e\":\"Dump\",\"r\":[");
	int first = 1;
	for (char *p = buf; p && p < buf + len;) {
		char *nl = memchr(p, '\n', buf + len - p);
		if (nl) *nl = 0;
		/* a line that is not newline-terminated, or that contains a NUL byte, is not a line of the log */
		printf("%s%ld", first ? "" : ",", (nl && strlen(p) == (size_t)(nl - p)) ? parse(p, 1) : -2L);
		first = 0;
		if (!nl) break;
		p = nl + 1;
	}
	printf("]}\n");
	free(buf);
}
static void do_clear(void) { mlog_clear(); printf("{\"e\":\"Clear\"}\n"); }
static void do_setcount(unsigned c) { mlog_verif_set_count(c); printf("{\"e\":\"SetCount\",\"c\":%u}\n", c); }

int main(void)
{
	drv_cmd_t c;
	drv_install_handlers();
	init_fmts();
	do_clear();
	while (drv_read(&c, stdin)) {
		if (drv_is(&c, "Reset") || drv_is(&c, "Clear")) do_clear();
		else if (drv_is(&c, "Log")) do_log(0);
		else if (drv_is(&c, "Nice")) do_log(1);
		else if (drv_is(&c, "Read")) do_read(drv_arg(&c, 0));
		else if (drv_is(&c, "ReadAll")) do_readall();
		else if (drv_is(&c, "Dump")) do_dump();
		else if (drv_is(&c, "SetCount")) do_setcount((unsigned)drv_arg(&c, 0));
		else if (drv_is(&c, "Sys")) {       /* every count 0..n with all reads after every message */
			long n = drv_arg(&c, 0), full = drv_arg(&c, 1);
			do_clear(); do_readall(); do_dump();
			for (long i = 1; i <= n; i++) {
				do_log(i % 5 == 0);
				if (full || i % 64 < 3 || i % 256 > 252 || i < 8) do_readall(); else do_readsome();
				if (i % 97 == 0 || i == 256 || i == 257) do_dump();
				if (i == 1 || i == 3 || i == 255 || i == 256 || i == 300 || i == 700) do_readfar();
				if (i == 255 || i == 256 || i == 257 || i == 300 || i == 2 * 256 + 3) { do_log(1); do_readsome(); }
			}
			do_clear(); do_readsome(); do_log(1); do_readsome();
			/* exactly Cap messages, then mlog_nice must not record */
			do_clear();
			for (int i = 0; i < 256; i++) do_log(0);
			do_log(1); do_readsome(); do_log(1); do_dump();
			do_clear();
			for (int i = 0; i < 255; i++) do_log(0);
			do_log(1); do_readsome(); do_log(1); do_readsome();
		}
		else if (drv_is(&c, "Fold")) {      /* across the counter's fold point, twice */
			long full = drv_arg(&c, 0);
			unsigned start = (0x7fffffffu - 600) & ~255u;
			do_clear();
			do_setcount(start);
			for (int i = 0; i < 256; i++) do_log(0);
			for (int i = 0; i < 900; i++) {
				do_log(i % 7 == 0);
				if (full || (i > 80 && i < 100) || (i > 336 && i < 356) || i % 50 == 0) do_readall(); else do_readsome();
				if (i % 101 == 0) do_dump();
			}
		}
		else if (drv_is(&c, "Kinds")) {     /* every format class: every line length 0..700, '*' widths and precisions, %% */
			do_clear();
			nextid = NSTD - 40;
			for (int i = 0; i < NFMT + 300; i++) {
				do_log(0);
				do_readsome();
				if (i % 50 == 0 || i % 256 == 255) do_dump();
			}
		}
		else if (drv_is(&c, "Shape")) do_shape();
		else if (drv_is(&c, "NestedNice")) {
			for (int pre = 250; pre <= 258; pre++) {
				do_clear();
				for (int i = 0; i < pre; i++) do_log(0);
				do_nice_nested(); do_readsome(); do_nice_nested(); do_readsome(); do_dump();
			}
		}
		else if (drv_is(&c, "Burst")) do_burst((unsigned long)drv_arg(&c, 0));
		else if (drv_is(&c, "Unread")) {
			/* more than 2^31 messages with nobody reading in between (mode 0: from just below the fold point, placed
			 * there by the hook; mode 1: 2^32 + 5 messages from a clear, no hook), then everything is read */
			do_clear();
			if (drv_arg(&c, 0) == 0) {
				do_setcount(0x7ffffe00u);
				for (int i = 0; i < 256; i++) do_log(0);
				do_readsome();
				do_burst(1ul << 30); do_burst(1ul << 30); do_burst(261);   /* a 32-bit counter that was never folded would now stand at 5 */
			} else {
				do_burst(1ul << 30); do_burst(1ul << 30); do_burst(1ul << 30); do_burst(1ul << 30); for (int i = 0; i < 5; i++) do_log(0);
			}
			do_readall(); do_dump(); do_log(1); do_log(1); do_readsome(); do_log(0); do_readall();
		}
		else if (drv_is(&c, "Sweep")) {
			/* a long natural history from a clear (no hook), looked at whenever the number of messages logged so far is
			 * round: multiples of 10^6, of 2^16 (up to 2^24) and of 2^24 */
			unsigned long upto = (unsigned long)drv_arg(&c, 0) * 1000000ul, at = 0;
			do_clear();
			while (at < upto) {
				unsigned long a = (at / 1000000 + 1) * 1000000, b = at < (1ul << 24) ? (at / 65536 + 1) * 65536 : (at / (1ul << 24) + 1) << 24;
				unsigned long nxt = a < b ? a : b;
				if (nxt - at > (1ul << 30)) nxt = at + (1ul << 30);
				do_burst(nxt - at); at = nxt;
				do_readsome(); do_log(1); do_log(0); at++; do_read(0); do_read(255); do_read(256);
			}
			do_readall(); do_dump();
		}
		else if (drv_is(&c, "NiceFar")) {
			/* the counter is set, 256 messages refill the window, then mlog_nice is tried: bases whose low 8 / 16 / 24 bits
			 * are zero, reached exactly, just before and just after */
			static const unsigned bases[] = { 65536, 131072, 0x10000u * 3, 1u << 20, 1u << 24, 1u << 30, 0x7fff0000u, 1024, 0x10100 };
			static const int offs[] = { 0, 1, 200, 255, 256, -1, -256 };
			for (unsigned k = 0; k < sizeof(bases) / sizeof(bases[0]); k++)
				for (unsigned j = 0; j < sizeof(offs) / sizeof(offs[0]); j++) {
					do_clear();
					do_setcount(bases[k] - 256 + offs[j]);
					for (int i = 0; i < 256; i++) do_log(0);
					do_log(1); do_readsome(); do_log(1); do_dump(); do_readfar();
				}
			static const unsigned counts[] = { 65536, 131072, 1u << 20, 1u << 30, 65536 + 256, 0x10000u * 3 };
			for (unsigned k = 0; k < sizeof(counts) / sizeof(counts[0]); k++) {
				do_clear();
				do_setcount(counts[k]);
				for (int i = 0; i < 256; i++) do_log(0);
				do_log(1); do_readsome(); do_log(1); do_dump(); do_readfar();
			}
		}
		else if (drv_is(&c, "Random")) {
			drv_srand(drv_arg(&c, 0));
			long n = drv_arg(&c, 1);
			do_clear();
			for (long i = 0; i < n; i++) {
				unsigned x = drv_below(100);
				if (x < 55) do_log(0); else if (x < 70) do_log(1); else if (x < 95) do_read((int)drv_below(262) - 3);
				else if (x < 97) do_dump(); else if (x < 98) do_clear(); else { for (int k = 0; k < 300; k++) do_log(0); }
			}
		}
		else { fprintf(stderr, "mlog_drv: unknown command %s\n", c.tok[0]); return 3; }
	}
	fflush(stdout);
	return 0;
}
