/* mlog_drv.c - conformance driver for librfn/mlog.c (C20).
 *   Reset | Log | Nice | Clear | Read k | ReadAll | Dump | SetCount c | Sys n | Fold | Random seed n */
#define _GNU_SOURCE
#include "drv.h"
#include <librfn/mlog.h>

uint32_t time_now(void) { return 0; }
#define NFMT 1024
static char fmts[NFMT][360];
#define PADLEN 300
static unsigned long nextid;

static void init_fmts(void)
{
	for (int i = 0; i < NFMT; i++) {
		int n = snprintf(fmts[i], sizeof(fmts[i]), "f%d %%lu %%lu %%lu", i);
		if (i % 64 == 7) { memset(fmts[i] + n, 'x', PADLEN); n += PADLEN; }      /* a line longer than 256 characters */
		fmts[i][n] = '\n'; fmts[i][n + 1] = 0;
	}
}
static long parse(const char *s)
{
	int fi;
	unsigned long a, b, c;
	if (!s) return -1;
	int used = 0;
	if (sscanf(s, "f%d %lu %lu %lu%n", &fi, &a, &b, &c, &used) != 4) return -2;
	if (fi != (int)(a % NFMT) || b != (a ^ 0x5555ul) || c != a * 3) return -2;
	/* the complete text must be there: padding (if this format has any) and nothing else */
	size_t want = (fi % 64 == 7) ? PADLEN : 0, have = 0;
	while (s[used + have] == 'x') have++;
	if (have != want || (s[used + have] != 0 && s[used + have] != '\n')) return -2;
	return (long)a;
}
static void do_log(int nice)
{
	unsigned long id = nextid;
	nextid = (nextid + 1) % (1ul << 30);
	if (nice) mlog_nice(fmts[id % NFMT], id, id ^ 0x5555ul, id * 3);
	else mlog(fmts[id % NFMT], id, id ^ 0x5555ul, id * 3);
	printf("{\"e\":\"%s\",\"id\":%lu}\n", nice ? "Nice" : "Log", id);
}
static void do_read(int k)
{
	char *s = mlog_get_line(k);
	printf("{\"e\":\"Read\",\"k\":%d,\"r\":[%ld]}\n", k, parse(s));
	free(s);
}
static void do_readall(void) { for (int k = -2; k <= 257; k++) do_read(k); }
static void do_readsome(void) { static const int ks[] = { -1, 0, 1, 2, 127, 128, 254, 255, 256 }; for (unsigned i = 0; i < 9; i++) do_read(ks[i]); }
static void do_readfar(void)
{
	static const int ks[] = { 65536, 65537, 65536 + 255, -65536, -65535, 131072, 1 << 24, 0x7fffffff, (int)0x80000000u, (int)0x80000001u, -256, 512, 256 + 65536 };
	for (unsigned i = 0; i < sizeof(ks) / sizeof(ks[0]); i++) do_read(ks[i]);
}
static void do_dump(void)
{
	char *buf = NULL;
	size_t len = 0;
	FILE *f = open_memstream(&buf, &len);
	mlog_dump(f);
	fclose(f);
	printf("{\"e\":\"Dump\",\"r\":[");
	int first = 1;
	for (char *p = buf; p && *p;) {
		char *nl = strchr(p, '\n');
		if (nl) *nl = 0;
		printf("%s%ld", first ? "" : ",", parse(p));
		first = 0;
		if (!nl) break;
		p = nl + 1;
	}
	printf("]}\n");
	free(buf);
}
static void do_clear(void) { mlog_clear(); printf("{\"e\":\"Clear\"}\n"); }
static void do_setcount(unsigned c) { mlog_verif_set_count(c); printf("{\"e\":\"SetCount\",\"c\":%u}\n", c); }

int main(void)
{
	drv_cmd_t c;
	drv_install_handlers();
	init_fmts();
	do_clear();
	while (drv_read(&c, stdin)) {
		if (drv_is(&c, "Reset") || drv_is(&c, "Clear")) do_clear();
		else if (drv_is(&c, "Log")) do_log(0);
		else if (drv_is(&c, "Nice")) do_log(1);
		else if (drv_is(&c, "Read")) do_read(drv_arg(&c, 0));
		else if (drv_is(&c, "ReadAll")) do_readall();
		else if (drv_is(&c, "Dump")) do_dump();
		else if (drv_is(&c, "SetCount")) do_setcount((unsigned)drv_arg(&c, 0));
		else if (drv_is(&c, "Sys")) {       /* every count 0..n with all reads after every message */
			long n = drv_arg(&c, 0), full = drv_arg(&c, 1);
			do_clear(); do_readall(); do_dump();
			for (long i = 1; i <= n; i++) {
				do_log(i % 5 == 0);
				if (full || i % 64 < 3 || i % 256 > 252 || i < 8) do_readall(); else do_readsome();
				if (i % 97 == 0 || i == 256 || i == 257) do_dump();
				if (i == 1 || i == 3 || i == 255 || i == 256 || i == 300 || i == 700) do_readfar();
				if (i == 255 || i == 256 || i == 257 || i == 300 || i == 2 * 256 + 3) { do_log(1); do_readsome(); }
			}
			do_clear(); do_readsome(); do_log(1); do_readsome();
			/* exactly Cap messages, then mlog_nice must not record */
			do_clear();
			for (int i = 0; i < 256; i++) do_log(0);
			do_log(1); do_readsome(); do_log(1); do_dump();
			do_clear();
			for (int i = 0; i < 255; i++) do_log(0);
			do_log(1); do_readsome(); do_log(1); do_readsome();
		}
		else if (drv_is(&c, "Fold")) {      /* across the counter's fold point, twice */
			long full = drv_arg(&c, 0);
			unsigned start = (0x7fffffffu - 600) & ~255u;
			do_clear();
			do_setcount(start);
			for (int i = 0; i < 256; i++) do_log(0);
			for (int i = 0; i < 900; i++) {
				do_log(i % 7 == 0);
				if (full || (i > 80 && i < 100) || (i > 336 && i < 356) || i % 50 == 0) do_readall(); else do_readsome();
				if (i % 101 == 0) do_dump();
			}
		}
		else if (drv_is(&c, "NiceFar")) {
			/* the counter is set, 256 messages refill the window, then mlog_nice is tried: bases whose low 8 / 16 / 24 bits
			 * are zero, reached exactly, just before and just after */
			static const unsigned bases[] = { 65536, 131072, 0x10000u * 3, 1u << 20, 1u << 24, 1u << 30, 0x7fff0000u, 1024, 0x10100 };
			static const int offs[] = { 0, 1, 200, 255, 256, -1, -256 };
			for (unsigned k = 0; k < sizeof(bases) / sizeof(bases[0]); k++)
				for (unsigned j = 0; j < sizeof(offs) / sizeof(offs[0]); j++) {
					do_clear();
					do_setcount(bases[k] - 256 + offs[j]);
					for (int i = 0; i < 256; i++) do_log(0);
					do_log(1); do_readsome(); do_log(1); do_dump(); do_readfar();
				}
			static const unsigned counts[] = { 65536, 131072, 1u << 20, 1u << 30, 65536 + 256, 0x10000u * 3 };
			for (unsigned k = 0; k < sizeof(counts) / sizeof(counts[0]); k++) {
				do_clear();
				do_setcount(counts[k]);
				for (int i = 0; i < 256; i++) do_log(0);
				do_log(1); do_readsome(); do_log(1); do_dump(); do_readfar();
			}
		}
		else if (drv_is(&c, "Random")) {
			drv_srand(drv_arg(&c, 0));
			long n = drv_arg(&c, 1);
			do_clear();
			for (long i = 0; i < n; i++) {
				unsigned x = drv_below(100);
				if (x < 55) do_log(0); else if (x < 70) do_log(1); else if (x < 95) do_read((int)drv_below(262) - 3);
				else if (x < 97) do_dump(); else if (x < 98) do_clear(); else { for (int k = 0; k < 300; k++) do_log(0); }
			}
		}
		else { fprintf(stderr, "mlog_drv: unknown command %s\n", c.tok[0]); return 3; }
	}
	fflush(stdout);
	return 0;
}
