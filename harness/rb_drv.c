/* rb_drv.c - ringbuf.c under the vrt interleaving runtime (C05, C07).
 * Context 1 = producer, context 0 = consumer; programs given on the Reset line:
 *   Reset len start np (kind d)*np nc (kind)*nc     kind: 0 put, 1 putchar, 2 empty / 0 get, 1 empty, 2 wait (poll until not empty)
 *   S c          context c executes its next atomic operation
 *   Gen seed nexec irq */
#define _GNU_SOURCE
#include "drv.h"
#include "vrt.h"
#include <sys/mman.h>
#include <librfn/ringbuf.h>

#define GUARD 32
#define MAXPROG 64
static ringbuf_t *rb;
static uint8_t *area, *ring;
static int len, start, np, nc;
static int pk[MAXPROG], pd[MAXPROG], ck[MAXPROG];

static void producer(void *arg)
{
	(void)arg;
	for (int i = 0; i < np; i++) {
		if (pk[i] == 0) {
			bool ok = ringbuf_put(rb, (uint8_t)pd[i]);
			vrt_note("put", ok);
		} else if (pk[i] == 2) {
			/* the query is role-neutral: a producer asks "was the ring idle? has everything been taken?" */
			bool e = ringbuf_empty(rb);
			vrt_note("empty", e);
		} else {
			/* ringbuf_putchar's retry loop, spelled out so each attempt is visible */
			ringbuf_putchar(rb, (char)pd[i]);
			vrt_note("put", 1);
		}
	}
}
static void consumer(void *arg)
{
	(void)arg;
	for (int i = 0; i < nc; i++) {
		if (ck[i] == 0) {
			int d = ringbuf_get(rb);
			vrt_note("get", d);
		} else if (ck[i] == 2) {
			/* the polling idiom, nothing opaque inside the loop */
			while (ringbuf_empty(rb))
				;
			vrt_note("wait", 0);
		} else {
			bool e = ringbuf_empty(rb);
			vrt_note("empty", e);
		}
	}
}

static void reset(void)
{
	/* warm restart: every other reset with an unchanged length re-initialises the SAME descriptor over the SAME memory,
	 * whatever the previous execution left in them */
	static unsigned warm;
	static int plen = -1;
	int same = area && rb && plen == len && (warm++ & 1);
	plen = len;
	if (!same) {
		free(area);
		free(rb);
		area = malloc(len + 2 * GUARD);
		rb = calloc(1, sizeof(*rb));
	}
	memset(area, 0xA5, len + 2 * GUARD);
	ring = area + GUARD;
	memset(ring, 0, len);
	vrt_reset();
	vrt_clear_regions();
	static unsigned nresets;
	if (nresets++ & 1) {
		/* the static initialiser, its arguments spelled as compound expressions (pointer arithmetic on a word pointer) */
		uint32_t *words = (uint32_t *)(void *)area;
		ringbuf_t q = RINGBUF_VAR_INIT(words + GUARD / 4, len - 1 + 1);
		memcpy(rb, &q, sizeof(q));
	} else
		ringbuf_init(rb, ring, len);
	for (int i = 0; i < start; i++) { /* pre-roll the indices to the starting position */
		ringbuf_put(rb, 0);
		ringbuf_get(rb);
	}
	vrt_region("readi", (void *)&rb->readi, sizeof(rb->readi), 0, 1);
	vrt_region("writei", (void *)&rb->writei, sizeof(rb->writei), 0, 1);
	vrt_region("ring", ring, len, 1, 2);
	vrt_region("guard", area, GUARD, GUARD, 0);
	vrt_region("guard", ring + len, GUARD, GUARD, 0);
	vrt_region("rb_other", rb, sizeof(*rb), sizeof(*rb), 0);     /* whatever else the descriptor holds (first match wins: listed last) */
	printf("{\"e\":\"Reset\",\"g\":{\"len\":%d,\"start\":%d,\"pp\":[", len, start);
	for (int i = 0; i < np; i++)
		printf("%s{\"k\":\"%s\",\"d\":%d}", i ? "," : "", pk[i] == 2 ? "empty" : pk[i] ? "putchar" : "put", pk[i] == 2 ? 0 : pd[i]);
	printf("],\"cp\":[");
	for (int i = 0; i < nc; i++)
		printf("%s\"%s\"", i ? "," : "", ck[i] == 2 ? "wait" : ck[i] ? "empty" : "get");
	printf("]}}\n");
	vrt_clear_events();
	vrt_spawn(consumer, NULL);
	vrt_spawn(producer, NULL);
	vrt_clear_events();
}

static int step(int c)
{
	vrt_clear_events();
	int r = vrt_step(c);
	if (r < 0) {
		printf("{\"e\":\"BadStep\",\"c\":%d}\n", c);
		return r;
	}
	int n;
	vrt_ev_t *ev = vrt_events(&n);
	const char *op = "none", *var = "";
	int natomic = 0, oob = 0;
	for (int i = 0; i < n; i++) {
		if ((ev[i].kind == 'A' || ev[i].sw) && natomic++ == 0) {
			op = ev[i].op;
			var = ev[i].var;
		}
		if ((ev[i].kind == 'R' || ev[i].kind == 'W') && !strcmp(ev[i].var, "guard"))
			oob++;
	}
	for (int i = 0; i < GUARD; i++)
		if (area[i] != 0xA5 || ring[len + i] != 0xA5)
			oob++;
	printf("{\"e\":\"S\",\"c\":%d,\"op\":\"%s\",\"var\":\"%s\",\"na\":%d,\"calls\":[", c, op, var, natomic);
	int first = 1;
	for (int i = 0; i < n; i++)
		if (ev[i].kind == 'C') {
			printf("%s{\"n\":\"%s\",\"r\":%ld}", first ? "" : ",", ev[i].op, ev[i].res);
			first = 0;
		}
	printf("],\"oob\":%d,\"st\":{\"r\":%u,\"w\":%u,\"mem\":[", oob, *(volatile unsigned *)&rb->readi, *(volatile unsigned *)&rb->writei);
	if (len <= 16)
		for (int i = 0; i < len; i++)
			printf("%s%u", i ? "," : "", ring[i]);
	printf("]},");
	vrt_print_hb(stdout);
	printf("}\n");
	return r;
}

static const int lens[] = { 2, 2, 3, 3, 4, 5, 8, 16, 100, 4096 };
static const int bytes[] = { 0, 1, 127, 128, 255, 0x41, 0x80, 0xff };
static void gen(long seed, int nexec, int irq)
{
	drv_srand(seed);
	for (int x = 0; x < nexec; x++) {
		len = lens[drv_below(10)];
		start = drv_below(len);
		np = 1 + drv_below(10);
		nc = 1 + drv_below(12);
		for (int i = 0; i < np; i++) { pk[i] = drv_below(4) == 0; if (drv_below(6) == 0) pk[i] = 2; pd[i] = drv_below(3) ? bytes[drv_below(8)] : (int)drv_below(256); }
		for (int i = 0; i < nc; i++) { ck[i] = drv_below(4) == 0; if (drv_below(7) == 0) ck[i] = 2; }
		reset();
		int top = -1, started[2] = { 0, 0 };
		int budget = 400;
		while (budget-- > 0) {
			int cand[4], ncand = 0;
			for (int c = 0; c < 2; c++) {
				if (vrt_finished(c)) continue;
				if (!irq) cand[ncand++] = c;
				else if (top == c) { cand[ncand++] = c; cand[ncand++] = c; }
				else if (!started[c]) cand[ncand++] = c;
			}
			if (!ncand) break;
			int c = cand[drv_below(ncand)];
			int prev = top;
			if (irq && !started[c]) { started[c] = 1; top = c; }
			if (step(c) == 0 && irq) {
				/* finished: the context it interrupted (if any) continues */
				top = (prev != c && prev >= 0 && !vrt_finished(prev)) ? prev : -1;
				if (top < 0)
					for (int o = 0; o < 2; o++)
						if (started[o] && !vrt_finished(o)) top = o;
			}
		}
	}
}

/* a producer stuck in ringbuf_putchar on a full ring for a long time before the consumer frees a slot */
static void late(int l, int spins)
{
	len = l; start = l > 2 ? l - 1 : 0;
	np = l; nc = 3;
	for (int i = 0; i < l - 1; i++) { pk[i] = 0; pd[i] = 10 + i; }
	pk[l - 1] = 1; pd[l - 1] = 200;
	ck[0] = 0; ck[1] = 0; ck[2] = 0;
	reset();
	for (int i = 0; i < 4 * (l - 1) + spins; i++) step(1);
	while (!vrt_finished(0)) step(0);
	for (int i = 0; i < 20 && !vrt_finished(1); i++) step(1);
}

/* a ring larger than 64 KiB filled completely and drained (indices beyond 16 bits), no interleaving needed */
static void fill(int l, int st)
{
	len = l; start = st;
	np = 3; nc = 1;
	pk[0] = 0; pd[0] = 1; pk[1] = 0; pd[1] = 2; pk[2] = 0; pd[2] = 3;
	ck[0] = 1;
	reset();
	/* bulk part outside the contexts: fill to len-3 unread bytes, logged as a Bulk event the specification replays */
	int bulk = l - 3;
	for (int i = 0; i < bulk; i++) if (!ringbuf_put(rb, (uint8_t)(i * 7 + 1))) { bulk = -i - 1; break; }
	printf("{\"e\":\"Bulk\",\"n\":%d,\"r\":%u,\"w\":%u}\n", bulk, *(volatile unsigned *)&rb->readi, *(volatile unsigned *)&rb->writei);
	while (!vrt_finished(1)) step(1);      /* two more fit, the third must fail */
	while (!vrt_finished(0)) step(0);
	int ok = 1, got = 0;
	for (int i = 0; i < l - 3; i++) { int d = ringbuf_get(rb); if (d != (uint8_t)(i * 7 + 1)) { ok = 0; break; } got++; }
	int d1 = ringbuf_get(rb), d2 = ringbuf_get(rb), d3 = ringbuf_get(rb);
	printf("{\"e\":\"Drain\",\"ok\":%d,\"got\":%d,\"tail\":[%d,%d,%d]}\n", ok, got, d1, d2, d3);
}

/* rings of 2^31 bytes and more: address space only (never-touched pages cost nothing); the indices are placed next to the
 * end of the ring (the structure is public), then a few sequential calls; two guard pages around the ring are PROT_NONE */
static void pr32(const char *k, unsigned v) { printf("\"%s\":[%u,%u]", k, v >> 16, v & 0xffff); }
static ringbuf_t hrb;
static void hstate(void) { printf(","); pr32("r", *(volatile unsigned *)&hrb.readi); printf(","); pr32("w", *(volatile unsigned *)&hrb.writei); }
static void huge_case(size_t l, unsigned r0, unsigned w0, unsigned pre)
{
	size_t maplen = (size_t)l + 2 * 4096;
	maplen = (maplen + 4095) & ~(size_t)4095;
	uint8_t *map = mmap(NULL, maplen, PROT_NONE, MAP_PRIVATE | MAP_ANONYMOUS | MAP_NORESERVE, -1, 0);
	if (map == MAP_FAILED) { fprintf(stderr, "rb_drv: cannot reserve address space\n"); exit(3); }
	uint8_t *ringp = map + 4096;
	/* the ring proper is readable and writable except that nothing here touches more than its first and last pages */
	mprotect(ringp, 2 * 4096, PROT_READ | PROT_WRITE);
	uint8_t *lastpg = (uint8_t *)(((uintptr_t)(ringp + l - 1)) & ~(uintptr_t)4095);
	mprotect(lastpg - 4096, 2 * 4096, PROT_READ | PROT_WRITE);
	/* bytes just outside the ring (same pages) carry a pattern */
	for (uint8_t *q = ringp + l; q < lastpg + 4096; q++) *q = 0xA5;
	/* ... and the pages the two indices start on (the script moves each index by a handful of slots at most) */
	for (int wh = 0; wh < 2; wh++) {
		uintptr_t a = ((uintptr_t)(ringp + (wh ? w0 : r0))) & ~(uintptr_t)4095;
		uintptr_t lo = a - 4096 < (uintptr_t)ringp ? ((uintptr_t)ringp & ~(uintptr_t)4095) : a - 4096;
		uintptr_t hi = a + 2 * 4096 > (uintptr_t)(lastpg + 4096) ? (uintptr_t)(lastpg + 4096) : a + 2 * 4096;
		mprotect((void *)lo, hi - lo, PROT_READ | PROT_WRITE);
	}
	ringbuf_init(&hrb, ringp, l);
	atomic_store(&hrb.readi, r0);
	atomic_store(&hrb.writei, w0);
	printf("{\"e\":\"BPlace\",\"len\":[%u,%u]", (unsigned)(l >> 16), (unsigned)(l & 0xffff)); hstate(); printf(","); pr32("pre", pre); printf("}\n");
	static const int script[] = { 'E', 'P', 'P', 'E', 'G', 'G', 'P', 'P', 'P', 'G', 'E', 'G', 'G', 'G', 'E', 'P', 'G' };
	int d = 7;
	for (unsigned i = 0; i < sizeof(script) / sizeof(script[0]); i++) {
		int oob = 0;
		if (script[i] == 'P') { d = (d * 13 + 5) & 0xff; bool ok = ringbuf_put(&hrb, (uint8_t)d); printf("{\"e\":\"BPut\",\"d\":%d,\"ok\":%d", d, ok); }
		else if (script[i] == 'G') { int v = ringbuf_get(&hrb); printf("{\"e\":\"BGet\",\"v\":%d", v); }
		else { bool e = ringbuf_empty(&hrb); printf("{\"e\":\"BEmpty\",\"v\":%d", e); }
		for (uint8_t *q = ringp + l; q < lastpg + 4096; q++) if (*q != 0xA5) oob++;
		hstate(); printf(",\"oob\":%d}\n", oob);
	}
	munmap(map, maplen);
}
static void huge(void)
{
	/* a ring of exactly 2^32 bytes: the largest the 32-bit indices can address (they wrap by themselves) */
	{
		size_t L = (size_t)1 << 32;
		huge_case(L, 0, 0xffffffffu, 0xffffffffu); huge_case(L, 0, 0xfffffffeu, 0xfffffffeu); huge_case(L, 0xffffffffu, 0xfffffffeu, 0xffffffffu);
		huge_case(L, 0xffffffffu, 0xffffffffu, 0); huge_case(L, 0xfffffffeu, 0xffffffffu, 1); huge_case(L, 1, 0, 0xffffffffu); huge_case(L, 5, 5, 0);
	}
	static const unsigned lens_[] = { 0x80000000u + 4096, 0x80000000u, 0x80000001u, 0x7ffffff8u, 0xc0000000u, 0xfffff000u, 0xffffffffu };
	for (unsigned k = 0; k < sizeof(lens_) / sizeof(lens_[0]); k++) {
		unsigned l = lens_[k];
		huge_case(l, 0, l - 1, l - 1);          /* full, the write index at the last slot */
		huge_case(l, 0, l - 2, l - 2);          /* room for exactly one */
		huge_case(l, l - 1, l - 2, l - 1);      /* full, the read index at the last slot */
		huge_case(l, l - 1, l - 1, 0);          /* empty at the last slot */
		huge_case(l, l - 2, l - 1, 1);
		huge_case(l, 1, 0, l - 1);              /* full, wrapped */
		/* index distances that coincide with 2^32 - len (and its neighbours) in 32-bit arithmetic */
		unsigned k1 = 0u - l;                   /* 2^32 - len, below len for every len above 2^31 */
		for (int dlt = -1; dlt <= 1; dlt++) {
			unsigned k = k1 + dlt;
			if (k == 0 || k >= l) continue;
			huge_case(l, 0, k, k);              /* k unread bytes from slot 0 */
			huge_case(l, k, 0, l - k);          /* the read index k ahead of a wrapped write index */
			if (k + 5 < l) huge_case(l, 5, k + 5, k);
		}
	}
}

int main(void)
{
	drv_cmd_t c;
	drv_install_handlers();
	while (drv_read(&c, stdin)) {
		if (drv_is(&c, "Reset")) {
			int a = 0;
			len = drv_arg(&c, a++); start = drv_arg(&c, a++);
			np = drv_arg(&c, a++);
			for (int i = 0; i < np; i++) { pk[i] = drv_arg(&c, a++); pd[i] = drv_arg(&c, a++); }
			nc = drv_arg(&c, a++);
			for (int i = 0; i < nc; i++) ck[i] = drv_arg(&c, a++);
			reset();
		} else if (drv_is(&c, "S"))
			step(drv_arg(&c, 0));
		else if (drv_is(&c, "Gen"))
			gen(drv_arg(&c, 0), drv_arg(&c, 1), drv_arg(&c, 2));
		else if (drv_is(&c, "Huge"))
			huge();
		else if (drv_is(&c, "Fill"))
			fill(drv_arg(&c, 0), drv_arg(&c, 1));
		else if (drv_is(&c, "Late"))
			late(drv_arg(&c, 0), drv_arg(&c, 1));
		else { fprintf(stderr, "rb_drv: unknown command %s\n", c.tok[0]); return 3; }
	}
	fflush(stdout);
	return 0;
}
