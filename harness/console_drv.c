/* console_drv.c - conformance driver for librfn/console.c (C15).
 *   Reset | Reg <n codes...> | Char c path | Eval <n codes...> | Streams maxlen | Random seed n | RegOrders seed | Twos seed n
 * The console structure lives on the heap (ASan redzones around it).  Commands registered by the driver capture
 * argc/argv (and check that every argv[i] is a NUL-terminated string inside the line buffer), then yield a few times. */
#define _GNU_SOURCE
#include "drv.h"
#include <librfn/console.h>
#include <librfn/fibre.h>
#include <librfn/util.h>

uint32_t time_now(void) { return 0; }
void console_hwinit(console_t *c) { (void)c; }

static console_t *con;
static FILE *devnull;
static char *obuf; static size_t olen, oseen;   /* everything the console prints (open_memstream) */
static uint32_t now;

/* ---- captured dispatches ----
 * Two command functions (capture0/capture1, chosen by the sum of the name's character codes) share one body; every entry
 * into either is logged with the console it was entered for, so that "the function that runs is the one registered under
 * the dispatched name" is checked at every resumption, also when two consoles are active.  Commands whose name ends in
 * 'b' use the scratch buffer for their own state once they have read their arguments (console.h allows exactly that). */
static console_t *con2;
static struct cap { char d[1 << 16]; size_t dlen; int ndisp; char calls[1 << 14]; size_t clen; int ncalls; int yields_left; } cap[2];
#define D(...) (k->dlen += snprintf(k->d + k->dlen, sizeof(k->d) - k->dlen, __VA_ARGS__))
static void jstr(struct cap *k, const char *s) { D("["); for (int i = 0; s[i]; i++) D("%s%u", i ? "," : "", (unsigned char)s[i]); D("]"); }
static void cap_clear(void) { for (int i = 0; i < 2; i++) { cap[i].dlen = 0; cap[i].ndisp = 0; cap[i].d[0] = 0; cap[i].clen = 0; cap[i].ncalls = 0; cap[i].calls[0] = 0; } }
static int inside(console_t *c, const char *p)
{
	if (p < c->scratch.buf || p >= c->scratch.buf + sizeof(c->scratch.buf)) return 0;
	return memchr(p, 0, (size_t)(c->scratch.buf + sizeof(c->scratch.buf) - p)) != NULL;
}
static pt_state_t capture_body(console_t *c, int fnid)
{
	struct cap *k = &cap[c == con2];
	k->clen += snprintf(k->calls + k->clen, sizeof(k->calls) - k->clen, "%s%d", k->ncalls++ ? "," : "", fnid);
	PT_BEGIN(&c->pt);
	D("%s{\"name\":", k->ndisp++ ? "," : "");
	jstr(k, c->cmd->name);
	D(",\"argc\":%d,\"ok\":%d,\"argv\":[", c->argc, inside(c, c->argv[0]) && inside(c, c->argv[1]) && inside(c, c->argv[2]) && inside(c, c->argv[3]));
	for (int i = 0; i < 4; i++) { D("%s", i ? "," : ""); if (inside(c, c->argv[i])) jstr(k, c->argv[i]); else D("[0]"); }
	D("]}");
	k->yields_left = (int)(strlen(c->cmd->name) % 3);       /* exit at once, or yield once or twice */
	if (c->cmd->name[strlen(c->cmd->name) - 1] == 'b')
		memset(c->scratch.u8, 'Z', sizeof(c->scratch.u8));   /* command state kept in the scratch buffer */
	while (k->yields_left-- > 0)
		PT_YIELD();
	PT_FAIL_ON(c->cmd->name[0] == 'c');                      /* commands named c... fail: "Command failed" */
	PT_END();
}
static pt_state_t capture0(console_t *c) { return capture_body(c, 0); }
static pt_state_t capture1(console_t *c) { return capture_body(c, 1); }

#define MAXCMD 64
static console_cmd_t cmds[MAXCMD];
static int ncmds;

static void reset(void)
{
	console_verif_reset();
	fibre_verif_reset();
	for (int i = 0; i < ncmds; i++) free((char *)cmds[i].name);
	ncmds = 0;
	free(con);
	con = malloc(sizeof(*con));
	if (devnull) { fclose(devnull); free(obuf); }
	obuf = NULL; olen = 0; oseen = 0;
	devnull = open_memstream(&obuf, &olen);
	console_init(con, devnull);
	now = 0;
	cap_clear();
	printf("{\"e\":\"Reset\"}\n");
}
static void out_json(void)
{
	fflush(devnull);
	printf("\"out\":[");
	for (size_t i = oseen; i < olen; i++) printf("%s%u", i > oseen ? "," : "", (unsigned char)obuf[i]);
	printf("],\"pr\":[");
	for (int i = 0; con->prompt && con->prompt[i]; i++) printf("%s%u", i ? "," : "", (unsigned char)con->prompt[i]);
	printf("],");
	oseen = olen;
}
static void line_json_of(console_t *c, const char *key)
{
	printf("\"%s\":[", key);
	int n = (int)(c->bufp - c->scratch.buf);
	if (n < 0 || n > 80) n = 0;
	for (int i = 0; i < n; i++) printf("%s%u", i ? "," : "", (unsigned char)c->scratch.buf[i]);
	printf("]");
}
static void line_json(void) { line_json_of(con, "line"); }
static void settle(void)
{
	for (int i = 0; i < 200; i++) {
		uint32_t r = fibre_scheduler_next(now);
		if (r != now) break;
	}
}
static void do_reg(const unsigned char *name, int n)
{
	char *s = malloc(n + 1);
	memcpy(s, name, n); s[n] = 0;
	int r = -2;
	if (ncmds < MAXCMD) {
		cmds[ncmds].name = s;
		int sum = 0; for (int i = 0; i < n; i++) sum += name[i];
		cmds[ncmds].fn = (sum % 2) ? capture1 : capture0;
		r = console_register(&cmds[ncmds]);
		ncmds++;
	}
	printf("{\"e\":\"Reg\",\"name\":[");
	for (int i = 0; i < n; i++) printf("%s%u", i ? "," : "", name[i]);
	printf("],\"r\":%d}\n", r);
}
static void do_char(int ch, int path)
{
	cap_clear();
	if (path == 0) console_process(con, (char)ch);
	else { console_putchar(con, (char)ch); settle(); }
	printf("{\"e\":\"Char\",\"c\":%d,\"path\":%d,\"disp\":[%s],\"calls\":[%s],", ch, path, cap[0].d, cap[0].calls);
	out_json();
	line_json();
	printf("}\n");
}
/* console_eval driven by a fibre of its own */
static pt_t evalpt;
static const char *evalstr;
static int evaldone;
static fibre_t evalfibre;
static int evalfn(fibre_t *f)
{
	(void)f;
	int r = console_eval(&evalpt, con, evalstr);
	if (r >= PT_EXITED) evaldone++;
	return r;
}
static void do_eval(const unsigned char *s, int n)
{
	char *str = malloc(n + 1);
	memcpy(str, s, n); str[n] = 0;
	cap_clear();
	evalstr = str; evaldone = 0;
	PT_INIT(&evalpt);
	fibre_init(&evalfibre, evalfn);
	fibre_run(&evalfibre);
	settle();
	printf("{\"e\":\"Eval\",\"s\":[");
	for (int i = 0; i < n; i++) printf("%s%u", i ? "," : "", s[i]);
	printf("],\"done\":%d,\"disp\":[%s],\"calls\":[%s],", evaldone, cap[0].d, cap[0].calls);
	out_json();
	line_json();
	printf("}\n");
	if (!evaldone) fibre_kill(&evalfibre);      /* never completed: withdraw it before its string goes away */
	free(str);
}

/* a burst of characters from the input interrupt with NO scheduler pass in between, while `pending` wake-ups for other fibres
 * already sit in the scheduler's interrupt-safe queue (eight fill it: the console's own wake-ups are then refused); the
 * scheduler runs; one more key is typed.  The ring holds 15 characters: what fitted is processed as typed, the rest is lost. */
static fibre_t idlers[10];
static int idler_body(fibre_t *f) { (void)f; return PT_EXITED; }
static void do_flood(const unsigned char *s, int n, int pending, int key)
{
	cap_clear();
	for (int i = 0; i < pending && i < 10; i++) { fibre_init(&idlers[i], idler_body); fibre_run_atomic(&idlers[i]); }
	for (int i = 0; i < n; i++) console_putchar(con, (char)s[i]);
	settle();
	console_putchar(con, (char)key);
	settle();
	printf("{\"e\":\"Flood\",\"s\":[");
	for (int i = 0; i < n; i++) printf("%s%u", i ? "," : "", s[i]);
	printf("],\"pending\":%d,\"key\":%d,\"disp\":[%s],\"calls\":[%s],", pending, key, cap[0].d, cap[0].calls);
	out_json();
	line_json();
	printf("}\n");
}
static void floods(void)
{
	static const char *bursts[] = { "a b\n", "ab x y\nab", "a b\nab c\nabcde", "a b\nab c\nabcd", "a b\nab c\nabcdef", "abcdefghijklmnopqrst\n", "\n\n\n\n\n\n\n\n\n\n\n\n\n\n\n\n" };
	static const unsigned char n1[] = { 97 }, n2[] = { 97, 98 };
	for (unsigned b = 0; b < sizeof(bursts) / sizeof(bursts[0]); b++)
		for (int pending = 0; pending <= 9; pending += (pending < 7 ? 7 : 1)) {
			reset(); do_reg(n2, 2); do_reg(n1, 1);
			do_char(10, 1);                                   /* the console has shown its prompt and waits */
			do_flood((const unsigned char *)bursts[b], (int)strlen(bursts[b]), pending, b & 1 ? 10 : 'z');
			do_char(10, 1); do_char(97, 1); do_char(10, 1);   /* and it is still alive afterwards */
		}
}
/* an injection that its owner gives up on: the string does not fit the ring, the injecting fibre is killed while it waits
 * for room; what had been injected so far is in the line (reported as an Eval of exactly those characters), the rest never
 * arrives - and the next injection starts from the beginning of ITS string */
static void do_eval_abandon(int len)
{
	char *str = malloc(len + 1);
	memset(str, 'a', len); str[len] = 0;
	cap_clear();
	evalstr = str; evaldone = 0;
	PT_INIT(&evalpt);
	fibre_init(&evalfibre, evalfn);
	evalfn(&evalfibre);                   /* one activation: fills the ring, finds it full, yields */
	fibre_kill(&evalfibre);               /* the owner gives up */
	settle();                             /* the console consumes what did arrive */
	int got = 0;
	for (const char *q = con->scratch.buf; *q == 'a' && got < len; q++) got++;
	printf("{\"e\":\"Eval\",\"s\":[");
	for (int i = 0; i < got; i++) printf("%s97", i ? "," : "");
	printf("],\"done\":1,\"disp\":[%s],\"calls\":[%s],", cap[0].d, cap[0].calls);
	out_json();
	line_json();
	printf("}\n");
	free(str);
}
static const unsigned char alpha[] = { 97, 98, 32, 9, 39, 34, 8, 3, 10 };
static void streams(int maxlen, int path)
{
	/* every stream over the reduced alphabet of exactly maxlen characters, then a newline */
	long total = 1;
	for (int i = 0; i < maxlen; i++) total *= 9;
	static const unsigned char n1[] = { 97 }, n2[] = { 97, 98 }, n3[] = { 98 };
	for (long x = 0; x < total; x++) {
		if (x % 2000 == 0) { reset(); do_reg(n2, 2); do_reg(n1, 1); do_reg(n3, 1); }
		long y = x;
		for (int i = 0; i < maxlen; i++) { do_char(alpha[y % 9], path); y /= 9; }
		do_char(10, path);
	}
}
static void gen_line(unsigned char *b, int len)
{
	for (int i = 0; i < len; i++) {
		unsigned x = drv_below(100);
		b[i] = x < 45 ? 97 + drv_below(3) : x < 65 ? 32 : x < 70 ? 9 : x < 78 ? 39 : x < 84 ? 34 : x < 92 ? 8 : x < 94 ? 3 : 33 + drv_below(90);
	}
}
static void randoms(long seed, int n)
{
	unsigned char b[400];
	drv_srand(seed);
	for (int x = 0; x < n; x++) {
		if (x % 20 == 0) {
			reset();
			int nr = drv_below(6);
			for (int k = 0; k < nr; k++) { unsigned char nm[3]; int l = 1 + drv_below(3); for (int j = 0; j < l; j++) nm[j] = 97 + drv_below(3); do_reg(nm, l); }
		}
		int len = drv_below(3) == 0 ? 70 + drv_below(100) : drv_below(30);   /* lines around the 79 character limit */
		gen_line(b, len);
		if (drv_below(5) == 0 && len >= 4) memcpy(b, drv_below(2) ? "echo" : "help", 4);       /* the built-in commands */
		int mode = drv_below(5);
		if (mode == 4) {                    /* console_eval: no control characters, ends in newline, one or more lines */
			for (int i = 0; i < len; i++) if (b[i] < 32) b[i] = 32;
			if (len > 60) len = 60;
			if (drv_below(3) == 0 && len > 4) b[len / 2] = 10;
			b[len++] = 10;
			do_eval(b, len);
		} else {
			int path = mode & 1;
			for (int i = 0; i < len; i++) do_char(b[i], path);
			do_char(10, path);
		}
	}
}

/* two consoles, each with its own fibre, stream and line: a line is typed into each, character by character in turn, and
 * the scheduler runs either once both lines are complete (mode 0: the two commands' yields interleave) or after every
 * pair of characters (mode 1) */
static void codes(const char *key, const unsigned char *s, int n)
{
	printf("\"%s\":[", key);
	for (int i = 0; i < n; i++) printf("%s%u", i ? "," : "", s[i]);
	printf("],");
}
static void do_two(const unsigned char *a, int na, const unsigned char *b, int nb, int mode)
{
	char *o2 = NULL; size_t o2len = 0;
	FILE *f2 = open_memstream(&o2, &o2len);
	con2 = malloc(sizeof(*con2));
	console_init(con2, f2);
	settle();
	cap_clear();
	for (int i = 0; i < na || i < nb; i++) {
		if (i < na) console_putchar(con, (char)a[i]);
		if (i < nb) console_putchar(con2, (char)b[i]);
		if (mode) settle();
	}
	settle();
	printf("{\"e\":\"Two\",\"mode\":%d,", mode);
	codes("la", a, na); codes("lb", b, nb);
	printf("\"da\":[%s],\"db\":[%s],\"ca\":[%s],\"cb\":[%s],", cap[0].d, cap[1].d, cap[0].calls, cap[1].calls);
	line_json_of(con, "line"); printf(","); line_json_of(con2, "lineb");
	printf("}\n");
	fflush(devnull); oseen = olen;             /* output of this event is not judged */
	fibre_kill(&con2->fibre);
	fibre_run(&con->fibre); settle();          /* the scheduler remembers the fibre it ran last: make that the surviving console's */
	fclose(f2); free(o2);
	free(con2); con2 = NULL;
}
static void twos(long seed, int n)
{
	unsigned char a[16], b[16];
	drv_srand(seed);
	for (int x = 0; x < n; x++) {
		if (x % 25 == 0) {
			reset();
			static const char *fixed[] = { "ab", "b", "a", "cab" };           /* differing functions, yield counts, a failing one */
			for (int k = 0; k < 4; k++) do_reg((const unsigned char *)fixed[k], (int)strlen(fixed[k]));
			int nr = drv_below(4);
			for (int k = 0; k < nr; k++) { unsigned char nm[3]; int l = 1 + drv_below(3); for (int j = 0; j < l; j++) nm[j] = 97 + drv_below(3); do_reg(nm, l); }
		}
		unsigned char *ln[2] = { a, b }; int len[2];
		for (int w = 0; w < 2; w++) {
			int l = 0;
			if (drv_below(8)) { int idx = drv_below(ncmds); l = (int)strlen(cmds[idx].name); memcpy(ln[w], cmds[idx].name, l); }
			int extra = drv_below(14 - l);
			gen_line(ln[w] + l, extra);
			for (int i = l; i < l + extra; i++) if (ln[w][i] == 3) ln[w][i] = 32;
			l += extra;
			ln[w][l++] = 10;
			len[w] = l;
		}
		do_two(a, len[0], b, len[1], x & 1);
	}
}
/* names in both cases, digits, punctuation on either side of the letters, bytes above 127: registered in several orders,
 * then every registered name is typed (and a few that are not registered) */
static void regcase(long seed)
{
	static const char *pool[] = { "Zap", "zap", "ZAP", "Boot", "apple", "Apple", "B", "b", "_x", "~x", "0", "9z", "Echo", "HELP", "helpx", "ech",
				      "\303\251", "a-b", "A", "a", "Az", "aZ", "[", "{", "@", "`" };
	int np = sizeof(pool) / sizeof(pool[0]);
	drv_srand(seed);
	for (int round = 0; round < 8; round++) {
		reset();
		int order[32];
		for (int i = 0; i < np; i++) order[i] = i;
		for (int i = np - 1; i > 0; i--) { int j = drv_below(i + 1), t = order[i]; order[i] = order[j]; order[j] = t; }
		if (round == 0) for (int i = 0; i < np; i++) order[i] = i;
		if (round == 1) for (int i = 0; i < np; i++) order[i] = np - 1 - i;
		int count = round < 2 ? np : 3 + drv_below(np - 3);
		for (int k = 0; k < count; k++) do_reg((const unsigned char *)pool[order[k]], (int)strlen(pool[order[k]]));
		for (int k = 0; k < np; k++) {
			const char *nm = pool[k];
			for (int j = 0; nm[j]; j++) do_char((unsigned char)nm[j], k & 1);
			do_char(32, k & 1); do_char(120, k & 1);
			do_char(10, k & 1);
		}
	}
}
/* names at and beyond the longest token a line can hold (79 characters): one that cannot be typed at all must never run,
 * whatever prefix of it is typed; a 79-character name typed in full runs */
static void longnames(void)
{
	unsigned char nm[96];
	static const int lens[] = { 93, 80, 79, 78, 2 };
	for (int path = 0; path < 2; path++)
		for (int order = 0; order < 4; order++) {
			reset();
			for (int k = 0; k < 5; k++) {
				int l = lens[order & 1 ? 4 - k : k];
				if (l == 79 && order >= 2) continue;       /* without the name that can just be typed */
				memset(nm, 'k', sizeof(nm));
				if (l > 80) memcpy(nm + 79, "-factory-reset", 14);
				do_reg(nm, l);
			}
			for (int tl = 77; tl <= 81; tl++) {
				for (int j = 0; j < tl; j++) do_char('k', path);
				do_char(10, path);
				do_char(10, path);
			}
			for (int j = 0; j < 2; j++) do_char('k', path);
			do_char(10, path);
		}
}
/* degenerate injections: the empty string, a lone newline, strings without a newline; whatever is injected, the line typed
 * afterwards runs as typed */
static void evaledge(void)
{
	static const char *inj[] = { "", "\n", "b", "", "b q\n", "\n\n", "", "ab", "" };
	static const unsigned char n1[] = { 97 }, n2[] = { 97, 98 }, n3[] = { 98 };
	for (int path = 0; path < 2; path++) {
		reset(); do_reg(n2, 2); do_reg(n1, 1); do_reg(n3, 1);
		for (unsigned i = 0; i < sizeof(inj) / sizeof(inj[0]); i++) {
			do_eval((const unsigned char *)inj[i], (int)strlen(inj[i]));
			if (i % 2 == 0) { do_char(97, path); do_char(32, path); do_char(120, path); do_char(10, path); }
		}
		do_char(98, path); do_char(10, path);
		/* abandoned injections of several lengths, each followed by Ctrl-C and a complete injection that must run once */
		for (int len = 14; len <= 40; len += 5) {
			do_eval_abandon(len);
			do_char(3, path);
			do_eval((const unsigned char *)"b q\n", 4);
			do_eval_abandon(len + 1);
			do_char(10, path);
			do_eval((const unsigned char *)"ab\n", 3);
		}
	}
}
static void regorders(long seed)
{
	drv_srand(seed);
	for (int round = 0; round < 6; round++) {
		reset();
		unsigned char nm[4];
		int count = round < 3 ? 29 + round : 10 + drv_below(30);     /* up to and beyond the table capacity */
		for (int k = 0; k < count; k++) {
			int l = 1 + drv_below(3);
			for (int j = 0; j < l; j++) nm[j] = 97 + drv_below(4);
			do_reg(nm, l);
		}
		for (int k = 0; k < 40; k++) {
			int l = 1 + drv_below(3);
			for (int j = 0; j < l; j++) { nm[j] = 97 + drv_below(4); do_char(nm[j], k & 1); }
			do_char(32, k & 1); do_char(120, k & 1);
			do_char(10, k & 1);
		}
	}
}

int main(void)
{
	drv_cmd_t c;
	unsigned char b[512];
	drv_install_handlers();
	reset();
	while (drv_read(&c, stdin)) {
		if (drv_is(&c, "Reset")) reset();
		else if (drv_is(&c, "Reg") || drv_is(&c, "Register")) { int n = drv_arg(&c, 0); for (int i = 0; i < n; i++) b[i] = drv_arg(&c, 1 + i); do_reg(b, n); }
		else if (drv_is(&c, "Char")) do_char(drv_arg(&c, 0), c.ntok > 2 ? drv_arg(&c, 1) : 0);
		else if (drv_is(&c, "Eval")) { int n = drv_arg(&c, 0); for (int i = 0; i < n; i++) b[i] = drv_arg(&c, 1 + i); do_eval(b, n); }
		else if (drv_is(&c, "Streams")) streams(drv_arg(&c, 0), drv_arg(&c, 1));
		else if (drv_is(&c, "Random")) randoms(drv_arg(&c, 0), drv_arg(&c, 1));
		else if (drv_is(&c, "RegOrders")) regorders(drv_arg(&c, 0));
		else if (drv_is(&c, "RegCase")) regcase(drv_arg(&c, 0));
		else if (drv_is(&c, "EvalEdge")) evaledge();
		else if (drv_is(&c, "LongNames")) longnames();
		else if (drv_is(&c, "Floods")) floods();
		else if (drv_is(&c, "Twos")) twos(drv_arg(&c, 0), drv_arg(&c, 1));
		else { fprintf(stderr, "console_drv: unknown command %s\n", c.tok[0]); return 3; }
	}
	fflush(stdout);
	return 0;
}
