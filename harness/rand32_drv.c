/* rand32_drv.c - librfn/rand.c built for an ILP32 target (gcc -m32; librfn's real targets are 32-bit microcontrollers) and
 * swept over all 2^31-2 states (C17).  Freestanding: no 32-bit C library is installed here, so the program has its own _start
 * and talks to the kernel directly.  The oracle is Schrage's form of 16807*s mod (2^31-1) - the ParkMiller operator of
 * spec/Rand31.tla, every intermediate value below 2^31 - and a handful of vectors are printed as ordinary "R" events so that
 * TLC validates oracle and function on them before the sweep's tally is believed. */
#include <stdint.h>
#include <librfn/rand.h>

static long sys3(long n, long a, long b, long c)
{
	long r;
	__asm__ volatile("int $0x80" : "=a"(r) : "a"(n), "b"(a), "c"(b), "d"(c) : "memory");
	return r;
}
static char obuf[8192];
static unsigned olen;
static void flush(void) { if (olen) sys3(4, 1, (long)obuf, olen); olen = 0; }
static void puts_(const char *s) { while (*s) { if (olen == sizeof(obuf)) flush(); obuf[olen++] = *s++; } }
static void putu(uint32_t v) { char t[12]; int n = 0; do { t[n++] = '0' + v % 10; v /= 10; } while (v); while (n) { char c[2] = { t[--n], 0 }; puts_(c); } }
static void pair(const char *k, uint32_t v) { puts_("\""); puts_(k); puts_("\":["); putu(v >> 16); puts_(","); putu(v & 0xffff); puts_("]"); }

/* Rand31.tla: ParkMiller(s) == LET t == 16807 * (s % 127773) - 2836 * (s \div 127773) IN IF t < 0 THEN t + M31 ELSE t */
static uint32_t schrage(uint32_t s)
{
	int32_t t = 16807 * (int32_t)(s % 127773) - 2836 * (int32_t)(s / 127773);
	return (uint32_t)(t < 0 ? t + 0x7fffffff : t);
}
static void vec(uint32_t s)
{
	uint32_t seed = s, r = rand31_r(&seed), o = schrage(s);
	puts_("{\"e\":\"R\","); pair("s", s); puts_(","); pair("r", r); puts_(","); pair("seed", seed); puts_(","); pair("o", o); puts_("}\n");
}
void _start(void)
{
	static const uint32_t vs[] = { 1, 2, 16807, 127772, 127773, 127774, 255546, 255547, 255548, 65535, 65536, 20443707, 868985321, 1407677000,
				       1737970642, 0x3fffffff, 0x40000000, 0x7ffffffd, 0x7ffffffe };
	for (unsigned i = 0; i < sizeof(vs) / sizeof(vs[0]); i++) vec(vs[i]);
	uint32_t s = 1;
	for (int i = 0; i < 3000; i++) { vec(s); s = schrage(s); }
	uint32_t bad = 0, first = 0, n = 0;
	for (s = 1; s < 0x7fffffffu; s++) {
		uint32_t seed = s, r = rand31_r(&seed), e = schrage(s);
		if ((r != e || seed != e || e == 0 || e >= 0x7fffffffu) && !bad++) first = s;
		n++;
	}
	puts_("{\"e\":\"Sweep\","); pair("n", n); puts_(",\"bad\":"); putu(bad > 1000000 ? 1000000 : bad); puts_(","); pair("first", first); puts_(",\"ilp32\":1}\n");
	flush();
	sys3(1, 0, 0, 0);
	for (;;) ;
}
