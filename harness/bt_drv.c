/* bt_drv.c - conformance driver for librfn/bintree.c (C11).  bintree.c is not part of the library build; it is
 * compiled directly.  Every node is an individual malloc block (ASan sees any access after deallocation).
 *   All maxnodes      every shape with 0..maxnodes nodes (pre-order numbering) x {in, pre, post, free} + list spines
 *   Random seed n max random and degenerate large shapes */
#define _GNU_SOURCE
#include "drv.h"
#include <pthread.h>
#include <librfn/bintree.h>
#include <librfn/util.h>

uint32_t time_now(void) { return 0; }
#define MAXN 400
typedef struct { bintree_node_t node; int id; int islist; } tn_t;
static tn_t *nodes[MAXN + 1];
static char *blocks[MAXN + 1];   /* the malloc blocks; nodes sit at offset 0 or 2 inside them */
static int misalign;              /* alternate runs place nodes at addresses that are only 2-byte aligned (2 mod 4) */
static int freed[MAXN + 1];
static int n, L[MAXN + 1], R[MAXN + 1], ISL[MAXN + 1];
static const char *curmode;

static int idx(bintree_node_t *p)
{
	p = (bintree_node_t *)((uintptr_t)p & ~(uintptr_t)1);
	if (!p) return 0;
	for (int i = 1; i <= n; i++) if (!freed[i] && &nodes[i]->node == p) return i;
	return 999;
}
static void build(void)
{
	misalign = !misalign;
	for (int i = 1; i <= n; i++) { blocks[i] = malloc(sizeof(tn_t) + 2); nodes[i] = (tn_t *)(blocks[i] + (misalign ? 2 : 0)); nodes[i]->id = i; nodes[i]->islist = ISL[i]; freed[i] = 0; }
	for (int i = 1; i <= n; i++) {
		nodes[i]->node.left = L[i] ? &nodes[L[i]]->node : NULL;
		nodes[i]->node.right = R[i] ? &nodes[R[i]]->node : NULL;
	}
}
static void teardown(void) { for (int i = 1; i <= n; i++) if (!freed[i]) free(blocks[i]); }
static void arr(const char *k, int *a) { printf("\"%s\":[", k); for (int i = 1; i <= n; i++) printf("%s%d", i > 1 ? "," : "", a[i]); printf("]"); }
static void emit_reset(const char *mode)
{
	curmode = mode;
	printf("{\"e\":\"Reset\",\"mode\":\"%s\",\"n\":%d,", mode, n);
	arr("left", L); printf(","); arr("right", R); printf(","); arr("isl", ISL); printf("}\n");
}
static const char *step_name = "Step";
static void emit_step(int ret)
{
	int l[MAXN + 1], r[MAXN + 1], t[MAXN + 1], f[MAXN + 1];
	for (int i = 1; i <= n; i++) {
		f[i] = freed[i];
		if (freed[i]) { l[i] = r[i] = t[i] = -1; continue; }
		l[i] = idx(nodes[i]->node.left); r[i] = idx(nodes[i]->node.right); t[i] = (int)((uintptr_t)nodes[i]->node.left & 1);
	}
	printf("{\"e\":\"%s\",\"ret\":%d,", step_name, ret);
	arr("left", l); printf(","); arr("right", r); printf(","); arr("tag", t); printf(","); arr("freed", f); printf("}\n");
}
static bool is_list(bintree_node_t *p) { return p && containerof(p, tn_t, node)->islist; }
static void quiet_dealloc(bintree_node_t *p) { free(p); }
static void dealloc(bintree_node_t *p)
{
	int i = idx(p);
	emit_step(i);                      /* state as bintree_free sees it when it hands the node over */
	{       /* a deallocator may own and free other trees: bintree_free must be re-entrant */
		bintree_node_t *a = calloc(1, sizeof(*a)), *b = calloc(1, sizeof(*b));
		a->left = b;
		bintree_free(a, quiet_dealloc);
	}
	if (i >= 1 && i <= n && !freed[i]) { freed[i] = 1; memset(nodes[i], 0xDD, sizeof(tn_t)); free(blocks[i]); }
}
static int flog[MAXN + 1], nflog;
static void dealloc2(bintree_node_t *p) { int i = idx(p); flog[nflog++] = i; if (i >= 1 && i <= n && !freed[i]) { freed[i] = 1; memset(nodes[i], 0xDD, sizeof(tn_t)); free(blocks[i]); } }
/* the typed wrappers the header generates for a user's node type: what application code actually calls */
static inline tn_t *tw_from(bintree_node_t *p) { return p ? containerof(p, tn_t, node) : NULL; }
static inline bintree_node_t *tw_to(tn_t *t) { return t ? &t->node : NULL; }
BINTREE_DECLARE_INLINE_WRAPPERS(tw, tn_t, tw_from, tw_to, dealloc2)
static void run_mode(const char *mode)
{
	bintree_iterator_t it;
	memset(&it, 0, sizeof(it));
	build();
	emit_reset(mode);
	bintree_node_t *root = n ? &nodes[1]->node : NULL;
	if (!strcmp(mode, "free")) {
		if (root) bintree_free(root, dealloc);
		emit_step(0);
	} else {
		bintree_node_t *p;
		static unsigned altw;
		int typed = altw++ & 1;            /* alternate runs go through the header's typed wrappers */
		tn_t *troot = n ? nodes[1] : NULL;
		if (!strcmp(mode, "in")) p = typed ? tw_to(tw_iterate_in_order(&it, troot)) : bintree_iterate_in_order(&it, root);
		else if (!strcmp(mode, "pre")) p = typed ? tw_to(tw_iterate_pre_order(&it, troot)) : bintree_iterate_pre_order(&it, root);
		else if (!strcmp(mode, "post")) p = typed ? tw_to(tw_iterate_post_order(&it, troot)) : bintree_iterate_post_order(&it, root);
		else p = bintree_iterate_list(&it, root, is_list);
		int guard = 3 * n + 5;
		static bintree_node_t dnode;
		bintree_iterator_t decoy, *sel[2];
		unsigned lock = 0;
		memset(&dnode, 0, sizeof(dnode));
		bintree_iterate_in_order(&decoy, &dnode);
		/* on some runs the walk is abandoned after a few nodes and run to its end by bintree_iterate_complete */
		static unsigned abandon;
		int quit_after = (++abandon % 3 == 0 && strcmp(mode, "list")) ? (int)(abandon / 3 % (n + 1)) : -1;
		for (;;) {
			emit_step(idx(p));
			if (!p || !guard--) break;
			if (quit_after-- == 0) {
				if (typed) tw_iterate_complete(&it); else bintree_iterate_complete(&it);
				step_name = "Complete"; emit_step(0); step_name = "Step";
				p = NULL;
				break;
			}
			if (typed) p = tw_to(tw_next(&it));
			else if (altw & 2) {
				/* a caller that walks two trees in lock step: the argument has a side effect, a function
				 * evaluates it once (the other iterator stands on a one-node tree of its own) */
				sel[0] = &it; sel[1] = &decoy;
				p = bintree_next(sel[lock++ & 1]);
				lock++;
			} else p = bintree_next(&it);
		}
		/* asking again after the end: still the end, the tree still as it was */
		for (int again = 0; again < 2 && !p; again++) { p = bintree_next(&it); emit_step(idx(p)); }
	}
	teardown();
}
/* bintree_free_left / bintree_free_right: the subtree goes, the parent's link is cleared, the rest is untouched */
static void run_freesub(int right)
{
	static unsigned alt;
	if (!n) return;
	build();
	nflog = 0;
	if (alt++ & 1) { if (right) tw_free_right(nodes[1]); else tw_free_left(nodes[1]); }
	else if (right) bintree_free_right(&nodes[1]->node, dealloc2); else bintree_free_left(&nodes[1]->node, dealloc2);
	printf("{\"e\":\"FreeSub\",\"side\":\"%s\",\"n\":%d,", right ? "right" : "left", n);
	arr("left", L); printf(","); arr("right", R); printf(",\"out\":[");
	for (int i = 0; i < nflog; i++) printf("%s%d", i ? "," : "", flog[i]);
	printf("],");
	int l[MAXN + 1], r[MAXN + 1], f[MAXN + 1];
	for (int i = 1; i <= n; i++) { f[i] = freed[i]; l[i] = freed[i] ? -1 : idx(nodes[i]->node.left); r[i] = freed[i] ? -1 : idx(nodes[i]->node.right); }
	arr("aleft", l); printf(","); arr("aright", r); printf(","); arr("freed", f); printf("}\n");
	teardown();
}
/* shapes in pre-order numbering */
static int gen_shape(int lo, int cnt, long *code)
{
	/* decode one shape of cnt nodes rooted at lo from *code (mixed radix over the split sizes); returns next free label */
	if (cnt == 0) return lo;
	int k = (int)(*code % cnt); *code /= cnt;         /* size of the left subtree */
	L[lo] = k ? lo + 1 : 0;
	int nxt = gen_shape(lo + 1, k, code);
	R[lo] = (cnt - 1 - k) ? nxt : 0;
	return gen_shape(nxt, cnt - 1 - k, code);
}
static long nshapes(int cnt) { static const long cat[] = { 1, 1, 2, 5, 14, 42, 132, 429, 1430, 4862, 16796 }; return cat[cnt]; }
/* enumerate all shapes by recursive construction */
static void enum_shapes(int lo, int cnt, int pos[], void (*cb)(void));
static void all_for_size(int cnt);
static int shape_stack[MAXN];
static void rec(int *sizes, int nsz, int i, void (*cb)(void));

static void do_all_modes(void)
{
	static const char *modes[] = { "in", "pre", "post", "free" };
	for (int m = 0; m < 4; m++) { run_mode(modes[m]); if (n <= 6) run_mode(modes[m]); }   /* small shapes: aligned and 2-mod-4 placement */
	run_freesub(0); run_freesub(1);
}
/* catalan enumeration: assign left-subtree sizes recursively */
static void enum_tree(int lo, int cnt, void (*cont)(void *), void *ctx);
struct frame { int lo, cnt; struct frame *next; };
static void enum_rec(struct frame *todo)
{
	if (!todo) { do_all_modes(); return; }
	struct frame *rest = todo->next;
	int lo = todo->lo, cnt = todo->cnt;
	if (cnt == 0) { enum_rec(rest); return; }
	for (int k = 0; k < cnt; k++) {
		L[lo] = k ? lo + 1 : 0;
		R[lo] = (cnt - 1 - k) ? lo + 1 + k : 0;
		struct frame fr = { lo + 1 + k, cnt - 1 - k, rest };
		struct frame fl = { lo + 1, k, &fr };
		enum_rec(&fl);
	}
}
static void spines(int maxk)
{
	for (int k = 0; k <= maxk; k++)
		for (int side = 0; side < 5; side++) {
			/* 0: left-leaning; 1: right-leaning closed by an element; 2: right-leaning closed by a childless list node
			 * (cons style "nil"); 3: right-leaning closed by a NULL pointer */
			/* 4: right-leaning, closed by an element that is itself a tree (a non-list node with two children) */
			if (side == 3 && k == 0) continue;
			n = side == 3 ? 2 * k : side == 4 ? 2 * k + 3 : 2 * k + 1;
			if (n > MAXN) continue;
			for (int i = 1; i <= n; i++) { L[i] = R[i] = 0; ISL[i] = i <= k || (side == 2 && i == 2 * k + 1); }
			for (int i = 1; i <= k; i++) {
				if (side == 0) { L[i] = i < k ? i + 1 : 2 * k + 1; R[i] = k + i; }
				else { L[i] = k + i; R[i] = i < k ? i + 1 : (side == 3 ? 0 : 2 * k + 1); }
			}
			if (side == 4) { L[2 * k + 1] = 2 * k + 2; R[2 * k + 1] = 2 * k + 3; }
			run_mode("list");
			for (int i = 1; i <= n; i++) ISL[i] = 0;
		}
}
static void random_shape(int cnt)
{
	/* random insertion shape, renumbered in pre-order */
	int l[MAXN + 1] = { 0 }, r[MAXN + 1] = { 0 }, key[MAXN + 1];
	for (int i = 1; i <= cnt; i++) key[i] = drv_rand();
	for (int i = 2; i <= cnt; i++) {
		int c = 1;
		for (;;) { int *nx = key[i] < key[c] ? &l[c] : &r[c]; if (!*nx) { *nx = i; break; } c = *nx; }
	}
	int map[MAXN + 1], stack[MAXN + 1], sp = 0, next = 1;
	if (cnt) stack[sp++] = 1;
	while (sp) { int c = stack[--sp]; map[c] = next++; if (r[c]) stack[sp++] = r[c]; if (l[c]) stack[sp++] = l[c]; }
	n = cnt;
	for (int i = 1; i <= cnt; i++) { L[map[i]] = l[i] ? map[l[i]] : 0; R[map[i]] = r[i] ? map[r[i]] : 0; ISL[i] = 0; }
}
/* very deep degenerate trees: freed (and iterated) inside a thread with a small stack; the oracle for these sizes is the
 * driver's own bookkeeping (every node once, children before parents), the specification checks the tallies */
static int deep_n, deep_kind, deep_freed, deep_ok, deep_iter;
static bintree_node_t **deep_nodes;
static char *deep_gone;
static void deep_dealloc(bintree_node_t *p)
{
	long i = -1;
	/* nodes are allocated in one array of pointers in pre-order: find by stored index (the node's slot is kept in its own block) */
	i = *(long *)((char *)p + sizeof(bintree_node_t));
	if (i < 0 || i >= deep_n || deep_gone[i]) { deep_ok = 0; return; }
	if (i + 1 < deep_n && !deep_gone[i + 1]) deep_ok = 0;      /* in a chain the only child is the next node: children first */
	deep_gone[i] = 1;
	deep_freed++;
	free(p);
}
static void *deep_thread(void *arg)
{
	(void)arg;
	bintree_iterator_t it;
	int cnt = 0;
	for (bintree_node_t *p = bintree_iterate_post_order(&it, deep_nodes[0]); p; p = bintree_next(&it)) cnt++;
	deep_iter = cnt;
	bintree_free(deep_nodes[0], deep_dealloc);
	return NULL;
}
static void deep(int n, int kind)
{
	deep_n = n; deep_kind = kind; deep_freed = 0; deep_ok = 1; deep_iter = 0;
	deep_nodes = calloc(n, sizeof(*deep_nodes));
	deep_gone = calloc(n, 1);
	for (int i = 0; i < n; i++) { deep_nodes[i] = calloc(1, sizeof(bintree_node_t) + sizeof(long)); *(long *)((char *)deep_nodes[i] + sizeof(bintree_node_t)) = i; }
	for (int i = 0; i + 1 < n; i++) {
		int left = kind == 0 ? 1 : kind == 1 ? 0 : (i & 1);
		if (left) deep_nodes[i]->left = deep_nodes[i + 1]; else deep_nodes[i]->right = deep_nodes[i + 1];
	}
	pthread_attr_t at;
	pthread_attr_init(&at);
	pthread_attr_setstacksize(&at, 256 * 1024);
	pthread_t th;
	pthread_create(&th, &at, deep_thread, NULL);
	pthread_join(th, NULL);
	printf("{\"e\":\"Deep\",\"n\":%d,\"kind\":%d,\"iter\":%d,\"freed\":%d,\"ok\":%d}\n", n, kind, deep_iter, deep_freed, deep_ok);
	free(deep_nodes); free(deep_gone);
}

int main(void)
{
	drv_cmd_t c;
	drv_install_handlers();
	while (drv_read(&c, stdin)) {
		if (drv_is(&c, "All")) {
			int mx = drv_arg(&c, 0);
			for (int cnt = 0; cnt <= mx; cnt++) {
				n = cnt;
				for (int i = 0; i <= MAXN; i++) { L[i] = R[i] = ISL[i] = 0; }
				struct frame f = { 1, cnt, NULL };
				enum_rec(&f);
			}
			spines((mx - 1) / 2 + 2);
		} else if (drv_is(&c, "Deep")) {
			for (int kind = 0; kind < 3; kind++) deep(drv_arg(&c, 0), kind);
		} else if (drv_is(&c, "Random")) {
			drv_srand(drv_arg(&c, 0));
			int cnt = drv_arg(&c, 1), mx = drv_arg(&c, 2);
			for (int i = 0; i < cnt; i++) { random_shape(1 + drv_below(mx)); do_all_modes(); }
			/* degenerate: chains, zig-zag, complete */
			for (int kind = 0; kind < 4; kind++) {
				n = mx;
				for (int i = 1; i <= n; i++) { L[i] = R[i] = ISL[i] = 0; }
				for (int i = 1; i < n; i++) {
					if (kind == 0) L[i] = i + 1; else if (kind == 1) R[i] = i + 1; else if (kind == 2) { if (i & 1) L[i] = i + 1; else R[i] = i + 1; }
				}
				if (kind == 3) { random_shape(0); n = mx; /* complete tree in pre-order numbering */
					int sz[MAXN + 1];
					/* build by sizes: node i covers a range; left gets ceil((cnt-1)/2) */
					struct { int lo, cnt; } st[64]; int sp = 0; st[sp].lo = 1; st[sp++].cnt = n;
					for (int i = 1; i <= n; i++) { L[i] = R[i] = 0; }
					while (sp) { int lo = st[--sp].lo, cn = st[sp].cnt; (void)sz; if (cn <= 1) continue; int k = cn / 2; L[lo] = lo + 1; if (cn - 1 - k) R[lo] = lo + 1 + k; st[sp].lo = lo + 1 + k; st[sp++].cnt = cn - 1 - k; st[sp].lo = lo + 1; st[sp++].cnt = k; }
				}
				do_all_modes();
			}
		} else { fprintf(stderr, "bt_drv: unknown command %s\n", c.tok[0]); return 3; }
	}
	fflush(stdout);
	return 0;
}
