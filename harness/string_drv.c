/* string_drv.c - conformance driver for librfn/string.c (growth module X04).  Random seed n */
#define _GNU_SOURCE
#include "drv.h"
#include <malloc.h>
#include <librfn/string.h>
#include <librfn/util.h>

uint32_t time_now(void) { return 0; }
static void js(const char *k, const char *s)
{
	printf("\"%s\":[", k);
	for (int i = 0; s[i]; i++) printf("%s%u", i ? "," : "", (unsigned char)s[i]);
	printf("]");
}
static void gen(char *b, int len)
{
	for (int i = 0; i < len; i++) {
		unsigned x = drv_below(10);
		b[i] = x < 3 ? 'A' + drv_below(26) : x < 6 ? 'a' + drv_below(26) : x < 7 ? "@[`{Zz0 "[drv_below(8)] : x < 8 ? 128 + drv_below(128) : 1 + drv_below(127);
	}
	b[len] = 0;
}
int main(void)
{
	drv_cmd_t c;
	drv_install_handlers();
	while (drv_read(&c, stdin)) {
		if (!drv_is(&c, "Random")) { fprintf(stderr, "string_drv: unknown command %s\n", c.tok[0]); return 3; }
		drv_srand(drv_arg(&c, 0));
		long n = drv_arg(&c, 1);
		for (long i = 0; i < n; i++) {
			int la = drv_below(4) ? drv_below(24) : drv_below(300), lb = drv_below(24);
			char *a = malloc(la + 1), *b = malloc(lb + 1);      /* exactly sized: an over-read is an ASan report */
			gen(a, la); gen(b, lb);
			char *src = strdup(a), *lo = strdup(a), *up = strdup(a);
			char *r = strtolower(lo); strtoupper(up);
			char *dlo = strdup_tolower(src), *dup_ = xstrdup_toupper(src);
			printf("{\"e\":\"Case\","); js("s", a); printf(","); js("lower", lo); printf(","); js("upper", up); printf(",");
			js("dlower", dlo); printf(","); js("dupper", dup_); printf(","); js("src", src); printf(",\"same\":%d}\n", r == lo);
			char *j = strdup_join(a, b), *xj = xstrdup_join(a, b);
			printf("{\"e\":\"Join\","); js("a", a); printf(","); js("b", b); printf(","); js("j", j); printf(","); js("xj", xj); printf("}\n");
			int num = (int)(drv_rand() % 2000001) - 1000000;
			char *out = (i & 1) ? strdup_printf("%s|%d|%s", a, num, b) : xstrdup_printf("%s|%d|%s", a, num, b);
			printf("{\"e\":\"Printf\","); js("a", a); printf(",\"n\":%d,", num); js("b", b); printf(","); js("out", out);
			printf(",\"usable\":%zu}\n", malloc_usable_size(out));
			free(a); free(b); free(src); free(lo); free(up); free(dlo); free(dup_); free(j); free(xj); free(out);
		}
	}
	fflush(stdout);
	return 0;
}
