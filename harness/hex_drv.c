/* hex_drv.c - conformance driver for librfn/hex.c (C18).
 *   Strings maxlen      every string over the reduced alphabet up to maxlen, in exactly sized heap buffers
 *   Dumps maxbytes      hex_dump_to_file of structured byte arrays, output parsed back with hex_get_byte
 *   Random seed n       long random strings (arbitrary other bytes included) */
#define _GNU_SOURCE
#include "drv.h"
#include <librfn/hex.h>
#include <librfn/util.h>

uint32_t time_now(void) { return 0; }
static const unsigned char alpha[] = { 48, 57, 97, 70, 120, 58, 32, 10, 103 };

static void parse_case(const unsigned char *src, int len, const char *ev)
{
	char *s = malloc(len + 1);            /* exactly sized: reading past the NUL is an ASan report */
	memcpy(s, src, len);
	s[len] = 0;
	const char *p = (const char *)0x1;
	int rets[600], curs[600], n = 0;
	int r = hex_get_byte(s, &p);
	for (;;) {
		rets[n] = r;
		curs[n] = p ? (int)(p - s) + 1 : 0;
		n++;
		if (r == -1 || n >= 590) break;
		r = hex_get_byte(NULL, &p);
	}
	/* and once more after the end: must stay at -1 */
	int again = (n < 590) ? hex_get_byte(NULL, &p) : -2;
	printf("{\"e\":\"%s\",\"s\":[", ev);
	for (int i = 0; i < len; i++) printf("%s%u", i ? "," : "", (unsigned char)s[i]);
	printf("],\"r\":[");
	for (int i = 0; i < n; i++) printf("%s%d", i ? "," : "", rets[i]);
	printf("],\"p\":[");
	for (int i = 0; i < n; i++) printf("%s%d", i ? "," : "", curs[i]);
	printf("],\"again\":%d,\"pend\":%d", again, p ? 1 : 0);
	free(s);
}
static void strings(int maxlen)
{
	unsigned char buf[16];
	for (int len = 0; len <= maxlen; len++) {
		long total = 1;
		for (int i = 0; i < len; i++) total *= 9;
		for (long x = 0; x < total; x++) {
			long y = x;
			for (int i = 0; i < len; i++) { buf[i] = alpha[y % 9]; y /= 9; }
			parse_case(buf, len, "Parse");
			printf("}\n");
		}
	}
}
static void dump_case(const unsigned char *b, int n)
{
	unsigned char *exact = malloc(n ? n : 1);
	memcpy(exact, b, n);
	char *out = NULL;
	size_t outlen = 0;
	FILE *f = open_memstream(&out, &outlen);
	int ret = hex_dump_to_file(f, exact, n);
	fclose(f);
	parse_case((unsigned char *)out, (int)outlen, "Dump");
	printf(",\"ret\":%d,\"b\":[", ret);
	for (int i = 0; i < n; i++) printf("%s%u", i ? "," : "", b[i]);
	printf("]}\n");
	free(out);
	free(exact);
}
int main(void)
{
	drv_cmd_t c;
	unsigned char b[4096];
	drv_install_handlers();
	while (drv_read(&c, stdin)) {
		if (drv_is(&c, "Strings")) strings(drv_arg(&c, 0));
		else if (drv_is(&c, "Dumps")) {
			int mb = drv_arg(&c, 0);
			for (int l = 0; l <= mb; l++)
				for (int v = 0; v < 8; v++) {
					for (int i = 1; i <= l; i++) b[i - 1] = ((i * 17) + v * 37 + (i / 16) * 101) % 256;
					dump_case(b, l);
				}
			for (int x = 0; x < 256; x++) { b[0] = x; dump_case(b, 1); }
		}
		else if (drv_is(&c, "Random")) {
			drv_srand(drv_arg(&c, 0));
			long n = drv_arg(&c, 1);
			for (long i = 0; i < n; i++) {
				int len = drv_below(4) ? drv_below(40) : drv_below(400);
				for (int k = 0; k < len; k++) {
					unsigned x = drv_below(100);
					b[k] = x < 40 ? "0123456789abcdefABCDEF"[drv_below(22)] : x < 50 ? ' ' : x < 58 ? '\n' : x < 64 ? 'x' : x < 70 ? ':' :
					       x < 74 ? '\t' : x < 78 ? '0' : 1 + drv_below(255);
				}
				if (drv_below(3) == 0) {   /* a line with an address prefix */
					int k = drv_below(len + 1);
					if (k + 6 < len) memcpy(b + k, "\n10: ", 5);
				}
				if (drv_below(2)) parse_case(b, len, "Parse"), printf("}\n");
				else { int l = drv_below(70); for (int k = 0; k < l; k++) b[k] = drv_rand(); dump_case(b, l); }
			}
		}
		else { fprintf(stderr, "hex_drv: unknown command %s\n", c.tok[0]); return 3; }
	}
	fflush(stdout);
	return 0;
}
