/* hex_drv.c - conformance driver for librfn/hex.c (C18).
 *   Strings maxlen      every string over the reduced alphabet up to maxlen, in exactly sized heap buffers
 *   Dumps maxbytes      hex_dump_to_file of structured byte arrays, output parsed back with hex_get_byte
 *   Random seed n       long random strings (arbitrary other bytes included) */
#define _GNU_SOURCE
#include "drv.h"
#include <sys/types.h>
#include <librfn/hex.h>
#include <librfn/util.h>

uint32_t time_now(void) { return 0; }
static const unsigned char alpha[] = { 48, 57, 97, 70, 120, 58, 32, 10, 103 };

static void parse_case(const unsigned char *src, int len, const char *ev)
{
	char *s = malloc(len + 1);            /* exactly sized: reading past the NUL is an ASan report */
	memcpy(s, src, len);
	s[len] = 0;
	/* what the caller's cursor holds before the first call is the caller's business: junk, NULL, the text itself (the
	 * hex_get_byte(s, &s) idiom), the middle of the text, another string */
	static unsigned pmode;
	static const char other[] = "77:88 99";
	const char *p = (const char *)0x1;
	switch (pmode++ % 5) { case 1: p = NULL; break; case 2: p = s; break; case 3: p = s + len / 2; break; case 4: p = other; break; }
	static int rets[70000], curs[70000]; int n = 0;
	int r = hex_get_byte(s, &p);
	for (;;) {
		rets[n] = r;
		curs[n] = p ? (int)(p - s) + 1 : 0;
		n++;
		if (r == -1 || n >= 69990) break;
		r = hex_get_byte(NULL, &p);
	}
	/* and once more after the end: must stay at -1 */
	int again = (n < 69990) ? hex_get_byte(NULL, &p) : -2;
	printf("{\"e\":\"%s\",\"s\":[", ev);
	for (int i = 0; i < len; i++) printf("%s%u", i ? "," : "", (unsigned char)s[i]);
	printf("],\"r\":[");
	for (int i = 0; i < n; i++) printf("%s%d", i ? "," : "", rets[i]);
	printf("],\"p\":[");
	for (int i = 0; i < n; i++) printf("%s%d", i ? "," : "", curs[i]);
	printf("],\"again\":%d,\"pend\":%d", again, p ? 1 : 0);
	free(s);
}
static void strings(int maxlen)
{
	unsigned char buf[16];
	for (int len = 0; len <= maxlen; len++) {
		long total = 1;
		for (int i = 0; i < len; i++) total *= 9;
		for (long x = 0; x < total; x++) {
			long y = x;
			for (int i = 0; i < len; i++) { buf[i] = alpha[y % 9]; y /= 9; }
			parse_case(buf, len, "Parse");
			printf("}\n");
		}
	}
}
/* a sink that itself dumps something (a tee that keeps a hex trace of what passes through it): hex_dump_to_file must be
 * re-entrant through the stream it writes to */
static char *ck_buf; static size_t ck_len, ck_cap;
static int ck_depth;
static ssize_t ck_write(void *cookie, const char *data, size_t n)
{
	(void)cookie;
	if (!ck_depth) {          /* the trace is written first, the data are consumed afterwards */
		static const unsigned char inner[20] = { 0x33, 0x33, 0x33, 0x33, 0x33, 0x33, 0x33, 0x33, 0x33, 0x33, 0x33, 0x33, 0x33, 0x33, 0x33, 0x33, 0x36, 0x0a, 0x55, 0xaa };
		char *o = NULL; size_t ol = 0;
		FILE *f = open_memstream(&o, &ol);
		ck_depth++;
		hex_dump_to_file(f, (unsigned char *)inner, sizeof(inner));
		ck_depth--;
		fclose(f); free(o);
	}
	if (ck_len + n + 1 > ck_cap) { ck_cap = 2 * (ck_len + n + 1); ck_buf = realloc(ck_buf, ck_cap); }
	memcpy(ck_buf + ck_len, data, n); ck_len += n; ck_buf[ck_len] = 0;
	return (ssize_t)n;
}
static int use_cookie;
static void dump_case(const unsigned char *b, int n)
{
	/* the array ends where its heap block ends and starts at every alignment (0..3 mod 4) in turn */
	static unsigned amode;
	int off = amode++ % 4;
	unsigned char *block = malloc(n + off ? n + off : 1), *exact = block + off;
	memcpy(exact, b, n);
	char *out = NULL;
	size_t outlen = 0;
	int ret;
	if (use_cookie) {
		cookie_io_functions_t io = { NULL, ck_write, NULL, NULL };
		ck_len = 0; if (ck_buf) ck_buf[0] = 0;
		FILE *f = fopencookie(NULL, "w", io);
		if (use_cookie == 2) setvbuf(f, NULL, _IONBF, 0);
		ret = hex_dump_to_file(f, exact, n);
		fclose(f);
		out = strdup(ck_buf ? ck_buf : ""); outlen = ck_len;
	} else {
		FILE *f = open_memstream(&out, &outlen);
		ret = hex_dump_to_file(f, exact, n);
		fclose(f);
	}
	parse_case((unsigned char *)out, (int)outlen, "Dump");
	printf(",\"ret\":%d,\"b\":[", ret);
	for (int i = 0; i < n; i++) printf("%s%u", i ? "," : "", b[i]);
	printf("]}\n");
	free(out);
	free(block);
}
/* two parse sessions interleaved call by call (the cursor lives in the caller's *p; nothing else may be remembered) */
static void two_sessions(const unsigned char *a, int la, const unsigned char *b, int lb)
{
	char *sa = malloc(la + 1), *sb = malloc(lb + 1);
	memcpy(sa, a, la); sa[la] = 0; memcpy(sb, b, lb); sb[lb] = 0;
	const char *pa = NULL, *pb = NULL;
	int ra[400], rb[400], na = 0, nb = 0, da = 0, db = 0;
	ra[na++] = hex_get_byte(sa, &pa); if (ra[0] == -1) da = 1;
	rb[nb++] = hex_get_byte(sb, &pb); if (rb[0] == -1) db = 1;
	while ((!da || !db) && na < 390 && nb < 390) {
		if (!da) { int r = hex_get_byte(NULL, &pa); ra[na++] = r; if (r == -1) da = 1; }
		if (!db) { int r = hex_get_byte(NULL, &pb); rb[nb++] = r; if (r == -1) db = 1; }
	}
	printf("{\"e\":\"Two\",\"sa\":[");
	for (int i = 0; i < la; i++) printf("%s%u", i ? "," : "", a[i]);
	printf("],\"sb\":[");
	for (int i = 0; i < lb; i++) printf("%s%u", i ? "," : "", b[i]);
	printf("],\"ra\":[");
	for (int i = 0; i < na; i++) printf("%s%d", i ? "," : "", ra[i]);
	printf("],\"rb\":[");
	for (int i = 0; i < nb; i++) printf("%s%d", i ? "," : "", rb[i]);
	printf("]}\n");
	free(sa); free(sb);
}
/* large dumps: the text is judged by the driver (every line 32 lower-case hex digits + newline, last line shorter), the
 * specification checks the tallies and that the text parses back to the same bytes */
static void big_dump(int n)
{
	int off = (n / 3) % 4;
	unsigned char *block = malloc(n + off ? n + off : 1), *b = block + off;     /* every alignment of the first byte */
	for (int i = 0; i < n; i++) b[i] = (unsigned char)(i * 131 + (i >> 8));
	char *out = NULL; size_t outlen = 0;
	FILE *f = open_memstream(&out, &outlen);
	int ret = hex_dump_to_file(f, b, n);
	fclose(f);
	int shape = 1;
	size_t pos = 0;
	for (int i = 0; i < n && shape; i++) {
		static const char hx[] = "0123456789abcdef";
		if (pos + 2 > outlen || out[pos] != hx[b[i] >> 4] || out[pos + 1] != hx[b[i] & 15]) shape = 0;
		pos += 2;
		if ((i % 16 == 15 || i == n - 1)) { if (pos >= outlen || out[pos] != '\n') shape = 0; pos++; }
	}
	if (pos != outlen) shape = 0;
	/* parse-back (quadratic: hex_get_byte looks for a ':' in the whole rest of the text at every line) only for a subset;
	 * back = 2 means "not run for this length", the exact text check above always runs */
	int back = 2;
	if (n <= 4096 || n % 251 == 0) {
		const char *p = NULL; back = 1;
		int r = hex_get_byte(out, &p);
		for (int i = 0; i < n; i++) { if (r != b[i]) { back = 0; break; } r = hex_get_byte(NULL, &p); }
		if (back && r != -1) back = 0;
	}
	printf("{\"e\":\"BigDump\",\"n\":%d,\"ret\":%d,\"outlen\":%zu,\"shape\":%d,\"back\":%d}\n", n, ret, outlen, shape, back);
	free(out); free(block);
}

int main(void)
{
	drv_cmd_t c;
	static unsigned char b[70000];
	drv_install_handlers();
	while (drv_read(&c, stdin)) {
		if (drv_is(&c, "Strings")) strings(drv_arg(&c, 0));
		else if (drv_is(&c, "Dumps")) {
			int mb = drv_arg(&c, 0);
			for (int l = 0; l <= mb; l++)
				for (int v = 0; v < 8; v++) {
					for (int i = 1; i <= l; i++) b[i - 1] = ((i * 17) + v * 37 + (i / 16) * 101) % 256;
					dump_case(b, l);
				}
			for (int x = 0; x < 256; x++) { b[0] = x; dump_case(b, 1); }
			for (use_cookie = 1; use_cookie <= 2; use_cookie++)       /* through a sink that dumps too: buffered and unbuffered */
				for (int l = 0; l <= mb; l += 1 + l / 8) {
					for (int i = 1; i <= l; i++) b[i - 1] = (i * 29 + 7) % 256;
					dump_case(b, l);
				}
			use_cookie = 0;
		}
		else if (drv_is(&c, "Long")) {
			/* lines far longer than any internal buffer might be: blanks / address digits before the ':' */
			static const int lens[] = { 2046, 2047, 2048, 4095, 4096, 8191, 8192, 65535, 65536 };
			for (unsigned k = 0; k < sizeof(lens) / sizeof(lens[0]); k++) {
				int L = lens[k];
				memset(b, ' ', L); memcpy(b + L, "10:ab cd\n20: ef", 16); parse_case(b, L + 16, "Parse"); printf("}\n");
				memset(b, '1', L); memcpy(b + L, ":ab", 3); parse_case(b, L + 3, "Parse"); printf("}\n");
				memset(b, ' ', L); memcpy(b + L, "ab", 2); parse_case(b, L + 2, "Parse"); printf("}\n");
			}
		}
		else if (drv_is(&c, "ManyLines")) {
			/* a very long run of lines that carry no data (address only, or blank) before the first byte: one call has to
			 * step over all of them; the expected result is known by construction */
			long nl = drv_arg(&c, 0);
			for (int kind = 0; kind < 2; kind++) {
				const char *unit = kind ? "\n" : "00000000:\n";
				size_t ul = strlen(unit);
				char *t = malloc(nl * ul + 16);
				for (long i = 0; i < nl; i++) memcpy(t + i * ul, unit, ul);
				strcpy(t + nl * ul, "0010: de ad\n");
				const char *p = NULL;
				int r0 = hex_get_byte(t, &p), r1 = hex_get_byte(NULL, &p), r2 = hex_get_byte(NULL, &p), r3 = hex_get_byte(NULL, &p);
				printf("{\"e\":\"ManyLines\",\"n\":%ld,\"kind\":%d,\"r\":[%d,%d,%d,%d]}\n", nl, kind, r0, r1, r2, r3);
				free(t);
			}
		}
		else if (drv_is(&c, "HugeText")) {
			/* texts of more than 2^31 / 2^32 characters: (0) one unparsable line of 2^31 + 5 characters, (1) a run of
			 * 2^32 + 3 blanks, each followed by two bytes; the expected result is known by construction */
			int kind = drv_arg(&c, 0);
			size_t n = kind ? ((size_t)1 << 32) + 3 : ((size_t)1 << 31) + 5;
			char *t = malloc(n + 16);
			if (!t) { fprintf(stderr, "hex_drv: cannot allocate %zu bytes\n", n); return 3; }
			memset(t, kind ? ' ' : 'z', n);
			strcpy(t + n, kind ? "a5 5a" : "\na5 5a\n");
			const char *p = NULL;
			int r0 = hex_get_byte(t, &p), r1 = hex_get_byte(NULL, &p), r2 = hex_get_byte(NULL, &p), r3 = hex_get_byte(NULL, &p);
			printf("{\"e\":\"HugeText\",\"kind\":%d,\"r\":[%d,%d,%d,%d]}\n", kind, r0, r1, r2, r3);
			free(t);
		}
		else if (drv_is(&c, "Two")) {
			drv_srand(drv_arg(&c, 0));
			int n = drv_arg(&c, 1);
			static const char *texts[] = { "0000: 00 11 22 33\n0004: 44 55 66 77\n0008: 88\n", "", "zz", "12 34\n56", "10: aa\nbb\n20: cc", "\n\n", "0x1f 0X2f :3f" };
			for (int i = 0; i < 7; i++) for (int j = 0; j < 7; j++)
				two_sessions((const unsigned char *)texts[i], strlen(texts[i]), (const unsigned char *)texts[j], strlen(texts[j]));
			for (int x = 0; x < n; x++) {
				unsigned char s1[64], s2[64]; int l1 = drv_below(60), l2 = drv_below(60);
				for (int k = 0; k < l1; k++) { unsigned y = drv_below(10); s1[k] = y < 5 ? "0123456789abcdef"[drv_below(16)] : y < 7 ? ' ' : y < 8 ? '\n' : y < 9 ? ':' : 'x'; }
				for (int k = 0; k < l2; k++) { unsigned y = drv_below(10); s2[k] = y < 5 ? "0123456789abcdef"[drv_below(16)] : y < 7 ? ' ' : y < 8 ? '\n' : y < 9 ? ':' : 'g'; }
				two_sessions(s1, l1, s2, l2);
			}
		}
		else if (drv_is(&c, "BigDumps")) {
			int lo = drv_arg(&c, 0), hi = drv_arg(&c, 1), step = drv_arg(&c, 2);
			for (int n = lo; n <= hi; n += step) big_dump(n);
		}
		else if (drv_is(&c, "Random")) {
			drv_srand(drv_arg(&c, 0));
			long n = drv_arg(&c, 1);
			for (long i = 0; i < n; i++) {
				int len = drv_below(4) ? drv_below(40) : drv_below(400);
				for (int k = 0; k < len; k++) {
					unsigned x = drv_below(100);
					b[k] = x < 40 ? "0123456789abcdefABCDEF"[drv_below(22)] : x < 50 ? ' ' : x < 58 ? '\n' : x < 64 ? 'x' : x < 70 ? ':' :
					       x < 74 ? '\t' : x < 78 ? '0' : 1 + drv_below(255);
				}
				if (drv_below(3) == 0) {   /* a line with an address prefix */
					int k = drv_below(len + 1);
					if (k + 6 < len) memcpy(b + k, "\n10: ", 5);
				}
				if (drv_below(2)) parse_case(b, len, "Parse"), printf("}\n");
				else { int l = drv_below(70); for (int k = 0; k < l; k++) b[k] = drv_rand(); dump_case(b, l); }
			}
		}
		else { fprintf(stderr, "hex_drv: unknown command %s\n", c.tok[0]); return 3; }
	}
	fflush(stdout);
	return 0;
}
