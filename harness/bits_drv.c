/* bits_drv.c - conformance driver for librfn/bitops.c and constexpr.h (C16).
 *   Vectors seed nrandom     structured + random arguments, real results AND the C oracle's results, one event each
 *   Sweep lo hi_exclusive/2^k...  exhaustive comparison of the four functions with the oracle (see sweep()) */
#define _GNU_SOURCE
#include "drv.h"
#include <sys/wait.h>
#include <limits.h>
#include <librfn/bitops.h>
#include <librfn/constexpr.h>

/* C transcriptions of the specification's definitions (Bits.tla: PopCount, Clz, Ctz); validated against TLC on the
 * vectors before they serve as the oracle of the exhaustive sweep */
static int o_pop(uint64_t x) { int n = 0; for (; x; x >>= 1) n += x & 1; return n; }
static int o_ctz(uint64_t x, int w) { if (!x) return w; int n = 0; while (!(x & 1)) { x >>= 1; n++; } return n; }
static int o_clz(uint64_t x, int w) { int n = 0; for (int i = w - 1; i >= 0 && !((x >> i) & 1); i--) n++; return n; }

static void v32(uint32_t x)
{
	printf("{\"e\":\"B32\",\"x\":[%u,%u,%u,%u],\"bitcnt\":%d,\"clz\":%d,\"ctz\":%d,\"ilog2\":%d,\"o\":[%d,%d,%d]}\n",
	       x & 0xff, (x >> 8) & 0xff, (x >> 16) & 0xff, x >> 24, bitcnt(x), clz(x), ctz(x), x ? ilog2(x) : -1,
	       o_pop(x), o_clz(x, 32), o_ctz(x, 32));
}
/* the call spelled with a compile-time-constant argument expression of whatever type the expression has (signed, negative,
 * narrower than 32 bits): the argument is the expression converted to uint32_t, as the prototypes say */
#define V32K(e) do { uint32_t x_ = (uint32_t)(e); \
	printf("{\"e\":\"B32\",\"x\":[%u,%u,%u,%u],\"bitcnt\":%d,\"clz\":%d,\"ctz\":%d,\"ilog2\":%d,\"o\":[%d,%d,%d]}\n", \
	       x_ & 0xff, (x_ >> 8) & 0xff, (x_ >> 16) & 0xff, x_ >> 24, (int)bitcnt(e), (int)clz(e), (int)ctz(e), x_ ? (int)ilog2(e) : -1, \
	       o_pop(x_), o_clz(x_, 32), o_ctz(x_, 32)); } while (0)
/* the same functions reached through their external symbols (a pointer, another translation unit's prototype, a foreign
 * function interface): whatever the header may put in front of a direct call, the symbol computes the same thing */
static int (*volatile p_bitcnt)(uint32_t) = bitcnt;
static int (*volatile p_clz)(uint32_t) = clz;
static int (*volatile p_ctz)(uint32_t) = ctz;
static int (*volatile p_ilog2)(uint32_t) = ilog2;
static void v32p(uint32_t x)
{
	printf("{\"e\":\"B32\",\"x\":[%u,%u,%u,%u],\"bitcnt\":%d,\"clz\":%d,\"ctz\":%d,\"ilog2\":%d,\"o\":[%d,%d,%d]}\n",
	       x & 0xff, (x >> 8) & 0xff, (x >> 16) & 0xff, x >> 24, p_bitcnt(x), (clz)(x), p_ctz(x), x ? (ilog2)(x) : -1,
	       o_pop(x), o_clz(x, 32), o_ctz(x, 32));
	printf("{\"e\":\"B32\",\"x\":[%u,%u,%u,%u],\"bitcnt\":%d,\"clz\":%d,\"ctz\":%d,\"ilog2\":%d,\"o\":[%d,%d,%d]}\n",
	       x & 0xff, (x >> 8) & 0xff, (x >> 16) & 0xff, x >> 24, (bitcnt)(x), p_clz(x), (ctz)(x), x ? p_ilog2(x) : -1,
	       o_pop(x), o_clz(x, 32), o_ctz(x, 32));
}
/* every power of two, its neighbours, and its signed spelling, as compile-time constants */
#define P2(k) V32K(1u << k); V32K((1u << k) - 1); V32K((1u << k) + 1); V32K(1 << k); V32K(~(1u << k)); V32K(-(1 << k));
static void v32_powers(void)
{
	P2(0) P2(1) P2(2) P2(3) P2(4) P2(5) P2(6) P2(7) P2(8) P2(9) P2(10) P2(11) P2(12) P2(13) P2(14) P2(15)
	P2(16) P2(17) P2(18) P2(19) P2(20) P2(21) P2(22) P2(23) P2(24) P2(25) P2(26) P2(27) P2(28) P2(29) P2(30)
	V32K(1u << 31); V32K((1u << 31) - 1); V32K((1u << 31) + 1); V32K(~(1u << 31));
	V32K(256); V32K(1024); V32K(4096); V32K(32768); V32K(65536); V32K(0x10000); V32K(0x100); V32K(0x1000000); V32K(16777216); V32K(1048576);
	V32K(0x8000); V32K(0xffff); V32K(0x10001); V32K(0xff); V32K(0x101); V32K(0xffffff); V32K(0x1000001); V32K(sizeof(long) * 8192);
}
static void v32_constants(void)
{
	v32_powers();
	V32K(~0); V32K(-1); V32K(~0x0f); V32K(-2); V32K(INT32_MIN); V32K(-65536); V32K((short)-1); V32K((signed char)-128);
	V32K(-0x7fffffff); V32K(1); V32K(0x40000000); V32K(0x80000000); V32K(0xffffffffu); V32K(-1L); V32K(-256LL); V32K('\377');
	V32K(~1u); V32K(1 << 30); V32K(-(1 << 30)); V32K(0x7fffffff); V32K(65535); V32K(-32768);
}
/* an argument expression with a side effect (a read-to-clear register, an iterator): evaluated exactly once */
static uint32_t se_vals[4], se_k;
static uint32_t se_next(void) { return se_vals[se_k++ & 3]; }
static void vse(uint32_t a, uint32_t b)
{
	int r[4], ev[4];
	se_vals[0] = a; se_vals[1] = b; se_vals[2] = a; se_vals[3] = b;
	se_k = 0; r[0] = bitcnt(se_next()); ev[0] = se_k;
	se_k = 0; r[1] = clz(se_next()); ev[1] = se_k;
	se_k = 0; r[2] = ctz(se_next()); ev[2] = se_k;
	se_k = 0; r[3] = a ? ilog2(se_next()) : -1; ev[3] = a ? (int)se_k : 1;
	printf("{\"e\":\"BSE\",\"x\":[%u,%u,%u,%u],\"r\":[%d,%d,%d,%d],\"evals\":[%d,%d,%d,%d]}\n", a & 0xff, (a >> 8) & 0xff, (a >> 16) & 0xff, a >> 24,
	       r[0], r[1], r[2], r[3], ev[0], ev[1], ev[2], ev[3]);
}
static void v64(uint64_t c, int popk, int lssbk)
{
	volatile uint64_t rt = c;         /* run-time value: the macros expand to inline code */
	printf("{\"e\":\"B64\",\"c\":[");
	for (int i = 0; i < 8; i++) printf("%s%u", i ? "," : "", (unsigned)((c >> (8 * i)) & 0xff));
	/* lneg: is the value itself negative (and not merely something that converts to -1)? */
	printf("],\"pop\":%d,\"lssb\":%d,\"popk\":%d,\"lssbk\":%d,\"lneg\":%d,\"pneg\":%d,\"o\":[%d,%d]}\n", (int)const_pop(rt), (int)const_lssb(rt), popk, lssbk,
	       const_lssb(rt) < 0 ? 1 : 0, const_pop(rt) < 0 ? 1 : 0, o_pop(c), c ? o_ctz(c, 64) : -1);
}
/* compile-time constants: the macros must collapse to the same values in constant expressions */
#define KLIST(K) K(0x0ull) K(0x1ull) K(0x2ull) K(0x8000000000000000ull) K(0xffffffffffffffffull) K(0x00000000ffffffffull) \
	K(0xffffffff00000000ull) K(0x0000000100000000ull) K(0x0000000080000000ull) K(0x00f0000000000000ull) K(0x0000ffff0000ull) \
	K(0x5555555555555555ull) K(0xaaaaaaaaaaaaaaaaull) K(0x0123456789abcdefull) K(0x8000000000000001ull) K(0x0000000000010000ull) \
	K(0x0000000000008000ull) K(0x00000000000000f0ull) K(0x000000000000000cull) K(0x0400000000000000ull) K(0x0000002000000000ull) \
	K(0xfffffffffffffffeull) K(0x7fffffffffffffffull) K(0x00ff00ff00ff00ffull) K(0x1000000010000000ull)
#define KENT(c) { c, const_pop(c), const_lssb(c), const_lssb(c) < 0 },
static const struct { uint64_t c; int pop; int lssb; int lneg; } ktab[] = { KLIST(KENT) };

static void vectors(long seed, long nrandom)
{
	drv_srand(seed);
	v32(0); v32(0xffffffffu);
	v32_constants();
	vse(0x10, 0x3); vse(0x3, 0x10); vse(0x80000000u, 1); vse(1, 0x80000000u); vse(0, 0xffffffffu); vse(0xffffffffu, 0); vse(0xf0, 0x0f00);
	for (int i = 0; i < 40; i++) vse(drv_rand(), drv_rand());
	for (int i = 0; i < 32; i++) {
		v32p(1u << i); v32p((1u << i) - 1); v32p((1u << i) + 1);
		v32(1u << i); v32(~(1u << i));
		for (int j = i + 1; j < 32; j++) { v32((1u << i) | (1u << j)); }
		for (int j = i; j < 32; j++) { uint32_t m = (j - i == 31) ? 0xffffffffu : (((1u << (j - i + 1)) - 1) << i); v32(m); }  /* contiguous masks */
	}
	for (int n1 = 0; n1 < 8; n1++)            /* nibble-local patterns: every value of every nibble pair */
		for (int n2 = n1 + 1; n2 < 8; n2++)
			for (unsigned a = 0; a < 16; a++)
				for (unsigned b = 0; b < 16; b += (n2 - n1 == 1 ? 1 : 3))
					v32((a << (4 * n1)) | (b << (4 * n2)));
	for (long i = 0; i < nrandom; i++) { uint32_t x = drv_rand() ^ (drv_rand() << 7); if (i % 8) v32(x); else v32p(x); }
	for (unsigned i = 0; i < sizeof(ktab) / sizeof(ktab[0]); i++) {
		v64(ktab[i].c, ktab[i].pop, ktab[i].lssb);
		printf("{\"e\":\"K64neg\",\"zero\":%d,\"lneg\":%d}\n", ktab[i].c == 0, ktab[i].lneg);
	}
	for (int i = 0; i < 64; i++) {
		v64(1ull << i, -99, -99);
		for (int j = i + 1; j < 64; j += (i % 3) + 1) v64((1ull << i) | (1ull << j), -99, -99);
		for (int j = i; j < 64; j += 1 + (i % 2)) { uint64_t m = (j - i == 63) ? ~0ull : (((1ull << (j - i + 1)) - 1) << i); v64(m, -99, -99); }
	}
	for (long i = 0; i < nrandom / 4; i++) v64(((uint64_t)drv_rand() << 40) ^ ((uint64_t)drv_rand() << 20) ^ drv_rand(), -99, -99);
}

/* exhaustive sweep of [0, 2^32) in `nproc` forked workers, every `stride`-th block of 2^16 values (stride 1 = everything) */
static void sweep(int nproc, int stride)
{
	int fds[64][2];
	for (int w = 0; w < nproc; w++) {
		if (pipe(fds[w])) exit(3);
		if (fork() == 0) {
			unsigned long long bad = 0, n = 0, first = 0;
			for (uint32_t blk = w; blk < 65536; blk += nproc) {
				if (stride > 1 && (blk % stride) != 0 && blk != 65535 && blk != 32768 && blk != 32767) continue;
				uint32_t x = blk << 16;
				for (uint32_t k = 0; k < 65536; k++, x++) {
					int p = o_pop(x), z = o_clz(x, 32), t = o_ctz(x, 32);
					int ok = bitcnt(x) == p && clz(x) == z && ctz(x) == t && (!x || ilog2(x) == 31 - z);
					/* ... and through the external symbols */
					ok = ok && p_bitcnt(x) == p && p_clz(x) == z && p_ctz(x) == t && (!x || p_ilog2(x) == 31 - z);
					if (!ok && !bad++) first = x;
					n++;
				}
			}
			unsigned long long out[3] = { n, bad, first };
			(void)!write(fds[w][1], out, sizeof(out));
			_exit(0);
		}
	}
	unsigned long long n = 0, bad = 0, first = 0;
	for (int w = 0; w < nproc; w++) {
		unsigned long long out[3] = { 0, 1, 0 };
		(void)!read(fds[w][0], out, sizeof(out));
		n += out[0];
		if (out[1] && !bad) first = out[2];
		bad += out[1];
		wait(NULL);
	}
	printf("{\"e\":\"Sweep32\",\"n_hi\":%llu,\"n_lo\":%llu,\"bad\":%llu,\"first\":[%llu,%llu,%llu,%llu]}\n", n >> 16, n & 0xffff, bad > 1000000 ? 1000000 : bad,
	       first & 0xff, (first >> 8) & 0xff, (first >> 16) & 0xff, first >> 24);
}

int main(void)
{
	drv_cmd_t c;
	drv_install_handlers();
	while (drv_read(&c, stdin)) {
		if (drv_is(&c, "Vectors")) vectors(drv_arg(&c, 0), drv_arg(&c, 1));
		else if (drv_is(&c, "Sweep")) { fflush(stdout); sweep(drv_arg(&c, 0), drv_arg(&c, 1)); }
		else { fprintf(stderr, "bits_drv: unknown command %s\n", c.tok[0]); return 3; }
	}
	fflush(stdout);
	return 0;
}
