/* vrt.h - see vrt.c */
#ifndef VERIF_VRT_H
#define VERIF_VRT_H
#include <stddef.h>
#include <stdio.h>

#define VRT_MAXCTX 16
#define VRT_MAXREG 64
#define VRT_MAXEV 4096

typedef struct {
	char kind;            /* 'A' atomic, 'R'/'W' plain access, 'F' fence, 'C' call result */
	const char *op;       /* load/store/fetch_add/.../cas/read/write, or the call name */
	const char *var;      /* symbolic name of the address */
	int idx;              /* element index inside the region */
	int mo;               /* memory-order argument as passed by the code (0 relaxed .. 5 seq_cst) */
	int size;
	int ctx;
	int sw;               /* plain access that was a switch point of its own */
	int plain_on_atomic;  /* plain access to an atomic region, or atomic op on a plain region */
	long old, arg, res;
} vrt_ev_t;

void vrt_reset(void);
void vrt_clear_regions(void);
/* atomic: bit0 = region holds atomic objects, bit1 = plain accesses to it are switch points */
void vrt_region(const char *name, void *addr, size_t len, size_t elem, int atomic);
int vrt_spawn(void (*fn)(void *), void *arg);
int vrt_step(int c);            /* 1 = parked at its next atomic op, 0 = finished, -1 = cannot run */
int vrt_finished(int c);
int vrt_used(int c);
int vrt_current(void);
const char *vrt_pending(int c, const char **var, int *idx);
vrt_ev_t *vrt_events(int *n);
void vrt_clear_events(void);
int vrt_overflowed(void);
void vrt_note(const char *name, long r);
void vrt_print_hb(FILE *f);
#endif
