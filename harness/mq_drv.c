/* mq_drv.c - messageq.c under the vrt interleaving runtime (C04, C07).
 * Contexts: 0 = receiver, 1..ns = senders; programs as in spec/MessageQ.tla.
 * Script:  "Reset depth ns mp rt"  |  "S c" (context c executes its next
 * atomic operation and runs on to the following one)  |  "Gen ..." */
#include "drv.h"
#include "vrt.h"
#include <librfn/messageq.h>

static messageq_t *mq;
static char *store;
static int depth, ns, mp, rt;
static int MSGLEN = 8;   /* message size: irrelevant to the specification, but large storage exercises the offset arithmetic */
static int ids[VRT_MAXCTX];

static int slot_of(void *p) { return (int)(((char *)p - store) / MSGLEN); }

static void sender(void *arg)
{
	int id = *(int *)arg;
	for (int m = 1; m <= mp; m++) {
		void *p = messageq_claim(mq);
		if (!p) {
			vrt_note("claim", -1);
			continue;
		}
		vrt_note("claim", slot_of(p));
		*(int *)p = id * 10 + m;
		vrt_note("write", id * 10 + m);
		messageq_send(mq, p);
		vrt_note("send", slot_of(p));
	}
}

static void receiver(void *arg)
{
	(void)arg;
	for (int t = 1; t <= rt; t++) {
		int e = messageq_empty(mq);
		vrt_note("empty", e);
		void *p = messageq_receive(mq);
		if (!p) {
			vrt_note("receive", -1);
			continue;
		}
		vrt_note("receive", slot_of(p));
		int v = *(int *)p;
		vrt_note("read", v);
		messageq_release(mq, p);
		vrt_note("release", slot_of(p));
	}
}

static void reset(int d, int s, int m, int r)
{
	depth = d; ns = s; mp = m; rt = r;
	/* warm restart: every other reset with an unchanged geometry re-initialises the SAME descriptor over the SAME memory */
	static unsigned warm;
	static int pd = -1, pm = -1;
	int same = store && mq && pd == depth && pm == MSGLEN && (warm++ & 1);
	pd = depth; pm = MSGLEN;
	if (!same) {
		free(store);
		free(mq);
		store = calloc(depth, MSGLEN);
		mq = calloc(1, sizeof(*mq));
	} else
		memset(store, 0, (size_t)depth * MSGLEN);
	vrt_reset();
	vrt_clear_regions();
	static unsigned nresets;
	if (MSGLEN == 8 && (nresets++ & 1)) {
		/* the static initialiser, its arguments spelled as compound expressions */
		messageq_t q = MESSAGEQ_VAR_INIT(store, (size_t)depth * 4 + (size_t)depth * 4, 4 + 4);
		memcpy(mq, &q, sizeof(q));
	} else
		messageq_init(mq, store, depth * MSGLEN, MSGLEN);
	vrt_region("num_free", (void *)&mq->num_free, sizeof(mq->num_free), 0, 1);
	vrt_region("sendp", (void *)&mq->sendp, sizeof(mq->sendp), 0, 1);
	vrt_region("full_flags", (void *)&mq->full_flags, sizeof(mq->full_flags), 0, 1);
	vrt_region("receivep", &mq->receivep, sizeof(mq->receivep), 0, 0);
	vrt_region("slot", store, depth * MSGLEN, MSGLEN, 0);
	vrt_clear_events();
	printf("{\"e\":\"Reset\",\"g\":{\"depth\":%d,\"ns\":%d,\"mp\":%d,\"rt\":%d}}\n", d, s, m, r);
	vrt_spawn(receiver, NULL);
	for (int i = 1; i <= ns; i++) {
		ids[i] = i;
		vrt_spawn(sender, &ids[i]);
	}
	vrt_clear_events();
}

static int step(int c)
{
	vrt_clear_events();
	int r = vrt_step(c);
	if (r < 0) {
		printf("{\"e\":\"BadStep\",\"c\":%d}\n", c);
		return r;
	}
	int n;
	vrt_ev_t *ev = vrt_events(&n);
	const char *op = "none", *var = "";
	int natomic = 0;
	for (int i = 0; i < n; i++)
		if (ev[i].kind == 'A' && natomic++ == 0) {
			op = ev[i].op;
			var = ev[i].var;
		}
	printf("{\"e\":\"S\",\"c\":%d,\"op\":\"%s\",\"var\":\"%s\",\"na\":%d,\"calls\":[", c, op, var, natomic);
	int first = 1;
	for (int i = 0; i < n; i++)
		if (ev[i].kind == 'C') {
			printf("%s{\"n\":\"%s\",\"r\":%ld}", first ? "" : ",", ev[i].op, ev[i].res);
			first = 0;
		}
	unsigned fl = *(volatile unsigned *)&mq->full_flags;
	printf("],\"st\":{\"nf\":%u,\"sp\":%u,\"rp\":%u,\"fl\":[", (unsigned)*(volatile unsigned char *)&mq->num_free,
	       (unsigned)*(volatile unsigned char *)&mq->sendp, (unsigned)mq->receivep);
	first = 1;
	for (int b = 0; b < 32; b++)
		if (fl & (1u << b)) {
			printf("%s%d", first ? "" : ",", b);
			first = 0;
		}
	printf("]},");
	vrt_print_hb(stdout);
	printf("}\n");
	return r;
}

/* seeded random schedules; irq=1 follows the run-to-completion stack discipline */
static void gen(long seed, int nexec, int dmax, int smax, int mmax, int irq)
{
	drv_srand(seed);
	for (int x = 0; x < nexec; x++) {
		int d = 1 + drv_below(dmax), s = 1 + drv_below(smax), m = 1 + drv_below(mmax);
		int r = 1 + drv_below(s * m + 2);
		MSGLEN = drv_below(4) ? (drv_below(2) ? 8 : 24) : 4096;
		reset(d, s, m, r);
		int stack[VRT_MAXCTX], sdep = 0, started[VRT_MAXCTX] = { 0 };
		for (;;) {
			int cand[VRT_MAXCTX], nc = 0;
			for (int c = 0; c <= s; c++) {
				if (vrt_finished(c))
					continue;
				if (!irq) cand[nc++] = c;
				else if (sdep && stack[sdep - 1] == c) { cand[nc++] = c; cand[nc++] = c; }
				else if (!started[c] && sdep < 3) cand[nc++] = c;
			}
			if (!nc)
				break;
			int c = cand[drv_below(nc)];
			if (irq && !started[c]) { started[c] = 1; stack[sdep++] = c; }
			if (step(c) == 0 && irq)
				sdep--;
		}
	}
}

/* sender 1's single claim loses the compare-exchange on sendp `k` times in a row to sender 2's claims */
static void starve(int d, int k)
{
	MSGLEN = 8;
	reset(d, 2, k + 1, 1);          /* both senders may send up to k+1 messages; the receiver makes one attempt */
	step(1); step(1);                /* victim: fetch_sub, load sendp */
	for (int i = 0; i < k; i++) {
		step(2); step(2); step(2); step(2);   /* rival: fetch_sub, load, cas (wins), fetch_or */
		step(1);                              /* victim: cas fails, reloads */
	}
	step(1); step(1);                /* victim: cas succeeds at last, sends */
}

/* one sender and the receiver take turns for n messages: a history long enough to wrap any narrow counter */
static void cycle(int d, int n)
{
	MSGLEN = 8;
	reset(d, 1, n, 2 * n);
	while (!vrt_finished(1) || !vrt_finished(0)) {
		if (!vrt_finished(1)) step(1);
		if (!vrt_finished(0)) step(0);
	}
}

int main(void)
{
	drv_cmd_t c;
	drv_install_handlers();
	while (drv_read(&c, stdin)) {
		if (drv_is(&c, "Reset")) {
			MSGLEN = c.ntok > 5 ? drv_arg(&c, 4) : 8;
			reset(drv_arg(&c, 0), drv_arg(&c, 1), drv_arg(&c, 2), drv_arg(&c, 3));
		}
		else if (drv_is(&c, "S"))
			step(drv_arg(&c, 0));
		else if (drv_is(&c, "Starve"))
			starve(drv_arg(&c, 0), drv_arg(&c, 1));
		else if (drv_is(&c, "Cycle"))
			cycle(drv_arg(&c, 0), drv_arg(&c, 1));
		else if (drv_is(&c, "Gen"))
			gen(drv_arg(&c, 0), drv_arg(&c, 1), drv_arg(&c, 2), drv_arg(&c, 3), drv_arg(&c, 4), drv_arg(&c, 5));
		else { fprintf(stderr, "mq_drv: unknown command %s\n", c.tok[0]); return 3; }
	}
	fflush(stdout);
	return 0;
}
