/* list_drv.c - conformance driver for librfn/list.c (property C09).
 * Script in, ndjson trace out; see drv.h.  "Gen" produces seeded random
 * legal histories by itself (legality is judged on the real lists). */
#include "drv.h"
#include <librfn/list.h>
#include <librfn/util.h>

#define MAXN 400
#define MAXL 4
static const int keytab[8] = { 50000, 100000, 100000, 150000, 50000, 150000, 100000, 50000 };

typedef struct { int pad; list_node_t link; int key; } item_t;
static item_t *items;        /* heap allocated: ASan redzones around it */
static list_t **lptr;       /* every list_t is a heap object of its own, so that it can be moved */
#define LST(l) (*lptr[l])
static int nnodes, nlists;
static list_iterator_t iter;
static int itl;              /* 0 = no live iterator */

static int idx(list_node_t *n)
{
	if (!n)
		return 0;
	for (int i = 0; i < nnodes; i++)
		if (n == &items[i].link)
			return i + 1;
	for (int l = 0; l < nlists; l++)
		if ((void *)n == (void *)&LST(l).head)
			return -(l + 1);
	return 999;
}
static list_node_t *node(int i) { return i ? &items[i - 1].link : NULL; }   /* 0: the NULL node (searching for it finds nothing and ends past the end) */
static int member(int n);
static int cmpmode;          /* the comparator's shape: key difference, strict (never reports a tie), or -1 / 0 / +1 */
static int cmp(list_node_t *a, list_node_t *b)
{
	/* a comparator may itself use the library (on other lists): the call in progress must not notice */
	if (nlists > 1 && nnodes > 0) {
		list_iterator_t tmp;
		(void) list_contains(&LST(nlists - 1), &items[0].link, NULL);
		(void) list_iterate(&LST(0), &tmp);
	}
	int ka = containerof(a, item_t, link)->key, kb = containerof(b, item_t, link)->key;
	return cmpmode == 0 ? ka - kb : cmpmode == 1 ? (ka < kb ? -1 : 1) : (ka > kb) - (ka < kb);
}
static int member(int n)
{
	for (int l = 0; l < nlists; l++) {
		int fuel = nnodes + 2;
		for (list_node_t *c = LST(l).head; c && fuel--; c = c->next)
			if (c == node(n))
				return l + 1;
	}
	return 0;
}
static void reset(int nn, int nl)
{
	static unsigned nreset;
	free(items);
	for (int l = 0; lptr && l < nlists; l++) free(lptr[l]);
	free(lptr);
	nnodes = nn;
	nlists = nl;
	items = calloc(nn, sizeof(item_t));
	lptr = calloc(nl, sizeof(list_t *));
	for (int l = 0; l < nl; l++) lptr[l] = calloc(1, sizeof(list_t));
	cmpmode = nreset++ % 3;
	for (int i = 0; i < nn; i++)
		items[i].key = keytab[i % 8];
	itl = 0;
}
static void emit(const char *e, int na, long a0, long a1, long r)
{
	printf("{\"e\":\"%s\",\"a\":[", e);
	if (na > 0) printf("%ld", a0);
	if (na > 1) printf(",%ld", a1);
	printf("],\"st\":{\"r\":%ld,\"seq\":[", r);
	for (int l = 0; l < nlists; l++) {
		printf("%s[", l ? "," : "");
		int fuel = nnodes + 1, first = 1;
		for (list_node_t *c = LST(l).head; c; c = c->next) {
			if (!fuel--) { printf("%s999", first ? "" : ","); break; }
			printf("%s%d", first ? "" : ",", idx(c));
			first = 0;
		}
		printf("]");
	}
	printf("],\"tl\":[");
	for (int l = 0; l < nlists; l++)
		printf("%s%d", l ? "," : "", LST(l).head ? idx(LST(l).tail) : 0);
	printf("],\"nx\":[");
	for (int i = 0; i < nnodes; i++)
		printf("%s%d", i ? "," : "", idx(items[i].link.next));
	printf("],\"itl\":%d,\"it\":%d}}\n", itl, itl ? idx(*iter.prevnext) : 0);
}
/* the node whose next field the live iterator points at (0: the list's head link) */
static int iter_pred(void)
{
	if (!itl || iter.prevnext == &LST(itl - 1).head) return 0;
	for (int i = 0; i < nnodes; i++) if (iter.prevnext == &items[i].link.next) return i + 1;
	return -1;
}
/* a live iterator survives every list-level operation except the removal of its predecessor node */

static void apply(const char *op, long a, long b)
{
	long r = 0;
	int na = 2;
	if (!strcmp(op, "Insert")) { list_insert(&LST(a - 1), node(b)); }
	else if (!strcmp(op, "Push")) { list_push(&LST(a - 1), node(b)); }
	else if (!strcmp(op, "InsertSorted")) { list_insert_sorted(&LST(a - 1), node(b), cmp); }
	else if (!strcmp(op, "Extract")) { int pr = iter_pred(); r = idx(list_extract(&LST(a - 1))); if (itl == a && r > 0 && pr == r) itl = 0; na = 1; }
	else if (!strcmp(op, "Remove")) { int pr = iter_pred(); r = list_remove(&LST(a - 1), node(b)); if (itl == a && r && pr == b) itl = 0; }
	else if (!strcmp(op, "Contains")) { r = list_contains(&LST(a - 1), node(b), NULL); }
	else if (!strcmp(op, "ContainsIter")) {
		/* a caller that wants only the iterator position may ignore the answer: on alternate calls the result is
		 * discarded (and asked for again, without an iterator, for the log) */
		static unsigned alt;
		if (alt++ & 1) { (void) list_contains(&LST(a - 1), node(b), &iter); r = list_contains(&LST(a - 1), node(b), NULL); }
		else r = list_contains(&LST(a - 1), node(b), &iter);
		itl = a;
	}
	else if (!strcmp(op, "Iterate")) { r = idx(list_iterate(&LST(a - 1), &iter)); itl = a; na = 1; }
	else if (!strcmp(op, "IterNext")) { r = idx(list_iterator_next(&iter)); na = 0; }
	else if (!strcmp(op, "IterInsert")) {
		/* the one insertion call without a precondition on the node's link: on alternate calls the node arrives with
		 * whatever an earlier life left in it (it is in no list) */
		static unsigned stale;
		if (a && !member(a) && (stale++ & 1)) node(a)->next = &items[(a + stale) % nnodes].link;
		list_iterator_insert(&iter, node(a)); na = 1;
	}
	else if (!strcmp(op, "Relocate")) {
		/* the list_t itself moves (struct assignment); the old object is given back to the allocator */
		list_t *nl = malloc(sizeof(list_t));
		*nl = LST(a - 1);
		memset(lptr[a - 1], 0x5A, sizeof(list_t));
		free(lptr[a - 1]);
		lptr[a - 1] = nl;
		na = 1;
	}
	else if (!strcmp(op, "IterRemove")) { r = idx(list_iterator_remove(&iter)); na = 0; }
	else { fprintf(stderr, "list_drv: unknown op %s\n", op); exit(3); }
	emit(op, na, a, b, r);
}

static void gen(long seed, int nexec, int nops, int nn, int nl)
{
	drv_srand(seed);
	for (int x = 0; x < nexec; x++) {
		reset(nn, nl);
		printf("{\"e\":\"Reset\",\"a\":[%d,%d]}\n", nn, nl);
		int ops = nops / 2 + drv_below(nops);
		for (int k = 0; k < ops; k++) {
			int l = 1 + drv_below(nl), n = 1 + drv_below(nn);
			int m = member(n);
			switch (drv_below(14)) {
			case 13: if (itl != l) apply("Relocate", l, 0); break;
			case 0: case 1: if (!m) apply("Insert", l, n); break;
			case 2: if (!m) apply("Push", l, n); break;
			case 3: if (!m) apply("InsertSorted", l, n); break;
			case 4: apply("Extract", l, 0); break;
			case 5: apply("Remove", l, n); break;
			case 6: apply("Remove", m ? m : l, n); break;
			case 7: apply("Contains", l, drv_below(12) ? n : 0); break;
			case 8: apply("ContainsIter", m && drv_below(2) ? m : l, drv_below(10) ? n : 0); break;
			case 9: apply("Iterate", l, 0); break;
			case 10: if (itl) apply("IterNext", 0, 0); break;
			case 11: if (itl && !m) apply("IterInsert", n, 0); break;
			case 12: if (itl && *iter.prevnext) apply("IterRemove", 0, 0); break;
			}
		}
	}
}

int main(void)
{
	drv_cmd_t c;
	drv_install_handlers();
	reset(4, 2);
	while (drv_read(&c, stdin)) {
		if (drv_is(&c, "Reset")) {
			int nn = c.ntok > 1 ? drv_arg(&c, 0) : nnodes, nl = c.ntok > 2 ? drv_arg(&c, 1) : nlists;
			reset(nn, nl);
			printf("{\"e\":\"Reset\",\"a\":[%d,%d]}\n", nn, nl);
		} else if (drv_is(&c, "Long")) {
			/* one long list: membership and removal far from the head */
			int nn = drv_arg(&c, 0);
			reset(nn, 1);
			printf("{\"e\":\"Reset\",\"a\":[%d,%d]}\n", nn, 1);
			for (int i = 1; i <= nn; i++) apply("Insert", 1, i);
			apply("Contains", 1, nn); apply("Contains", 1, 256); apply("Contains", 1, 255); apply("Contains", 1, 1);
			apply("Remove", 1, 256); apply("Contains", 1, 256); apply("Remove", 1, nn); apply("ContainsIter", 1, nn - 1);
			apply("IterRemove", 0, 0); apply("Remove", 1, 257); apply("Extract", 1, 0); apply("Contains", 1, nn - 2);
		} else if (drv_is(&c, "Big")) {
			/* one list of n nodes (far more than any bounded walk would allow for): the oracle for this size is the driver's
			 * own bookkeeping, the specification checks the tallies */
			int n = drv_arg(&c, 0);
			item_t *it = calloc(n + 2, sizeof(item_t));
			list_t L = LIST_VAR_INIT;
			for (int i = 0; i < n; i++) list_insert(&L, &it[i].link);
			int f_first = list_contains(&L, &it[0].link, NULL), f_mid = list_contains(&L, &it[n / 2].link, NULL);
			int f_last = list_contains(&L, &it[n - 1].link, NULL), f_abs = list_contains(&L, &it[n].link, NULL);
			int r_last = list_remove(&L, &it[n - 1].link), f_last2 = list_contains(&L, &it[n - 1].link, NULL);
			int r_abs = list_remove(&L, &it[n].link);
			list_iterator_t li;
			int f_abs2 = list_contains(&L, &it[n].link, &li);       /* not found: the iterator is past the end */
			list_iterator_insert(&li, &it[n].link);                  /* "append if absent" */
			list_insert(&L, &it[n + 1].link);
			int r_mid = list_remove(&L, &it[n - 2].link);
			/* expected order now: 0 .. n-3, n, n+1 */
			long k = 0; int ok = 1;
			for (list_node_t *c2 = L.head; c2; c2 = c2->next, k++) {
				long want = k < n - 2 ? k : k == n - 2 ? n : n + 1;
				if (k > n || c2 != &it[want].link) { ok = 0; break; }
			}
			printf("{\"e\":\"Big\",\"n\":%d,\"found\":[%d,%d,%d,%d,%d,%d],\"removed\":[%d,%d,%d],\"len\":%ld,\"ok\":%d}\n", n,
			       f_first, f_mid, f_last, f_abs, f_last2, f_abs2, r_last, r_abs, r_mid, k, ok);
			free(it);
		} else if (drv_is(&c, "Gen")) {
			gen(drv_arg(&c, 0), drv_arg(&c, 1), drv_arg(&c, 2), drv_arg(&c, 3), drv_arg(&c, 4));
		} else {
			apply(c.tok[0], c.ntok > 1 ? drv_arg(&c, 0) : 0, c.ntok > 2 ? drv_arg(&c, 1) : 0);
		}
	}
	fflush(stdout);
	return 0;
}
