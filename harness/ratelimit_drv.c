/* ratelimit_drv.c - conformance driver for ratelimit_check() in librfn/util.c (growth module X01).
 * The driver owns the clock: time_now() returns a variable it advances.  Reset base | Check dt n w | Random seed nexec nops */
#include "drv.h"
#include <librfn/util.h>

static uint32_t clk;
uint32_t time_now(void) { return clk; }
static ratelimit_state_t rs;

static void reset(uint32_t base) { clk = base; memset(&rs, 0, sizeof(rs)); printf("{\"e\":\"Reset\"}\n"); }
static void check(uint32_t dt, uint32_t n, uint32_t w)
{
	clk += dt;
	int r = ratelimit_check(&rs, n, w);
	printf("{\"e\":\"Check\",\"dt\":%u,\"n\":%u,\"w\":%u,\"r\":%d}\n", dt, n, w, r);
}
int main(void)
{
	drv_cmd_t c;
	drv_install_handlers();
	reset(1);
	while (drv_read(&c, stdin)) {
		if (drv_is(&c, "Reset")) reset((uint32_t)drv_arg(&c, 0));
		else if (drv_is(&c, "Check")) check(drv_arg(&c, 0), drv_arg(&c, 1), drv_arg(&c, 2));
		else if (drv_is(&c, "Random")) {
			drv_srand(drv_arg(&c, 0));
			int nexec = drv_arg(&c, 1), nops = drv_arg(&c, 2);
			static const uint32_t bases[] = { 1, 1000, 0x7ffffff0u - 3000000u, 0x7fffffffu - 1, 0x40000000u, 0x7f000000u };
			for (int x = 0; x < nexec; x++) {
				reset(bases[x % 6] + (x % 7 == 0 ? 0 : drv_below(1000)));
				for (int k = 0; k < nops; k++) {
					uint32_t w = 1 + drv_below(3), n = 1 + drv_below(4), dt;
					switch (drv_below(8)) {
					case 0: dt = 0; break;
					case 1: dt = w * 1000000u - 1 + drv_below(3); break;          /* around the window edge */
					case 2: dt = drv_below(5000000); break;
					case 3: dt = 0x7fffffffu - w * 1000000u - 5 - drv_below(1000); break; /* as far as cyclic arithmetic allows */
					case 4: dt = 0x40000000u + drv_below(1000); break;
					default: dt = drv_below(400000); break;
					}
					check(dt, n, w);
				}
			}
		} else { fprintf(stderr, "ratelimit_drv: unknown command %s\n", c.tok[0]); return 3; }
	}
	fflush(stdout);
	return 0;
}
