/* mainloop_drv.c - the real fibre_scheduler_main_loop (librfn/posix/fibre_posix.c) run against a scripted scheduler and a
 * mock clock (C03, consumer side).  The driver supplies fibre_scheduler_next, time_now and usleep; the loop never returns,
 * so the mock scheduler longjmps out when the script is exhausted.
 *   Run seed n     n iterations per clock placement: structured (d, w) pairs first, then random ones */
#define _GNU_SOURCE
#include "drv.h"
#include <setjmp.h>
#include <unistd.h>
#include <time.h>
#include <poll.h>
#include <sys/select.h>
#include <librfn/fibre.h>
#include <librfn/time.h>

static uint32_t clk;
static jmp_buf out;
#include <errno.h>
static struct { uint32_t d, w; int intr; } script[200000];   /* intr >= 0: a signal arrives intr ticks into the iteration's first sleep */
static int it_intr, it_pending_intr;
static uint32_t it_asked, it_after;
static long nscript, pos;
static uint32_t it_t0, it_ret, it_t1, it_slept;
static int it_calls, have_iter;
static void slept_for(uint64_t us);

static void flush_iter(void)
{
	if (!have_iter) return;
	/* relative to t0: the returned time, the time the scheduler call ended, what usleep was asked for */
	printf("{\"e\":\"Iter\",\"d\":%d,\"w\":%u,\"slept\":%u,\"calls\":%d,\"intr\":%d,\"asked\":%u,\"after\":%u}\n", (int32_t)(it_ret - it_t0), it_t1 - it_t0,
	       it_slept, it_calls, it_intr, it_asked, it_after);
	have_iter = 0;
}
/* the clock and every way of sleeping a POSIX program has, all on the mock clock (the library's own time_posix.c is linked:
 * time_now() reads clock_gettime) */
int clock_gettime(clockid_t id, struct timespec *ts) { (void)id; ts->tv_sec = clk / 1000000u; ts->tv_nsec = (clk % 1000000u) * 1000L; return 0; }
/* returns the part of the sleep that was NOT slept (0: slept in full).  The first sleep of an iteration may be cut short by a
 * signal: the clock advances only as far as the signal, its handler posts a wake-up (what fibre_run_atomic from a signal
 * handler amounts to for a scripted scheduler), and the primitive reports the interruption the POSIX way. */
static uint64_t slept_some(uint64_t us)
{
	if (!it_calls) it_asked = (uint32_t)us;
	it_calls++;
	if (it_intr >= 0 && it_calls > 1) it_after += (uint32_t)us;     /* sleeping again although a wake-up is pending */
	if (it_pending_intr >= 0 && (uint64_t)it_pending_intr < us) {
		uint64_t k = (uint64_t)it_pending_intr;
		it_intr = it_pending_intr; it_pending_intr = -1;
		it_slept += (uint32_t)k; clk += (uint32_t)k;
		return us - k;
	}
	it_pending_intr = -1;
	it_slept += (uint32_t)us; clk += (uint32_t)us;
	return 0;
}
static void slept_for(uint64_t us) { (void)slept_some(us); }
static int eintr(void) { errno = EINTR; return -1; }
int nanosleep(const struct timespec *rq, struct timespec *rm)
{
	uint64_t left = slept_some((uint64_t)rq->tv_sec * 1000000u + (rq->tv_nsec + 999) / 1000);
	if (!left) return 0;
	if (rm) { rm->tv_sec = left / 1000000u; rm->tv_nsec = (left % 1000000u) * 1000L; }
	return eintr();
}
int clock_nanosleep(clockid_t id, int flags, const struct timespec *rq, struct timespec *rm)
{
	(void)id; (void)rm;
	uint64_t t = (uint64_t)rq->tv_sec * 1000000u + (rq->tv_nsec + 999) / 1000;
	uint64_t left;
	if (flags & TIMER_ABSTIME) { int32_t dlt = (int32_t)((uint32_t)t - clk); left = slept_some(dlt > 0 ? dlt : 0); } else left = slept_some(t);
	if (!left) return 0;
	if (rm && !(flags & TIMER_ABSTIME)) { rm->tv_sec = left / 1000000u; rm->tv_nsec = (left % 1000000u) * 1000L; }
	return EINTR;
}
int select(int n, fd_set *r, fd_set *w, fd_set *e, struct timeval *tv) { (void)n; (void)r; (void)w; (void)e; if (tv && slept_some((uint64_t)tv->tv_sec * 1000000u + tv->tv_usec)) return eintr(); return 0; }
int poll(struct pollfd *f, nfds_t n, int ms) { (void)f; (void)n; if (ms > 0 && slept_some((uint64_t)ms * 1000u)) return eintr(); return 0; }
unsigned int sleep(unsigned int s) { return (unsigned int)((slept_some((uint64_t)s * 1000000u) + 999999u) / 1000000u); }
uint32_t fibre_scheduler_next(uint32_t t)
{
	flush_iter();
	if (pos >= nscript) longjmp(out, 1);
	it_t0 = t; it_ret = t + script[pos].d;
	clk += script[pos].w;          /* the dispatched fibre takes time */
	it_t1 = clk; it_slept = 0; it_calls = 0; have_iter = 1;
	it_intr = -1; it_pending_intr = script[pos].intr; it_asked = 0; it_after = 0;
	pos++;
	return it_ret;
}
int usleep(useconds_t us) { return slept_some(us) ? eintr() : 0; }

int main(void)
{
	drv_cmd_t c;
	drv_install_handlers();
	while (drv_read(&c, stdin)) {
		if (!drv_is(&c, "Run")) { fprintf(stderr, "mainloop_drv: unknown command %s\n", c.tok[0]); return 3; }
		drv_srand(drv_arg(&c, 0));
		long n = drv_arg(&c, 1);
		static const uint32_t ds[] = { 0, 1, 2, 500, 999, 1000, 1001, 2000, 49999, 50000, 50001, 100000, 1000000, 0x7ffffffe, FIBRE_UNBOUNDED_SLEEP };
		static const uint32_t ws[] = { 0, 1, 300, 999, 1000, 2000, 60000 };
		static const uint32_t bases[] = { 0, 1000000, 0x7fffffffu - 70000, 0xffffffffu - 70000, 0xffffffffu - 500, 0x80000000u };
		for (unsigned b = 0; b < sizeof(bases) / sizeof(bases[0]); b++) {
			nscript = 0;
			for (unsigned i = 0; i < sizeof(ds) / sizeof(ds[0]); i++)
				for (unsigned j = 0; j < sizeof(ws) / sizeof(ws[0]); j++) { script[nscript].d = ds[i]; script[nscript].w = ws[j]; script[nscript].intr = -1; nscript++; }
			/* signals that arrive at every kind of moment of sleeps of every kind of length */
			static const int ks[] = { 0, 1, 10, 499, 10000, 30000, 49999 };
			for (unsigned i = 0; i < sizeof(ds) / sizeof(ds[0]); i++)
				for (unsigned j = 0; j < sizeof(ks) / sizeof(ks[0]); j++) { script[nscript].d = ds[i]; script[nscript].w = ws[j % 3]; script[nscript].intr = ks[j]; nscript++; }
			for (long k = 0; k < n && nscript < 199000; k++) {
				unsigned x = drv_below(10);
				script[nscript].d = x < 3 ? 0 : x < 6 ? drv_below(3000) : x < 8 ? drv_below(120000) : x < 9 ? FIBRE_UNBOUNDED_SLEEP : drv_rand() & 0x7fffffff;
				script[nscript].w = drv_below(4) ? drv_below(1500) : drv_below(100000);
				script[nscript].intr = drv_below(4) ? -1 : (int)drv_below(drv_below(2) ? 50000 : 2000);
				nscript++;
			}
			pos = 0; clk = bases[b]; have_iter = 0;
			if (!setjmp(out)) fibre_scheduler_main_loop();
		}
	}
	fflush(stdout);
	return 0;
}
