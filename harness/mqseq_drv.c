/* mqseq_drv.c - messageq.c as a sequential object, every geometry (C10).
 *   Reset depth msglen slack static   | Claim | Send i | Receive | Release | Empty | Gen seed nrandom nops */
#include "drv.h"
#include <librfn/messageq.h>

static messageq_t *mq;
static char *store, *rawstore;
static int misalign;      /* the caller's memory starts this many bytes off an 8-byte boundary */
static int depth, msglen, slack;
/* the driver's record of what the real queue handed out (oldest first) */
static struct { char *p; int st; unsigned tag; } win[64];
static int nwin;
static unsigned tagctr;

static long off(void *p) { return p ? (long)((char *)p - store) : -1; }
static void fill(char *p, unsigned tag) { for (int i = 0; i < msglen; i++) p[i] = (char)(tag * 31 + i * 7 + 1); }
static int intact(char *p, unsigned tag) { for (int i = 0; i < msglen; i++) if (p[i] != (char)(tag * 31 + i * 7 + 1)) return 0; return 1; }
static int slack_ok(void)
{
	for (int i = 0; i < slack; i++)
		if ((unsigned char)store[depth * msglen + i] != 0xA5)
			return 0;
	return 1;
}
#include <sys/mman.h>
static int straddle;     /* place the caller's memory across the 4 GiB address boundary (possible in builds without a sanitizer) */
static char *straddle_map;
static void reset(int d, int m, int s, int use_static)
{
	/* warm restart: when the geometry is the one of the previous execution, every other reset re-initialises the SAME
	 * descriptor over the SAME memory, whatever state the previous execution left it in (messages claimed, sent, held) */
	static unsigned warm;
	static int pmis = -1;
	int same = mq && rawstore && d == depth && m == msglen && s == slack && pmis == misalign && (warm++ & 1);
	depth = d; msglen = m; slack = s; pmis = misalign;
	size_t len = (size_t)d * m + s;
	if (straddle) {
		/* half of the buffers below 2^32, half above */
		if (!straddle_map) {
			straddle_map = mmap((void *)0xfff00000ul, 0x200000, PROT_READ | PROT_WRITE, MAP_PRIVATE | MAP_ANONYMOUS | MAP_FIXED_NOREPLACE, -1, 0);
			if (straddle_map == MAP_FAILED) { straddle_map = NULL; straddle = 0; }
		}
		if (straddle_map && len < 0x100000) {
			same = 0;
			free(rawstore); rawstore = NULL;
			if (!mq) mq = malloc(sizeof(*mq));
			store = (char *)0x100000000ul - (len / 2 / (m ? m : 1)) * m - (d > 1 ? m / 2 : 0);
			goto placed;
		}
	}
	if (!same) {
		free(rawstore);
		free(mq);
		rawstore = malloc(len + misalign ? len + misalign : 1);    /* the queue's memory ends where the heap block ends */
		store = rawstore + misalign;
		mq = malloc(sizeof(*mq));
	}
placed:
	memset(store, 0xA5, len);
	if (use_static && m == 12) {
		/* macro arguments spelled as unparenthesised expressions */
		messageq_t q = MESSAGEQ_VAR_INIT(store, (size_t)d * 12 + s, 8 + 4);
		memcpy(mq, &q, sizeof(q));
	} else if (use_static) {
		messageq_t q = MESSAGEQ_VAR_INIT(store, len, m);
		memcpy(mq, &q, sizeof(q));
	} else {
		messageq_init(mq, store, len, m);
	}
	nwin = 0;
	printf("{\"e\":\"Reset\",\"g\":{\"depth\":%d,\"msglen\":%d,\"slack\":%d},\"static\":%d}\n", d, m, s, use_static);
}
static void emit(const char *e, int na, long a, long r, int ok)
{
	printf("{\"e\":\"%s\",\"a\":[", e);
	if (na) printf("%ld", a);
	printf("],\"r\":%ld,\"ok\":%d}\n", r, ok && slack_ok());
}
static void do_claim(void)
{
	char *p = messageq_claim(mq);
	int ok = 1;
	if (p) {
		ok = p >= store && p + msglen <= store + (size_t)depth * msglen && nwin < 64;
		if (ok) {
			fill(p, ++tagctr);
			win[nwin].p = p; win[nwin].st = 0; win[nwin].tag = tagctr;
			nwin++;
		}
	}
	emit("Claim", 0, 0, off(p), ok);
}
static void do_send(int i)
{
	messageq_send(mq, win[i - 1].p);
	win[i - 1].st = 1;
	emit("Send", 1, i, 0, 1);
}
static void do_receive(void)
{
	char *p = messageq_receive(mq);
	int ok = 1;
	if (p) {
		int k;
		for (k = 0; k < nwin && win[k].st == 2; k++)
			;
		/* contents written before the send must be intact */
		ok = k < nwin && win[k].p == p && intact(p, win[k].tag);
		if (k < nwin) win[k].st = 2;
	}
	emit("Receive", 0, 0, off(p), ok);
}
static void do_release(void)
{
	char *p = win[0].p;
	messageq_release(mq, p);
	memmove(&win[0], &win[1], sizeof(win[0]) * (nwin - 1));
	nwin--;
	emit("Release", 0, 0, off(p), 1);
}
/* n whole cycles on an idle queue, checked as they go: every claim returns the buffer after the previous one (cyclically),
 * the receive returns the buffer that was sent with what was written into it; one event for the lot */
static void do_cycles(unsigned long long n)
{
	int ok = nwin == 0;
	char *expect = NULL;
	for (unsigned long long k = 0; k < n && ok; k++) {
		char *p = messageq_claim(mq);
		if (!p || p < store || p + msglen > store + (size_t)depth * msglen || (expect && p != expect)) { ok = 0; break; }
		p[msglen - 1] = (char)(k >> 3); p[0] = (char)k;
		messageq_send(mq, p);
		char *q = messageq_receive(mq);
		if (q != p || q[0] != (char)k || (msglen > 1 && q[msglen - 1] != (char)(k >> 3))) { ok = 0; break; }
		messageq_release(mq, q);
		expect = p + msglen >= store + (size_t)depth * msglen ? store : p + msglen;
	}
	printf("{\"e\":\"Cycles\",\"a\":[%llu,%llu],\"r\":0,\"ok\":%d}\n", n & 0xffff, n >> 16, ok && slack_ok());
}
static void systematic(void);
/* a queue that has been in service for a long time: k cycles, then the systematic history */
static void longrun(int d, int m, unsigned long long n)
{
	reset(d, m, 0, (int)(n & 1));
	do_claim(); do_send(1); do_receive(); do_release();
	do_cycles(n);
	systematic();
}
static void do_empty(void) { emit("Empty", 0, 0, messageq_empty(mq), 1); }

static int first_claimed(int from_end)
{
	if (from_end) { for (int i = nwin - 1; i >= 0; i--) if (win[i].st == 0) return i + 1; }
	else { for (int i = 0; i < nwin; i++) if (win[i].st == 0) return i + 1; }
	return 0;
}
static int fuel;
#define FUEL() if (fuel-- <= 0) { printf("{\"e\":\"Stuck\",\"a\":[],\"r\":0,\"ok\":0}\n"); return; }
static void systematic(void)
{
	fuel = 40 * depth + 3000;
	for (int round = 0; round < 3; round++) {
		for (int i = 0; i <= depth; i++) { do_claim(); do_empty(); }      /* fill, one too many */
		int k;
		while ((k = first_claimed(round != 1)) != 0) {                      /* sends in reverse (or forward) order */
			FUEL();
			do_send(k);
			do_empty();
			do_receive();
		}
		while (nwin) {
			FUEL();
			do_receive();
			if (win[0].st == 2) do_release();
			do_claim();
			int j = first_claimed(0);
			if (j) do_send(j);
			if (round == 2 && nwin && win[0].st == 2) do_release();
			if (tagctr % 97 == 0) break;
		}
		while (nwin) {                                                  /* drain */
			FUEL();
			int j = first_claimed(0);
			if (j) do_send(j);
			do_receive();
			if (win[0].st == 2) do_release();
		}
		do_receive(); do_empty();
	}
}
static void randomh(int nops)
{
	for (int n = 0; n < nops; n++) {
		switch (drv_below(6)) {
		case 0: case 1: do_claim(); break;
		case 2: { int c = 0; for (int i = 0; i < nwin; i++) c += win[i].st == 0;
			  if (c) { int pick = drv_below(c); for (int i = 0; i < nwin; i++) if (win[i].st == 0 && pick-- == 0) { do_send(i + 1); break; } } break; }
		case 3: do_receive(); break;
		case 4: if (nwin && win[0].st == 2) do_release(); break;
		case 5: do_empty(); break;
		}
	}
}
static void randomh(int nops);
static void systematic(void);
static void gen(long seed, int nrandom, int nops, int both)
{
	/* the largest message size the 16-bit msg_len field allows */
	static const int bigd[] = { 2, 3, 17, 32 };
	for (int i = 0; i < 4; i++) {
		reset(bigd[i], 65535, i % 2 ? 65534 : 0, i % 2);
		systematic();
	}
	/* every message size that is a power of two (and its neighbours above 128), through both initialisers */
	for (int k = 0; k < 16; k++)
		for (int dlt = -1; dlt <= 1; dlt++) {
			int m = (1 << k) + dlt;
			if (m < 1 || (dlt && k < 7) || (!both && dlt && k % 3)) continue;
			static const int pd[] = { 2, 3, 5 };
			for (int st = 0; st < 2; st++) {
				reset(pd[(k + st + dlt + 1) % 3], m, (k + st) % 2 ? (m > 1 ? 1 : 0) : 0, st);
				systematic();
			}
		}
	static const int sizes[] = { 1, 3, 4, 7, 12, 24, 1000, 4096 };   /* 32 x 4096 > 64 KiB: offsets beyond 16 bits */
	drv_srand(seed);
	/* the caller's memory at every offset from an 8-byte boundary, message sizes that are and are not multiples of the word size */
	static const int msz[] = { 8, 16, 24, 4, 3, 2 }, mdep[] = { 1, 4, 32 };
	for (misalign = 1; misalign < 8; misalign++)
		for (int a = 0; a < 6; a++) for (int b = 0; b < 3; b++) for (int sl = 0; sl < 2; sl++) {
			if (!both && (misalign + a + b + sl) % 2) continue;
			reset(mdep[b], msz[a], sl ? (msz[a] > 3 ? 3 : msz[a] - 1) : 0, (a + b + sl) & 1);
			systematic();
		}
	misalign = 0;
	/* claims that fail many times in a row (more than any 8- or 16-bit counter of refusals could hold), then normal service */
	static const long fails[] = { 127, 128, 129, 130, 255, 256, 257, 300, 66000 };
	for (int i = 0; i < 9; i++) {
		if (!both && fails[i] > 300 && i % 2) continue;
		reset(1 + i % 3, 4, 0, i & 1);
		for (int k = 0; k < depth; k++) do_claim();
		for (long k = 0; k < fails[i]; k++) do_claim();
		for (int round = 0; round < 3; round++) {
			do_send(first_claimed(0)); do_receive(); do_release(); do_claim(); do_claim(); do_empty();
		}
		while (first_claimed(0)) do_send(first_claimed(0));
		while (nwin) { do_receive(); do_release(); }
		for (int k = 0; k <= depth; k++) do_claim();
	}
	/* long histories (several hundred claims) on depths that do not divide 256 */
	static const int oddd[] = { 3, 5, 6, 7, 12, 31 };
	for (int i = 0; i < 6; i++) {
		reset(oddd[i], 4, 0, i & 1);
		for (int k = 0; k < 700; k++) {
			do_claim();
			int j = first_claimed(0);
			if (j) do_send(j);
			if (k % 3 != 0 || nwin >= depth) { do_receive(); if (nwin && win[0].st == 2) do_release(); }
			if (k % 50 == 0) do_empty();
		}
	}
	/* more than 65536 successful claims on a depth that is not a power of two (a 16-bit claim counter would wrap) */
	for (int i = 0; i < (both ? 3 : 1); i++) {
		reset(oddd[i], 1, 0, 0);
		for (long k = 0; k < 66000; k++) { do_claim(); do_send(first_claimed(0)); do_receive(); do_release(); }
		for (int k = 0; k <= depth; k++) do_claim();
	}
	for (int d = 1; d <= 32; d++)
		for (int si = 0; si < 8; si++)
			for (int sl = 0; sl < 3; sl++) {
				int m = sizes[si];
				int s = sl == 0 ? 0 : sl == 1 ? (m > 1 ? 1 : 0) : m - 1;
				if (sl == 1 && m == 1) continue;
				for (int st = 0; st < 2; st++) {
					if (!both && st != (d + si + sl) % 2) continue;
					reset(d, m, s, st);
					systematic();
					for (int r = 0; r < nrandom; r++) {
						reset(d, m, s, drv_below(2));
						randomh(nops);
					}
				}
			}
}

int main(void)
{
	drv_cmd_t c;
	drv_install_handlers();
	while (drv_read(&c, stdin)) {
		if (drv_is(&c, "Reset")) reset(drv_arg(&c, 0), drv_arg(&c, 1), drv_arg(&c, 2), drv_arg(&c, 3));
		else if (drv_is(&c, "Claim")) do_claim();
		else if (drv_is(&c, "Send")) do_send(drv_arg(&c, 0));
		else if (drv_is(&c, "Receive")) do_receive();
		else if (drv_is(&c, "Release")) do_release();
		else if (drv_is(&c, "Empty")) do_empty();
		else if (drv_is(&c, "Long")) {
			/* Long log2 : 2^log2 + {0, 1, 5} cycles on depths that do not divide a power of two */
			unsigned long long base = 1ull << drv_arg(&c, 0);
			longrun(3, 4, base); longrun(3, 1, base + 1); longrun(7, 12, base + 5); longrun(5, 8, base - 1);
			/* large messages: the BYTES handed out pass 2^32 long before the claims do */
			if (base >= 65536 && base <= (1ull << 24)) { longrun(3, 60000, base + 6000); longrun(7, 65535, base + 3); longrun(5, 4096, base + 1); }
		}
		else if (drv_is(&c, "Straddle")) {
			/* the caller's memory lies across the 4 GiB boundary: a buffer's address has bits above 2^32 or not */
			straddle = 1;
			static const int geo[][2] = { { 2, 8 }, { 3, 4 }, { 4, 12 }, { 7, 1 }, { 16, 24 }, { 32, 4096 }, { 5, 1000 }, { 32, 3 } };
			for (unsigned g = 0; g < sizeof(geo) / sizeof(geo[0]); g++)
				for (int st = 0; st < 2; st++) { reset(geo[g][0], geo[g][1], st && geo[g][1] > 1 ? 1 : 0, st); if (!straddle) break; systematic(); }
			printf("{\"e\":\"Reset\",\"g\":{\"depth\":1,\"msglen\":1,\"slack\":0},\"static\":%d}\n", straddle ? 2 : 3);
			straddle = 0; rawstore = NULL; store = NULL; free(mq); mq = NULL;
		}
		else if (drv_is(&c, "Long1")) longrun(3, 4, (1ull << drv_arg(&c, 0)) + 1);
		else if (drv_is(&c, "Gen")) gen(drv_arg(&c, 0), drv_arg(&c, 1), drv_arg(&c, 2), drv_arg(&c, 3));
		else { fprintf(stderr, "mqseq_drv: unknown command %s\n", c.tok[0]); return 3; }
	}
	fflush(stdout);
	return 0;
}
