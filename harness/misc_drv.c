/* misc_drv.c - growth modules regdump.c, enum.c, stats.c (X02): one event per case, validated against spec/Misc.tla */
#define _GNU_SOURCE
#include "drv.h"
#include <librfn/regdump.h>
#include <librfn/enum.h>
#include <librfn/stats.h>
#include <librfn/util.h>
uint32_t time_now(void) { return 0; }

static void jstr(const char *s) { printf("["); for (int i = 0; s && s[i]; i++) printf("%s%u", i ? "," : "", (unsigned char)s[i]); printf("]"); }
static void j32(uint32_t v) { printf("[%u,%u,%u,%u]", v & 0xff, (v >> 8) & 0xff, (v >> 16) & 0xff, v >> 24); }

static void reg_case(uint32_t reg, int nf)
{
	static char names[8][8];
	regdump_desc_t desc[10];
	memset(desc, 0, sizeof(desc));
	for (int i = 0; i <= nf; i++) {
		snprintf(names[i], 8, "n%c", 'a' + i);
		desc[i].name = names[i];
		if (i) { int lo = drv_below(30), w = 1 + drv_below(31 - lo); desc[i].mask = (w >= 32 ? 0xffffffffu : ((1u << w) - 1)) << lo; if (drv_below(6) == 0) desc[i].mask = 1u << drv_below(32); }
	}
	printf("{\"e\":\"Reg\",\"reg\":"); j32(reg); printf(",\"desc\":[");
	for (int i = 0; i <= nf; i++) { printf("%s{\"name\":", i ? "," : ""); jstr(desc[i].name); printf(",\"mask\":"); j32(desc[i].mask); printf("}"); }
	printf("],\"lines\":[");
	int state = REGDUMP_STATE_VAR_INIT, first = 1;
	for (int guard = 0; guard < 20; guard++) {
		char *buf = NULL; size_t len = 0;
		FILE *f = open_memstream(&buf, &len);
		int next = fregdump_single(f, reg, desc, &state);
		fclose(f);
		char nm[32] = ""; unsigned val = 0; int isreg = 0;
		if (!strncmp(buf, "Register: ", 10)) { isreg = 1; sscanf(buf + 10, "%31s", nm); }
		else sscanf(buf, " %31[^ :] : 0x%x", nm, &val);
		printf("%s{\"name\":", first ? "" : ","); jstr(nm); printf(",\"isreg\":%d,\"next\":%d,\"val\":", isreg, next); j32(val); printf("}");
		first = 0;
		free(buf);
		if (!next) break;
	}
	printf("]}\n");
}
static void enum_case(void)
{
	static const char *pool[] = { "a", "b", "ab", "ba", "abc", "" };
	rf_enumtable_t t[8];
	int n = drv_below(6);
	for (int i = 0; i < n; i++) { t[i].s = pool[drv_below(5)]; t[i].e = (int)drv_below(5) - 1; }
	t[n].s = NULL; t[n].e = 0;
	int e = (int)drv_below(6) - 1;
	const char *q = pool[drv_below(6)];
	const char *s = rf_enum2string(t, e);
	int back = rf_string2enum(t, q);
	printf("{\"e\":\"Enum\",\"t\":[");
	for (int i = 0; i < n; i++) { printf("%s{\"s\":", i ? "," : ""); jstr(t[i].s); printf(",\"e\":%d}", t[i].e); }
	printf("],\"val\":%d,\"q\":", e); jstr(q); printf(",\"s\":"); jstr(s); printf(",\"back\":%d}\n", back);
}
static void stats_case(void)
{
	stats_t s;
	stats_init(&s);
	int n = 1 + drv_below(12);
	uint32_t total = 0;
	printf("{\"e\":\"Stats\",\"d\":[");
	for (int i = 0; i < n; i++) { uint32_t d = drv_below(3) ? drv_below(150) : drv_below(2); stats_add(&s, d); total += d; printf("%s%u", i ? "," : "", d); }
	uint32_t tot = drv_below(3) ? 1 + drv_below(3000) : 0;
	printf("],\"min\":%u,\"max\":%u,\"mean\":%u,\"count\":%u,\"total\":%u,\"ppm\":%u}\n", s.min, s.max, stats_mean(&s), s.count, tot, tot ? stats_per_million(&s, tot) : 0);
}
int main(void)
{
	drv_cmd_t c;
	drv_install_handlers();
	while (drv_read(&c, stdin)) {
		if (drv_is(&c, "Random")) {
			drv_srand(drv_arg(&c, 0));
			int n = drv_arg(&c, 1);
			for (int i = 0; i < n; i++) { reg_case(drv_rand() ^ (drv_rand() << 9), 1 + drv_below(6)); enum_case(); stats_case(); }
		} else { fprintf(stderr, "misc_drv: unknown command\n"); return 3; }
	}
	fflush(stdout);
	return 0;
}
