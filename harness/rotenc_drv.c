/* rotenc_drv.c - conformance driver for librfn/rotenc.c (C19).
 *   Reset | D s | Walk lo hi | Random seed n
 * every rotenc_decode is logged with both readings taken immediately afterwards */
#include "drv.h"
#include <librfn/rotenc.h>

static rotenc_t *r;
static const int gray[4] = { 0, 1, 3, 2 };
static long phase; /* index into the gray sequence (driver's own idea of where the shaft is) */
static int last_fed;  /* last state given to the decoder (the structure's own fields are private) */

static void reset(void)
{
	free(r);
	r = calloc(1, sizeof(*r));
	phase = 0;
	last_fed = 0;
	printf("{\"e\":\"Reset\"}\n");
}
static void dec(int s)
{
	rotenc_decode(r, (uint8_t)s);
	last_fed = s;
	printf("{\"e\":\"D\",\"s\":%d,\"q\":0,\"c\":%u,\"c14\":%u}\n", s, rotenc_count(r), rotenc_count14(r));
}
/* a decode after which nobody reads the counts (the ISR decodes, the application looks only now and then) */
static void decq(int s)
{
	rotenc_decode(r, (uint8_t)s);
	last_fed = s;
	printf("{\"e\":\"D\",\"s\":%d,\"q\":1,\"c\":0,\"c14\":0}\n", s);
}
static void stepq(int dir) { phase += dir; decq(gray[((phase % 4) + 4) % 4]); }
static void step(int dir) { phase += dir; dec(gray[((phase % 4) + 4) % 4]); }

/* walk n quarter steps in direction dir with a bounce pattern after every step */
static void walk(long n, int dir, int pattern)
{
	for (long i = 0; i < n; i++) {
		step(dir);
		switch ((pattern + i) % 7) {
		case 0: break;
		case 1: step(-dir); step(dir); break;                 /* back and forth across the edge */
		case 2: dec(gray[((phase % 4) + 4) % 4]); break;      /* repeated state */
		case 3: step(-dir); step(-dir); step(dir); step(dir); break;
		case 4: step(dir); step(-dir); break;
		case 5: { int cur = gray[((phase % 4) + 4) % 4]; dec(cur ^ 3); dec(cur); break; } /* invalid two-bit jump and back */
		case 6: break;
		}
	}
}
int main(void)
{
	drv_cmd_t c;
	drv_install_handlers();
	reset();
	while (drv_read(&c, stdin)) {
		if (drv_is(&c, "Reset")) reset();
		else if (drv_is(&c, "D")) dec(drv_arg(&c, 0));
		else if (drv_is(&c, "Walk")) walk(drv_arg(&c, 0), drv_arg(&c, 1), drv_arg(&c, 2));
		else if (drv_is(&c, "NoDetent")) {
			/* n inputs that never visit state 0: 1 -> 3 -> 2 (clockwise), invalid jump back to 1, ...; or the reverse */
			long n = drv_arg(&c, 0); int dir = drv_arg(&c, 1);
			static const int fw[3] = { 1, 3, 2 }, bw[3] = { 2, 3, 1 };
			for (long i = 0; i < n; i++) dec(dir > 0 ? fw[i % 3] : bw[i % 3]);
			dec(0); dec(dir > 0 ? 1 : 2); dec(0);
			for (int k = 0; k < 4; k++) if (gray[k] == last_fed) phase = k;
		}
		else if (drv_is(&c, "QWalk")) {        /* n quarter steps without reading, then one read (a decode of the same state) */
			long n = drv_arg(&c, 0); int dir = drv_arg(&c, 1);
			for (long i = 0; i < n; i++) stepq(dir);
			dec(last_fed);
		}
		else if (drv_is(&c, "Spin")) {
			/* a knob spun fast: n quarter steps in one direction, every sample a new valid state (no repeat, no bounce), and
			 * then a sample that differs in both bits; a few more steps, another such sample, and the other way round */
			long n = drv_arg(&c, 0); int dir = drv_arg(&c, 1);
			for (int leg = 0; leg < 3; leg++) {
				for (long i = 0; i < (leg ? 9 + leg : n); i++) step(leg == 2 ? -dir : dir);
				dec(last_fed ^ 3);
				for (int k = 0; k < 4; k++) if (gray[k] == last_fed) phase = k;
			}
			for (int i = 0; i < 6; i++) step(dir);
		}
		else if (drv_is(&c, "Hold")) {
			/* the same state polled n times in a row (a knob at rest, or held part-way through a click) */
			int st = drv_arg(&c, 0); long n = drv_arg(&c, 1);
			for (long i = 0; i < n; i++) dec(st);
			for (int k = 0; k < 4; k++) if (gray[k] == last_fed) phase = k;
		}
		else if (drv_is(&c, "Random")) {
			drv_srand(drv_arg(&c, 0));
			long n = drv_arg(&c, 1);
			for (long i = 0; i < n; i++) {
				unsigned x = drv_below(20);
				if (x < 9) step(1); else if (x < 17) step(-1); else if (x == 17) dec(drv_below(4));
				else dec(gray[((phase % 4) + 4) % 4]);
				if (x == 17) { /* resynchronise the driver's phase with the last state fed in */
					for (int k = 0; k < 4; k++) if (gray[k] == last_fed) phase = k;
				}
			}
		}
		else { fprintf(stderr, "rotenc_drv: unknown command %s\n", c.tok[0]); return 3; }
	}
	fflush(stdout);
	return 0;
}
