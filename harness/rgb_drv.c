/* rgb_drv.c - conformance driver for librfn/rgb.c (growth module X03).
 *   Random seed n : fades between random colours (each call's value and return), gamma look-ups with the default and
 *   random tables */
#include "drv.h"
#include <librfn/rgb.h>

static void fade_case(uint32_t from, uint32_t to, int n)
{
	rgb_fader_t f;
	uint32_t v = from;
	int cap = 600;
	rgb_fader_init(&f, from, to, n);
	printf("{\"e\":\"Fade\",\"from\":%u,\"to\":%u,\"n\":%d,\"cap\":%d,\"steps\":[", from, to, n, cap);
	for (int i = 0; i < cap; i++) {
		bool d = rgb_fade(&f, &v);
		printf("%s{\"v\":%u,\"d\":%d}", i ? "," : "", v, d);
		if (d) break;
	}
	printf("]}\n");
}
static void correct_case(const rgb_gamma_t *g, uint32_t val)
{
	uint32_t out = rgb_correct(g, val);
	printf("{\"e\":\"Correct\",\"table\":[");
	for (int i = 0; i < 256; i++) printf("%s%u", i ? "," : "", g->table[i]);
	printf("],\"b\":[%u,%u,%u,%u],\"out\":[%u,%u,%u,%u]}\n", val & 0xff, (val >> 8) & 0xff, (val >> 16) & 0xff, val >> 24,
	       out & 0xff, (out >> 8) & 0xff, (out >> 16) & 0xff, out >> 24);
}
int main(void)
{
	drv_cmd_t c;
	drv_install_handlers();
	while (drv_read(&c, stdin)) {
		if (drv_is(&c, "Random")) {
			drv_srand(drv_arg(&c, 0));
			long n = drv_arg(&c, 1);
			printf("{\"e\":\"Gamma\",\"table\":[");
			for (int i = 0; i < 256; i++) printf("%s%u", i ? "," : "", rgb_gamma_default.table[i]);
			printf("]}\n");
			static const uint32_t cols[] = { 0, 1, 0xff, 0x100, 0xffff, 0x10000, 0xffffff, 0x808080, 0x7f7f7f, 0x010101 };
			for (unsigned a = 0; a < 10; a++) for (unsigned b = 0; b < 10; b++) { fade_case(cols[a], cols[b], 1 + (a * 7 + b) % 9); fade_case(cols[a], cols[b], 255); }
			for (long i = 0; i < n; i++) {
				uint32_t from = drv_rand() & 0xffffff, to = drv_rand() & 0xffffff;
				if (drv_below(4) == 0) to = from + drv_below(40) - 20 > 0xffffff ? from : from + drv_below(40) - 20;
				to &= 0xffffff;
				fade_case(from, to, 1 + (int)drv_below(drv_below(3) ? 20 : 100000));
				rgb_gamma_t g;
				for (int k = 0; k < 256; k++) g.table[k] = drv_rand();
				correct_case(drv_below(2) ? &rgb_gamma_default : &g, drv_rand() ^ (drv_rand() << 9));
			}
		} else { fprintf(stderr, "rgb_drv: unknown command %s\n", c.tok[0]); return 3; }
	}
	fflush(stdout);
	return 0;
}
