/* irq_drv.c - fibre.c + messageq.c with interrupt-context callers under the vrt interleaving runtime (C06, C03, C07).
 * Context 0 = main loop calling fibre_scheduler_next(t1), (t2), ...; contexts 1..n = one interrupt-context call each.
 *   Reset eqdepth period sleeper npass t1..tn nisr (kind arg)*     kind 0: fibre_run_atomic(fibre arg)   kind 1: event with id arg
 *   S c                                                     context c executes its next atomic operation
 *   Gen seed nexec irq */
#include "drv.h"
#include "vrt.h"
#include <librfn/fibre.h>
#include <librfn/util.h>

uint32_t time_now(void) { return 0; }

typedef struct { int id; int pad; } event_t;
static _Alignas(16) unsigned char evstore[32 * 4096];
static int evsize = sizeof(event_t);   /* events are evsize bytes apart (the event proper is the first sizeof(event_t) of them) */
static fibre_eventq_t hq;
static fibre_t yf;
static struct { fibre_t f; uint32_t wake; } sf;
static int eqdepth, period, npass, nisr, sleeper = 1;
static int srun;             /* the sleeping fibre calls fibre_run(handler) at the start of every dispatch, before it asks for its timeout */
static int seqmark;          /* directed execution: interrupt-context calls run to completion one at a time */
static int pass_ended;       /* the last step of context 0 returned from fibre_scheduler_next */
static int eqroll, aqroll;   /* messages that went through the event queue / the atomic run queue before the scenario starts */
static long times[32];
static struct { int kind, arg; } iprog[VRT_MAXCTX];
static int ids[VRT_MAXCTX];

static int fid(fibre_t *f) { return !f ? 0 : f == &hq.fibre ? 1 : f == &yf ? 2 : f == &sf.f ? 3 : 99; }
static fibre_t *fib(int i) { return i == 1 ? &hq.fibre : i == 2 ? &yf : &sf.f; }

static int h_body(fibre_t *f)
{
	event_t *e;
	PT_BEGIN_FIBRE(f);
	while (1) {
		PT_WAIT_UNTIL(NULL != (e = fibre_eventq_receive(&hq)));
		vrt_note("seen", e->id);
		fibre_eventq_release(&hq, e);
	}
	PT_END();
}
static int y_body(fibre_t *f)
{
	PT_BEGIN_FIBRE(f);
	while (1)
		PT_YIELD();
	PT_END();
}
static int s_body(fibre_t *f)
{
	if (srun)
		fibre_run(&hq.fibre);        /* drains the interrupt-safe queue in the middle of this fibre's own dispatch */
	PT_BEGIN_FIBRE(f);
	while (1) {
		sf.wake += period;
		PT_WAIT_UNTIL(fibre_timeout(sf.wake));
	}
	PT_END();
}
static void main_ctx(void *arg)
{
	(void)arg;
	for (int k = 0; k < npass; k++) {
		uint32_t t = (uint32_t)times[k];
		uint32_t r = fibre_scheduler_next(t);
		vrt_note("ret", (uint32_t)(r - t) == FIBRE_UNBOUNDED_SLEEP ? -2 : (long)r);
		vrt_note("self", fid(fibre_self()));
	}
}
static void isr_ctx(void *arg)
{
	int i = *(int *)arg;
	if (iprog[i].kind == 0) {
		vrt_note("run_atomic", fibre_run_atomic(fib(iprog[i].arg)));
	} else {
		event_t *e = fibre_eventq_claim(&hq);
		if (!e) { vrt_note("claim", -1); return; }
		vrt_note("claim", (long)(((unsigned char *)e - evstore) / evsize));
		e->id = iprog[i].arg;
		vrt_note("send", fibre_eventq_send(&hq, e));
	}
}
static void reset(void)
{
	vrt_reset();
	vrt_clear_regions();
	fibre_verif_reset();
	memset(evstore, 0, sizeof(evstore));
	fibre_eventq_init(&hq, h_body, evstore, eqdepth * evsize, evsize);
	fibre_init(&yf, y_body);
	fibre_init(&sf.f, s_body);
	sf.wake = 0;
	/* queues with a history: their cursors stand anywhere (and any free-running counter inside them has had time to wrap) */
	for (int i = 0; i < eqroll; i++) {
		void *e = messageq_claim(&hq.eventq);
		messageq_send(&hq.eventq, e);
		e = messageq_receive(&hq.eventq);
		messageq_release(&hq.eventq, e);
	}
	for (int i = 0; i < aqroll; i++) {
		fibre_run_atomic(&yf);
		fibre_kill(&yf);            /* drains the request, then withdraws it */
	}
	fibre_run(&yf);
	if (sleeper)
		fibre_run(&sf.f);
	messageq_t *aq = fibre_verif_atomic_runq();
	vrt_region("aq_num_free", (void *)&aq->num_free, sizeof(aq->num_free), 0, 1);
	vrt_region("aq_sendp", (void *)&aq->sendp, sizeof(aq->sendp), 0, 1);
	vrt_region("aq_flags", (void *)&aq->full_flags, sizeof(aq->full_flags), 0, 1);
	vrt_region("aq_receivep", &aq->receivep, sizeof(aq->receivep), 0, 0);
	vrt_region("aq_slot", aq->basep, aq->queue_len * aq->msg_len, aq->msg_len, 2);   /* slot accesses are switch points */
	vrt_region("eq_num_free", (void *)&hq.eventq.num_free, sizeof(hq.eventq.num_free), 0, 1);
	vrt_region("eq_sendp", (void *)&hq.eventq.sendp, sizeof(hq.eventq.sendp), 0, 1);
	vrt_region("eq_flags", (void *)&hq.eventq.full_flags, sizeof(hq.eventq.full_flags), 0, 1);
	vrt_region("eq_receivep", &hq.eventq.receivep, sizeof(hq.eventq.receivep), 0, 0);
	vrt_region("eq_slot", evstore, eqdepth * evsize, evsize, 2);
	vrt_region("taint", fibre_verif_taint_flags(), sizeof(unsigned int), 0, 1);
	printf("{\"e\":\"Reset\",\"eqdepth\":%d,\"period\":%d,\"sleeper\":%d,\"eqstart\":%d,\"aqstart\":%d,\"seq\":%d,\"srun\":%d,\"main\":[", eqdepth, period, sleeper,
	       eqroll % eqdepth, aqroll % 8, seqmark, srun);
	for (int k = 0; k < npass; k++) printf("%s%ld", k ? "," : "", times[k]);
	printf("],\"isr\":[");
	for (int i = 1; i <= nisr; i++) printf("%s{\"k\":\"%s\",\"a\":%d}", i > 1 ? "," : "", iprog[i].kind ? "event" : "run", iprog[i].arg);
	printf("]}\n");
	vrt_clear_events();
	vrt_spawn(main_ctx, NULL);
	for (int i = 1; i <= nisr; i++) { ids[i] = i; vrt_spawn(isr_ctx, &ids[i]); }
	vrt_clear_events();
}
static void jq(const char *k, messageq_t *q)
{
	unsigned fl = *(volatile unsigned *)&q->full_flags;
	printf("\"%s\":{\"nf\":%u,\"sp\":%u,\"rp\":%u,\"fl\":[", k, (unsigned)*(volatile unsigned char *)&q->num_free,
	       (unsigned)*(volatile unsigned char *)&q->sendp, (unsigned)q->receivep);
	int first = 1;
	for (int b = 0; b < 32; b++) if (fl & (1u << b)) { printf("%s%d", first ? "" : ",", b); first = 0; }
	printf("]}");
}
static int step(int c)
{
	vrt_clear_events();
	int r = vrt_step(c);
	if (r < 0) { printf("{\"e\":\"BadStep\",\"c\":%d}\n", c); return r; }
	int n;
	vrt_ev_t *ev = vrt_events(&n);
	const char *op = "none", *var = "";
	int natomic = 0;
	for (int i = 0; i < n; i++)
		if ((ev[i].kind == 'A' || ev[i].sw) && natomic++ == 0) { op = ev[i].op; var = ev[i].var; }
	printf("{\"e\":\"S\",\"c\":%d,\"op\":\"%s\",\"var\":\"%s\",\"na\":%d,\"calls\":[", c, op, var, natomic);
	int first = 1;
	for (int i = 0; i < n; i++)
		if (ev[i].kind == 'C') {
			printf("%s{\"n\":\"%s\",\"r\":%ld}", first ? "" : ",", ev[i].op, ev[i].res); first = 0;
			if (c == 0 && !strcmp(ev[i].op, "self")) pass_ended = 1;
		}
	printf("],\"st\":{");
	fibre_verif_snapshot_t s;
	fibre_verif_snapshot(&s);
	printf("\"runq\":[");
	for (unsigned i = 0; i < s.nrunq; i++) printf("%s%d", i ? "," : "", fid(s.runq[i]));
	printf("],\"timerq\":[");
	for (unsigned i = 0; i < s.ntimerq; i++) printf("%s%d", i ? "," : "", fid(s.timerq[i]));
	printf("],");
	jq("aq", fibre_verif_atomic_runq()); printf(",");
	jq("eq", &hq.eventq);
	printf("},");
	vrt_print_hb(stdout);
	printf("}\n");
	return r;
}
/* Full: the atomic run queue fills up (and overflows) between two passes of a main loop that has nothing else to do -
 * a lone yielding fibre, usually no sleeper - and the requests are for fibres that are not otherwise runnable.  The
 * interrupt-context calls run to completion one at a time; j of them before the main loop goes on, the rest after it. */
static void full(long seed, int nexec)
{
	drv_srand(seed);
	seqmark = 1;
	for (int x = 0; x < nexec; x++) {
		eqdepth = 12; period = 1 + drv_below(3); sleeper = drv_below(5) == 0;
		srun = sleeper && drv_below(2);
		/* now and then: large events in a deep queue (the buffer is longer than 64 KiB) */
		evsize = sizeof(event_t);
		if (drv_below(4) == 0) { evsize = 4096; eqdepth = 32; }
		eqroll = drv_below(2) ? 0 : (int)drv_below(700);
		aqroll = drv_below(2) ? 0 : (int)drv_below(700);
		npass = 4 + drv_below(8);
		long t = 0;
		for (int k = 0; k < npass; k++) { t += drv_below(4) == 0; times[k] = t; }
		nisr = 8 + drv_below(4);
		for (int i = 1; i <= nisr; i++) {
			iprog[i].kind = drv_below(4) == 0;
			iprog[i].arg = iprog[i].kind ? 10 + i : 1 + (int)drv_below(3);
		}
		int lead = 1 + drv_below(2), j = drv_below(4) ? 8 + drv_below(nisr - 7) : 5 + drv_below(3);
		if (j > nisr) j = nisr;
		reset();
		for (int k = 0; k < lead && !vrt_finished(0); k++) {
			pass_ended = 0;
			for (int guard = 0; guard < 400 && !pass_ended && !vrt_finished(0); guard++) step(0);
		}
		for (int i = 1; i <= j; i++)
			for (int guard = 0; guard < 100 && !vrt_finished(i); guard++) if (step(i) <= 0) break;
		for (int guard = 0; guard < 3000 && !vrt_finished(0); guard++) step(0);
		for (int i = j + 1; i <= nisr; i++)
			for (int guard = 0; guard < 100 && !vrt_finished(i); guard++) if (step(i) <= 0) break;
	}
	seqmark = 0; srun = 0;
	evsize = sizeof(event_t);
}
static void gen(long seed, int nexec, int irq)
{
	drv_srand(seed);
	for (int x = 0; x < nexec; x++) {
		eqdepth = drv_below(5) ? 1 + drv_below(3) : 12; period = 1 + drv_below(3); sleeper = drv_below(4) != 0;
		eqroll = drv_below(3) ? 0 : (int)drv_below(700);
		aqroll = drv_below(3) ? 0 : (int)drv_below(700);
		npass = 3 + drv_below(8);
		srun = sleeper && drv_below(3) == 0;
		long t = 0;
		for (int k = 0; k < npass; k++) { t += drv_below(3); times[k] = t; }
		nisr = 1 + drv_below(irq ? 6 : 5);
		if (drv_below(6) == 0) nisr = 11;            /* enough requests to fill the 8-deep atomic run queue */
		for (int i = 1; i <= nisr; i++) { iprog[i].kind = drv_below(2); iprog[i].arg = iprog[i].kind ? 10 + i : 1 + (int)drv_below(3); }
		reset();
		int stack[VRT_MAXCTX], sdep = 0, started[VRT_MAXCTX] = { 0 };
		for (int guard = 0; guard < 3000; guard++) {
			int cand[3 * VRT_MAXCTX], nc = 0;
			for (int c = 0; c <= nisr; c++) {
				if (vrt_finished(c)) continue;
				if (!irq) { cand[nc++] = c; if (c == 0) { cand[nc++] = 0; cand[nc++] = 0; } }
				else if (c == 0) { if (!sdep) { cand[nc++] = 0; cand[nc++] = 0; cand[nc++] = 0; cand[nc++] = 0; } }
				else if (sdep && stack[sdep - 1] == c) { cand[nc++] = c; cand[nc++] = c; cand[nc++] = c; }
				else if (!started[c] && sdep < 2) cand[nc++] = c;
			}
			if (!nc) break;
			int c = cand[drv_below(nc)];
			if (irq && c && !started[c]) { started[c] = 1; stack[sdep++] = c; }
			if (step(c) == 0 && irq && c) sdep--;
		}
	}
}
int main(void)
{
	drv_cmd_t c;
	drv_install_handlers();
	while (drv_read(&c, stdin)) {
		if (drv_is(&c, "Reset")) {
			int a = 0;
			eqdepth = drv_arg(&c, a++); period = drv_arg(&c, a++); sleeper = drv_arg(&c, a++);
			npass = drv_arg(&c, a++);
			for (int k = 0; k < npass; k++) times[k] = drv_arg(&c, a++);
			nisr = drv_arg(&c, a++);
			for (int i = 1; i <= nisr; i++) { iprog[i].kind = drv_arg(&c, a++); iprog[i].arg = drv_arg(&c, a++); }
			eqroll = c.ntok > a + 1 ? drv_arg(&c, a++) : 0;
			aqroll = c.ntok > a + 1 ? drv_arg(&c, a++) : 0;
			srun = c.ntok > a + 1 ? drv_arg(&c, a++) : 0;
			reset();
		} else if (drv_is(&c, "S")) step(drv_arg(&c, 0));
		else if (drv_is(&c, "Full")) full(drv_arg(&c, 0), drv_arg(&c, 1));
		else if (drv_is(&c, "Gen")) gen(drv_arg(&c, 0), drv_arg(&c, 1), drv_arg(&c, 2));
		else { fprintf(stderr, "irq_drv: unknown command %s\n", c.tok[0]); return 3; }
	}
	fflush(stdout);
	return 0;
}
