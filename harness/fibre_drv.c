/* fibre_drv.c - sequential conformance driver for librfn/fibre.c (C01, C02, C03).
 *
 *   Reset nf base scale      new history; model time m is real time base + m*scale (mod 2^32)
 *   PassBegin t ; (BRun f | BRunAtomic f | BKill f | BTimeout d)* ; PassEnd yielded|waiting|exited|failed|none
 *                            one fibre_scheduler_next(t); the B* lines are what the dispatched fibre does
 *   Run f | RunAtomic f | Kill f       calls from outside
 *   Gen seed nexec nops nf base scale  seeded random histories
 *
 * Every fibre is a real protothread with three sections (0 = entered on a fresh start, then 1,2,1,2..);
 * the section entered is logged so that "restarts from its beginning" is observable.
 */
#include "drv.h"
#include <librfn/fibre.h>
#include <librfn/util.h>

uint32_t time_now(void) { return 0; }

#define MAXF 14
typedef struct { fibre_t f; int id; } vf_t;
static vf_t fib[MAXF + 1];
static int nf;
static uint32_t base, scale;

/* ---- body script ---- */
enum { B_RUN, B_RUNATOMIC, B_KILL, B_TIMEOUT };
static struct { int op; long arg; } script[64];
static int nscript, result_code;
static int ran, ran_sec;
static int genmode, gen_to_used;
static char out[1 << 16];
static size_t outlen;
#define OUT(...) (outlen += snprintf(out + outlen, sizeof(out) - outlen, __VA_ARGS__))

static uint32_t real(long m) { return base + (uint32_t)m * scale; }
static long model(uint32_t t)
{
	uint32_t rel = t - base;
	return (rel % scale) ? -1 : (long)(rel / scale);
}
static int fid(fibre_t *f)
{
	if (!f) return 0;
	for (int i = 1; i <= nf; i++)
		if (f == &fib[i].f) return i;
	return 99;
}
static void snap(void)
{
	fibre_verif_snapshot_t s;
	fibre_verif_snapshot(&s);
	OUT("\"st\":{\"runq\":[");
	for (unsigned i = 0; i < s.nrunq; i++) OUT("%s%d", i ? "," : "", fid(s.runq[i]));
	OUT("],\"timerq\":[");
	for (unsigned i = 0; i < s.ntimerq; i++) OUT("%s[%d,%ld]", i ? "," : "", fid(s.timerq[i]), model(s.timerq[i]->duetime));
	OUT("],\"atomq\":[");
	for (unsigned i = 0; i < s.natomic; i++) OUT("%s%d", i ? "," : "", fid(s.atomicq[i]));
	OUT("]}");
}
static void do_call(int op, long arg, const char *pfx)
{
	static const char *names[] = { "Run", "RunAtomic", "Kill", "Timeout" };
	long r = 0;
	switch (op) {
	case B_RUN: fibre_run(&fib[arg].f); break;
	case B_RUNATOMIC: r = fibre_run_atomic(&fib[arg].f); break;
	case B_KILL: r = fibre_kill(&fib[arg].f); break;
	case B_TIMEOUT: r = fibre_timeout(real(arg)); if (!r) gen_to_used = 1; break;
	}
	OUT("{\"e\":\"%s%s\",\"a\":[%ld],\"r\":%ld,\"self\":%d,", pfx, names[op], arg, r, fid(fibre_self()));
	snap();
	OUT("}\n");
}
static long gen_now;
static int gen_result(void)
{
	static const int rc[] = { PT_YIELDED, PT_YIELDED, PT_WAITING, PT_WAITING, PT_WAITING, PT_EXITED, PT_FAILED };
	return rc[drv_below(7)];
}
static int section(vf_t *v, int sec)
{
	ran = v->id;
	ran_sec = sec;
	/* the PassBegin event is completed here: state as seen on entry to the fibre */
	OUT("\"r\":%d,\"ran\":%d,\"self\":%d,", sec, v->id, fid(fibre_self()));
	snap();
	OUT("}\n");
	if (genmode) {
		int n = drv_below(4);
		gen_to_used = 0;
		if (drv_below(40) == 0) {        /* the running fibre posts 8 (or 9) requests itself, then blocks: the final wake-up check must see them */
			int burst = 8 + drv_below(2);
			for (int i = 0; i < burst; i++) do_call(B_RUNATOMIC, 1 + drv_below(nf), "B");
			static const int rc2[] = { PT_WAITING, PT_WAITING, PT_EXITED };
			return result_code = rc2[drv_below(3)];
		}
		for (int i = 0; i < n; i++) {
			int op = drv_below(4);
			if (op == B_TIMEOUT) {
				/* at most one unsatisfied timeout per dispatch (the scope); satisfied ones (due now or earlier) may follow it */
				long d = gen_to_used ? gen_now - (long)drv_below(3) : gen_now + (long)drv_below(6) - 1;
				do_call(op, d < 0 ? 0 : d, "B");
			} else
				do_call(op, 1 + drv_below(nf), "B");
		}
		return result_code = gen_result();
	}
	for (int i = 0; i < nscript; i++)
		do_call(script[i].op, script[i].arg, "B");
	return result_code;
}
static int body(fibre_t *f)
{
	vf_t *v = containerof(f, vf_t, f);
	int r;
	PT_BEGIN_FIBRE(f);
	r = section(v, 0);
	if (r == PT_EXITED) PT_EXIT();
	if (r == PT_FAILED) PT_FAIL();
	if (r == PT_YIELDED)
		PT_YIELD();
	else
		PT_WAIT();
	for (;;) {
		r = section(v, 1);
		if (r == PT_EXITED) PT_EXIT();
		if (r == PT_FAILED) PT_FAIL();
		if (r == PT_YIELDED)
			PT_YIELD();
		else
			PT_WAIT();
		r = section(v, 2);
		if (r == PT_EXITED) PT_EXIT();
		if (r == PT_FAILED) PT_FAIL();
		if (r == PT_YIELDED)
			PT_YIELD();
		else
			PT_WAIT();
	}
	PT_END();
}
static int pristine = 1;     /* nothing has touched the scheduler since the program started: its state is what the C initialisers say */
static void reset(int n, uint32_t b, uint32_t s)
{
	nf = n; base = b; scale = s ? s : 1;
	if (!pristine)               /* the first execution of every driver run uses the statically initialised kernel as it is */
		fibre_verif_reset();
	pristine = 0;
	for (int i = 1; i <= nf; i++) {
		fibre_init(&fib[i].f, body);
		fib[i].id = i;
	}
	printf("{\"e\":\"Reset\",\"nf\":%d}\n", nf);
}
static const char *rname(int r)
{
	switch (r) { case PT_YIELDED: return "yielded"; case PT_WAITING: return "waiting"; case PT_EXITED: return "exited"; case PT_FAILED: return "failed"; }
	return "none";
}
static void do_pass(long t, const char *res)
{
	outlen = 0;
	ran = 0;
	result_code = !strcmp(res, "yielded") ? PT_YIELDED : !strcmp(res, "exited") ? PT_EXITED :
		      !strcmp(res, "failed") ? PT_FAILED : PT_WAITING;
	OUT("{\"e\":\"PassBegin\",\"a\":[%ld],", t);
	gen_now = t;
	uint32_t ret = fibre_scheduler_next(real(t));
	if (!ran) {
		OUT("\"r\":0,\"ran\":0,\"self\":%d,", fid(fibre_self()));
		snap();
		OUT("}\n");
	}
	/* "unbounded" is t + FIBRE_UNBOUNDED_SLEEP, and that must be cyclically after t for a main loop to sleep on it */
	int ub_sane = (uint32_t)FIBRE_UNBOUNDED_SLEEP > 0 && (uint32_t)FIBRE_UNBOUNDED_SLEEP <= 0x7fffffffu;
	/* (a due time exactly FIBRE_UNBOUNDED_SLEEP ahead is the same number as "unbounded": tell them apart by the timer queue) */
	fibre_verif_snapshot_t after;
	fibre_verif_snapshot(&after);
	long mret = ((uint32_t)(ret - real(t)) == FIBRE_UNBOUNDED_SLEEP && after.ntimerq == 0) ? (ub_sane ? -2 : -3) : model(ret);
	OUT("{\"e\":\"PassEnd\",\"a\":[\"%s\"],\"ret\":%ld,\"self\":%d,", ran ? (genmode ? rname(result_code) : res) : "none", mret, fid(fibre_self()));
	snap();
	OUT("}\n");
	fwrite(out, 1, outlen, stdout);
}
static void outside(int op, long arg)
{
	outlen = 0;
	do_call(op, arg, "");
	fwrite(out, 1, outlen, stdout);
}
/* ---- Crowd: far more fibres than any bounded history holds, all on one queue at the same time.  The oracle for this size
 * is a set of tallies (the specification says what they must be); the scheduler is reset afterwards. ---- */
typedef struct { fibre_t f; uint32_t due; int entries, woke; } cf_t;
static cf_t *crowd;
static long crowd_seq, crowd_lastwoke, crowd_inorder;
static int crowd_body(fibre_t *f)
{
	cf_t *c = containerof(f, cf_t, f);
	c->entries++;
	if (fibre_timeout(c->due)) {
		c->woke++;
		if (c - crowd < crowd_lastwoke) crowd_inorder = 0;
		crowd_lastwoke = c - crowd;
		return PT_EXITED;
	}
	return PT_WAITING;
}
static void do_crowd(long n, uint32_t t0)
{
	fibre_verif_reset();
	crowd = calloc(n, sizeof(cf_t));
	crowd_lastwoke = -1; crowd_inorder = 1;
	for (long i = 0; i < n; i++) { fibre_init(&crowd[i].f, crowd_body); crowd[i].due = t0 + 1000 + (uint32_t)i; }
	/* A: everybody is made runnable; some of them twice more (last, first, one in the middle by the interrupt-safe call) */
	for (long i = 0; i < n; i++) fibre_run(&crowd[i].f);
	fibre_run(&crowd[n - 1].f); fibre_run(&crowd[0].f); fibre_run_atomic(&crowd[n / 2].f); fibre_run(&crowd[n - 2].f);
	long a_total = 0, a_max = 0, a_extra = 0;
	for (long i = 0; i < n; i++) fibre_scheduler_next(t0);
	for (long i = 0; i < n; i++) { a_total += crowd[i].entries; if (crowd[i].entries > a_max) a_max = crowd[i].entries; }
	for (int k = 0; k < 3; k++) { fibre_scheduler_next(t0 + 1); }
	for (long i = 0; i < n; i++) a_extra += crowd[i].entries;
	a_extra -= a_total;
	/* B: everybody sleeps.  The last sleeper is killed (twice); one far down the timer queue is run by hand and sleeps again */
	int kill1 = fibre_kill(&crowd[n - 1].f), kill2 = fibre_kill(&crowd[n - 1].f);
	fibre_run(&crowd[n - 3].f);
	fibre_scheduler_next(t0 + 2); fibre_scheduler_next(t0 + 2);
	int b_entries = crowd[n - 3].entries;
	/* C: time passes; everybody is due.  While they queue up to run, the one at the end of the run queue is run again */
	uint32_t late = t0 + 1000 + (uint32_t)n + 5;
	fibre_scheduler_next(late);
	fibre_run(&crowd[n - 2].f);
	for (long i = 0; i < n + 3; i++) fibre_scheduler_next(late + 1);
	long c_woke = 0, c_max = 0;
	for (long i = 0; i < n; i++) { c_woke += crowd[i].woke; if (crowd[i].woke > c_max) c_max = crowd[i].woke; }
	fibre_verif_snapshot_t sn;
	fibre_verif_snapshot(&sn);
	printf("{\"e\":\"Crowd\",\"n\":%ld,\"a_total\":%ld,\"a_max\":%ld,\"a_extra\":%ld,\"kill\":[%d,%d],\"b_entries\":%d,\"c_woke\":%ld,\"c_max\":%ld,"
	       "\"c_inorder\":%ld,\"killed\":[%d,%d],\"left\":[%u,%u,%u]}\n", n, a_total, a_max, a_extra, kill1, kill2, b_entries, c_woke, c_max,
	       crowd_inorder, crowd[n - 1].entries, crowd[n - 1].woke, sn.nrunq, sn.ntimerq, sn.natomic);
	fibre_verif_reset();
	free(crowd); crowd = NULL;
	for (int i = 1; i <= nf; i++) fibre_init(&fib[i].f, body);
	(void)crowd_seq;
}
static void gen(long seed, int nexec, int nops, int n, uint32_t b, uint32_t s, long tmax)
{
	drv_srand(seed);
	genmode = 1;
	for (int x = 0; x < nexec; x++) {
		reset(n, b, s);
		long t = 0;
		int ops = nops / 2 + drv_below(nops);
		for (int k = 0; k < ops; k++) {
			if (drv_below(25) == 0) {       /* a burst that fills (or overfills) the 8-deep atomic run queue, then one draining call */
				int burst = 7 + drv_below(3);
				for (int i = 0; i < burst; i++) outside(B_RUNATOMIC, 1 + drv_below(nf));
				switch (drv_below(3)) {
				case 0: outside(B_RUN, 1 + drv_below(nf)); break;
				case 1: outside(B_KILL, 1 + drv_below(nf)); break;
				default: do_pass(t, "none"); break;
				}
				continue;
			}
			switch (drv_below(8)) {
			case 0: outside(B_RUN, 1 + drv_below(nf)); break;
			case 1: outside(B_RUNATOMIC, 1 + drv_below(nf)); break;
			case 2: outside(B_KILL, 1 + drv_below(nf)); break;
			default:
				t += drv_below(3) == 0 ? drv_below(4) : 0;
				if (drv_below(12) == 0 && t >= 3) t -= 1 + drv_below(3);      /* a clock that steps back a little */
				if (t > tmax) t = tmax;     /* keep (horizon x scale) inside the property's 2^31 scope */
				do_pass(t, "none");
				break;
			}
		}
	}
	genmode = 0;
}

int main(void)
{
	drv_cmd_t c;
	long pass_t = -1;
	drv_install_handlers();
	nf = 2; base = 0; scale = 1;
	while (drv_read(&c, stdin)) {
		if (drv_is(&c, "Reset")) reset(drv_arg(&c, 0), (uint32_t)drv_arg(&c, 1), (uint32_t)drv_arg(&c, 2));
		else if (drv_is(&c, "PassBegin")) { pass_t = drv_arg(&c, 0); nscript = 0; }
		else if (drv_is(&c, "BRun")) { script[nscript].op = B_RUN; script[nscript++].arg = drv_arg(&c, 0); }
		else if (drv_is(&c, "BRunAtomic")) { script[nscript].op = B_RUNATOMIC; script[nscript++].arg = drv_arg(&c, 0); }
		else if (drv_is(&c, "BKill")) { script[nscript].op = B_KILL; script[nscript++].arg = drv_arg(&c, 0); }
		else if (drv_is(&c, "BTimeout")) { script[nscript].op = B_TIMEOUT; script[nscript++].arg = drv_arg(&c, 0); }
		else if (drv_is(&c, "PassEnd")) { if (pass_t >= 0) do_pass(pass_t, c.tok[1]); pass_t = -1; }
		else if (drv_is(&c, "Crowd")) do_crowd(drv_arg(&c, 0), (uint32_t)drv_arg(&c, 1));
		else if (drv_is(&c, "Run")) outside(B_RUN, drv_arg(&c, 0));
		else if (drv_is(&c, "RunAtomic")) outside(B_RUNATOMIC, drv_arg(&c, 0));
		else if (drv_is(&c, "Kill")) outside(B_KILL, drv_arg(&c, 0));
		else if (drv_is(&c, "Gen")) gen(drv_arg(&c, 0), drv_arg(&c, 1), drv_arg(&c, 2), drv_arg(&c, 3), (uint32_t)drv_arg(&c, 4), (uint32_t)drv_arg(&c, 5), drv_arg(&c, 6));
		else { fprintf(stderr, "fibre_drv: unknown command %s\n", c.tok[0]); return 3; }
	}
	fflush(stdout);
	return 0;
}
