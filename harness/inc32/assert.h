/* assert.h for the freestanding ILP32 builds (no 32-bit C library headers are installed): a failed assertion ends the program */
#ifndef VERIF_INC32_ASSERT_H
#define VERIF_INC32_ASSERT_H
void verif_assert_fail(void);
#ifdef NDEBUG
#define assert(x) ((void)0)
#else
#define assert(x) ((x) ? (void)0 : verif_assert_fail())
#endif
#endif
