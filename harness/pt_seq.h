/* pt_seq.h - sequential stand-ins for the protothread macros (PT_SEQ build of the generated programs):
 * the same C bodies run as one uncut program in which a blocking point is an environment step.
 * Used to cross-check tools/ptgen.py's two translations (AST -> C, AST -> control-flow graph). */
#ifndef VERIF_PT_SEQ_H
#define VERIF_PT_SEQ_H
#include <stdint.h>
typedef uint16_t pt_t;
typedef enum { PT_YIELDED, PT_WAITING, PT_EXITED, PT_FAILED } pt_state_t;
extern int vp_tick, vp_incall, vp_fuel;
#define VP_ENV() do { if (!vp_incall) vp_tick++; if (--vp_fuel < 0) return PT_FAILED + 1; } while (0)
#define PT_INIT(pt) do { (void)(pt); } while (0)
#define PT_BEGIN(pt) { pt_state_t pt_spawn_res = 0; (void)pt_spawn_res; (void)(pt);
#define PT_END() } return PT_EXITED
#define PT_YIELD() do { VP_ENV(); pt_spawn_res = 0; } while (0)
#define PT_WAIT() do { VP_ENV(); pt_spawn_res = 0; } while (0)
#define PT_WAIT_UNTIL(c) do { if (!(c)) { while (!(c)) VP_ENV(); pt_spawn_res = 0; } } while (0)
#define PT_EXIT() return PT_EXITED
#define PT_EXIT_ON(x) do { if (x) PT_EXIT(); } while (0)
#define PT_FAIL() return PT_FAILED
#define PT_FAIL_ON(x) do { if (x) PT_FAIL(); } while (0)
#define PT_SPAWN(child, thread) do { pt_spawn_res = (thread); } while (0)
#define PT_CHILD_OK() (pt_spawn_res != PT_FAILED)
#define PT_SPAWN_AND_CHECK(child, thread) do { PT_SPAWN(child, thread); PT_FAIL_ON(!PT_CHILD_OK()); } while (0)
#define PT_CALL(child, thread) do { vp_incall++; (void)(thread); vp_incall--; } while (0)
#endif
