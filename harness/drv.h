/* drv.h - shared helpers for the conformance drivers.
 *
 * A driver reads a script on stdin (one action per line: name followed by
 * integer or word arguments; "Reset ..." starts a new execution) and writes
 * one ndjson event per executed action on stdout: action, arguments, results
 * and the projection of the real state the specification is compared with.
 */
#ifndef VERIF_DRV_H
#define VERIF_DRV_H
#include <stdio.h>
#include <stdlib.h>
#include <string.h>
#include <stdint.h>
#include <signal.h>
#include <unistd.h>

#define DRV_MAXTOK 64
typedef struct {
	char line[1 << 16];
	char *tok[DRV_MAXTOK];
	int ntok;
} drv_cmd_t;

static inline int drv_read(drv_cmd_t *c, FILE *f)
{
	for (;;) {
		if (!fgets(c->line, sizeof(c->line), f))
			return 0;
		c->ntok = 0;
		char *save = NULL;
		for (char *t = strtok_r(c->line, " \t\r\n", &save);
		     t && c->ntok < DRV_MAXTOK; t = strtok_r(NULL, " \t\r\n", &save))
			c->tok[c->ntok++] = t;
		if (c->ntok > 0)
			return 1;
	}
}
static inline long drv_arg(drv_cmd_t *c, int i)
{
	if (i + 1 >= c->ntok) {
		fprintf(stderr, "driver: missing argument %d of %s\n", i, c->tok[0]);
		exit(3);
	}
	return strtol(c->tok[i + 1], NULL, 0);
}
static inline int drv_is(drv_cmd_t *c, const char *name)
{
	return 0 == strcmp(c->tok[0], name);
}

/* xorshift rng for driver-side random workloads */
static uint64_t drv_rng_state = 88172645463325252ull;
static inline void drv_srand(uint64_t s) { drv_rng_state = s * 2654435761u + 88172645463325252ull; if (!drv_rng_state) drv_rng_state = 1; }
static inline uint32_t drv_rand(void)
{
	uint64_t x = drv_rng_state;
	x ^= x << 13; x ^= x >> 7; x ^= x << 17;
	drv_rng_state = x;
	return (uint32_t)(x >> 16);
}
static inline uint32_t drv_below(uint32_t n) { return n ? drv_rand() % n : 0; }

/* An assert() in librfn or a sanitizer abort must not truncate the trace
 * silently: log it as an event the specification never allows. */
static void drv_fatal_handler(int sig)
{
	static const char msg[] = "{\"e\":\"FATAL\",\"sig\":1}\n";
	fflush(stdout);
	(void)!write(1, msg, sizeof(msg) - 1);
	(void)sig;
	_exit(0);
}
static inline void drv_install_handlers(void)
{
	signal(SIGABRT, drv_fatal_handler);
	signal(SIGSEGV, drv_fatal_handler);
	signal(SIGFPE, drv_fatal_handler);
	signal(SIGBUS, drv_fatal_handler);
	signal(SIGILL, drv_fatal_handler);
	static char obuf[1 << 20];
	setvbuf(stdout, obuf, _IOFBF, sizeof(obuf));
}

/* 32-bit word as two 16-bit halves (TLC integers are 32-bit signed) */
#define HI16(x) ((unsigned)(((uint32_t)(x)) >> 16))
#define LO16(x) ((unsigned)(((uint32_t)(x)) & 0xffffu))
#endif
