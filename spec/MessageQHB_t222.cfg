INIT InitHB
NEXT NextHB
CONSTANTS
  Depth = 2
  NSenders = 2
  MsgsPer = 2
  RecvTries = 4
  Discipline = "threads"
  MaxNest = 3
  CounterMod = 256
  CounterSigned = TRUE
  NCtx = 3
  Relaxed <- None
VIEW ViewHB
INVARIANTS Safety NoRace
CHECK_DEADLOCK FALSE
