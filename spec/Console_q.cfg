INIT Init
NEXT Next
CONSTANTS
  BufCap = 80
  TableCap = 32
  Alphabet <- AlphaMC
  NamePool <- NamesMC
  MaxChars = 4
VIEW MCView
CONSTRAINT Bound
INVARIANT Safety
CHECK_DEADLOCK FALSE
