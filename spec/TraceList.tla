----------------------------- MODULE TraceList -----------------------------
(* Trace validation for List: every event recorded from the real list.c     *)
(* must be the List action it names, and the projection of the real state   *)
(* logged with it must equal the projection of the specification state.     *)
EXTENDS List, Json, IOUtils, TLC

T == ndJsonDeserialize(IOEnv.TRACE)

VARIABLE ti
tvars == <<vars, ti>>

Pre(f, k) == [i \in 1..k |-> f[i]]

(* the property-relevant projection (tail only while head is non-NULL),     *)
(* compared with the NEXT state; written with explicit primes because the   *)
(* event itself (T[ti]) must not be primed.                                 *)
ProjOK(st) ==
  /\ st.r = ret'
  /\ st.seq = Pre(seq', Len(st.seq))
  /\ st.tl = [l \in 1..Len(st.tl) |-> IF head'[l] # Nil THEN tail'[l] ELSE 0]
  /\ st.nx = Pre(next', Len(st.nx))
  /\ st.itl = itl'
  /\ st.it = IF itl' = 0 THEN 0 ELSE (IF itp' = Nil THEN head'[itl'] ELSE next'[itp'])

ResetA ==
  /\ seq' = [l \in Lists |-> <<>>]
  /\ head' = [l \in Lists |-> Nil]
  /\ tail' = [l \in Lists |-> Nil]
  /\ next' = [n \in Nodes |-> Nil]
  /\ itl' = 0 /\ itp' = Nil /\ ret' = 0 /\ ops' = 0

Do(ev) ==
  CASE ev.e = "Insert" -> Insert(ev.a[1], ev.a[2])
    [] ev.e = "Push" -> Push(ev.a[1], ev.a[2])
    [] ev.e = "InsertSorted" -> InsertSorted(ev.a[1], ev.a[2])
    [] ev.e = "Extract" -> Extract(ev.a[1])
    [] ev.e = "Remove" -> Remove(ev.a[1], ev.a[2])
    [] ev.e = "Contains" -> Contains(ev.a[1], ev.a[2])
    [] ev.e = "ContainsIter" -> ContainsIter(ev.a[1], ev.a[2])
    [] ev.e = "Iterate" -> Iterate(ev.a[1])
    [] ev.e = "IterNext" -> IterNext
    [] ev.e = "IterInsert" -> IterInsert(ev.a[1])
    [] ev.e = "IterRemove" -> IterRemove
    [] ev.e = "Relocate" -> Relocate(ev.a[1])
    [] OTHER -> FALSE

TraceInit == Init /\ ti = 1

TraceNext ==
  /\ ti <= Len(T)
  /\ ti' = ti + 1
  /\ LET ev == T[ti] IN
     IF ev.e = "Reset" THEN ResetA
     ELSE IF ev.e = "Big" THEN        \* very long lists: members found, the absent node not; removals; "append if absent" lands at the end
          /\ ev.found = <<1, 1, 1, 0, 0, 0>> /\ ev.removed = <<1, 0, 1>> /\ ev.len = ev.n /\ ev.ok = 1 /\ UNCHANGED vars
     ELSE Do(ev) /\ ProjOK(ev.st)

TraceSpec == TraceInit /\ [][TraceNext]_tvars

TraceAccepted ==
  LET d == TLCGet("stats").diameter IN
  IF d - 1 = Len(T) THEN TRUE ELSE Print(<<"TRACE_REJECTED_AT", d>>, FALSE)
=============================================================================
