INIT Init
NEXT Next
CONSTANTS
  BufCap = 80
  TableCap = 32
  Alphabet <- AlphaMC
  NamePool <- NamesMC
  MaxChars = 40
CONSTRAINT Bound
INVARIANT Safety
CHECK_DEADLOCK FALSE
