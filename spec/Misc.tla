-------------------------------- MODULE Misc --------------------------------
(* Growth beyond the listed properties: three small librfn modules.          *)
(*  - regdump.c : the fregdump_single iteration protocol over a descriptor   *)
(*                table (state 0 = register name line, state i = field i,    *)
(*                value (reg & mask) >> ctz(mask); back to 0 after the last) *)
(*  - enum.c    : rf_enum2string / rf_string2enum over a NULL-terminated     *)
(*                table (first match wins, NULL / RF_ENUM_OUT_OF_RANGE)      *)
(*  - stats.c   : min / max / mean with round-to-nearest, per-million        *)
EXTENDS Bits, FiniteSets

(* ---- regdump ---- *)
AndBits(a, b) == [i \in 1..Len(a) |-> a[i] * b[i]]
ShiftDown(a, k) == [i \in 1..Len(a) |-> IF i + k <= Len(a) THEN a[i + k] ELSE 0]
FieldValue(reg, mask) == ShiftDown(AndBits(reg, mask), Ctz(mask))     \* bit sequences, 32 wide
(* one call of fregdump_single: desc = <<[name, mask], ...>> (desc[1] names the register); state is 0-based *)
RegStep(desc, reg, state) ==
  [line |-> IF state = 0 THEN [name |-> desc[1].name, isreg |-> 1, val |-> [i \in 1..32 |-> 0]]
            ELSE [name |-> desc[state + 1].name, isreg |-> 0, val |-> FieldValue(reg, desc[state + 1].mask)],
   state |-> IF state + 1 >= Len(desc) THEN 0 ELSE state + 1]

(* ---- enum ---- *)
OutOfRange == -19830927
E2S(t, e) == IF \E i \in 1..Len(t) : t[i].e = e THEN t[CHOOSE i \in 1..Len(t) : t[i].e = e /\ \A j \in 1..(i-1) : t[j].e # e].s ELSE <<>>   \* <<>> = NULL
S2E(t, s) == IF \E i \in 1..Len(t) : t[i].s = s THEN t[CHOOSE i \in 1..Len(t) : t[i].s = s /\ \A j \in 1..(i-1) : t[j].s # s].e ELSE OutOfRange

(* ---- stats (32-bit unsigned, values small enough for TLC integers) ---- *)
RECURSIVE SumSeq(_)
SumSeq(s) == IF s = <<>> THEN 0 ELSE s[1] + SumSeq(Tail(s))
Min(s) == CHOOSE x \in {s[i] : i \in 1..Len(s)} : \A i \in 1..Len(s) : x <= s[i]
Max(s) == CHOOSE x \in {s[i] : i \in 1..Len(s)} : \A i \in 1..Len(s) : x >= s[i]
Mean(s) == (SumSeq(s) + Len(s) \div 2) \div Len(s)              \* round to nearest
PerMillion(s, total) == (1000000 * SumSeq(s)) \div total
=============================================================================
