------------------------------ MODULE Rand31_mc ------------------------------
EXTENDS Rand31
VARIABLE s
(* structured states: all s < 2^16, all k * 2^16 + j for boundary j, and the extremes *)
Boundary == {0, 1, 2, 32767, 32768, 65534, 65535}
Init == \/ s \in 1..65535
        \/ s \in {k * 65536 + j : k \in 0..32767, j \in Boundary} \ {0, M31}
        \/ s \in {M31 - 1, M31 - 2, 127773, 127772, 127774, 16807}
Next == UNCHANGED s
CartaIsParkMiller == Carta(s) = AsPair(ParkMiller(s))
InRange == ParkMiller(s) \in 1..(M31 - 1)
=============================================================================
