----------------------------- MODULE FibreRing -----------------------------
(* Wrap-safety of the scheduler's time arithmetic (C02), design level.      *)
(* Time lives in a ring Z/2^K.  fibre.c compares times in three places      *)
(* (fibre_timeout, handle_timerq: cyclecmp32(due, now) <= 0; duetime_cmp in *)
(* the sorted insert: (int)(d1 - d2)), always as the sign of the K-bit      *)
(* two's-complement difference.  The model keeps, side by side, natural     *)
(* times and their images (base + x) mod 2^K for EVERY base, lets time      *)
(* advance and due times be registered like the scheduler does, and checks  *)
(* that every comparison the code can make gives the same answer in the     *)
(* ring as on the naturals - provided pending due times are less than       *)
(* Horizon ticks after now (the property's scope: Horizon = 2^(K-1)).       *)
EXTENDS Naturals, Integers, FiniteSets

CONSTANTS K, Horizon, MaxNow
M == 2^K
Half == 2^(K-1)

VARIABLES base, now, dues      \* dues: set of pending natural due times
vars == <<base, now, dues>>

Img(x) == (base + x) % M
(* sign of the K-bit two's complement difference a - b, exactly as (int32_t)(a - b) *)
SDiff(a, b) == LET d == (a + M - b) % M IN IF d >= Half THEN d - M ELSE d

Init == base \in 0..(M-1) /\ now = 0 /\ dues = {}
Advance(t) == t > now /\ t <= MaxNow /\ now' = t /\ dues' = {d \in dues : d > t} /\ UNCHANGED base   \* expired entries leave the queue
Register(d) == d > now /\ d < now + Horizon /\ Cardinality(dues) < 3 /\ dues' = dues \cup {d} /\ UNCHANGED <<base, now>>   \* comparisons are pairwise: 3 pending entries suffice
Next == (\E t \in 0..MaxNow : Advance(t)) \/ (\E d \in 0..(MaxNow + Horizon) : Register(d))
Spec == Init /\ [][Next]_vars

(* every comparison the code can make agrees with the natural order *)
CmpAgree ==
  /\ \A d \in dues : (SDiff(Img(d), Img(now)) <= 0) <=> (d <= now)                      \* fibre_timeout / handle_timerq
  /\ \A d \in 0..(MaxNow + Horizon) : (d >= now /\ d < now + Horizon) =>
        ((SDiff(Img(d), Img(now)) <= 0) <=> (d <= now))                               \* argument of fibre_timeout
  /\ \A d1, d2 \in dues : (SDiff(Img(d1), Img(d2)) >= 0) <=> (d1 >= d2)                 \* duetime_cmp (sorted insert)
  /\ \A d1 \in dues : \A d2 \in 0..(MaxNow + Horizon) : (d2 > now /\ d2 < now + Horizon) =>
        ((SDiff(Img(d2), Img(d1)) >= 0) <=> (d2 >= d1))                               \* new entry against queued ones
=============================================================================
