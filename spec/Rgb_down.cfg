SPECIFICATION Spec
CONSTANTS
  Max = 24
  MaxSteps = 6
INVARIANT DownwardGradual
CHECK_DEADLOCK FALSE
