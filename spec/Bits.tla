-------------------------------- MODULE Bits --------------------------------
(* librfn/bitops.c and include/librfn/constexpr.h (property C16).           *)
(* Words are bit sequences, index 1 = least significant bit.  The           *)
(* definitions are the mathematical ones; the transcriptions follow the     *)
(* code's algorithms on W-bit integers (W = 16 fits TLC's integers; the     *)
(* algorithms are uniform in the word width: masks are the W-bit            *)
(* truncations of 0x77777777, 0x0F0F0F0F, 0x01010101).                      *)
EXTENDS Naturals, Integers, Sequences, Bitwise

(* ------------------------------- definitions ------------------------------- *)
RECURSIVE SumBits(_)
SumBits(b) == IF b = <<>> THEN 0 ELSE b[1] + SumBits(Tail(b))
PopCount(b) == SumBits(b)
(* trailing zeros: index of the lowest set bit, Len(b) if none *)
Ctz(b) == IF \E i \in 1..Len(b) : b[i] = 1 THEN (CHOOSE i \in 1..Len(b) : b[i] = 1 /\ \A j \in 1..(i-1) : b[j] = 0) - 1 ELSE Len(b)
Clz(b) == IF \E i \in 1..Len(b) : b[i] = 1 THEN Len(b) - (CHOOSE i \in 1..Len(b) : b[i] = 1 /\ \A j \in (i+1)..Len(b) : b[j] = 0) ELSE Len(b)
ILog2(b) == Len(b) - 1 - Clz(b)               \* position of the highest set bit (b non-zero)
Lssb(b) == IF \E i \in 1..Len(b) : b[i] = 1 THEN Ctz(b) ELSE -1

BitsOf(x, w) == [i \in 1..w |-> (x \div (2 ^ (i-1))) % 2]
BytesToBits(bs) == [i \in 1..(8 * Len(bs)) |-> (bs[((i - 1) \div 8) + 1] \div (2 ^ ((i - 1) % 8))) % 2]   \* little-endian bytes

(* ------------------- transcriptions for a 16-bit word (integers) ------------------- *)
W == 16
M == 65536
Not16(x) == M - 1 - x
BitcntSwar(x0) ==
  LET n1 == shiftR(x0, 1) & 30583          \* 0x7777
      x1 == x0 - n1
      n2 == shiftR(n1, 1) & 30583
      x2 == x1 - n2
      n3 == shiftR(n2, 1) & 30583
      x3 == x2 - n3
      x4 == (x3 + shiftR(x3, 4)) & 3855     \* 0x0F0F
      x5 == (x4 * 257) % M                  \* 0x0101
  IN shiftR(x5, W - 8)
ClzSmear(x0) ==
  LET x1 == x0 | shiftR(x0, 1)
      x2 == x1 | shiftR(x1, 2)
      x3 == x2 | shiftR(x2, 4)
      x4 == x3 | shiftR(x3, 8)
  IN BitcntSwar(Not16(x4))
CtzTrick(x) == BitcntSwar(Not16(x) & ((x + M - 1) % M))
(* const_pop / const_lssb: recursive halving *)
RECURSIVE ConstPop(_, _), ConstLssb(_, _)
ConstPop(c, w) == IF w = 1 THEN c % 2 ELSE ConstPop(c, w \div 2) + ConstPop(shiftR(c, w \div 2), w \div 2)
ConstLssb(c, w) == IF w = 1 THEN (IF c % 2 = 1 THEN 0 ELSE -W)
                   ELSE IF (c % (2 ^ (w \div 2))) # 0 THEN ConstLssb(c, w \div 2) ELSE ConstLssb(shiftR(c, w \div 2), w \div 2) + (w \div 2)
=============================================================================
