INIT InitHB
NEXT NextHB
CONSTANTS
  Depth = 2
  NSenders = 3
  MsgsPer = 2
  RecvTries = 4
  Discipline = "irq"
  MaxNest = 3
  CounterMod = 256
  CounterSigned = TRUE
  NCtx = 4
  Relaxed <- None
VIEW ViewHB
INVARIANTS Safety NoRace
CHECK_DEADLOCK FALSE
