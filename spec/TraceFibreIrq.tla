--------------------------- MODULE TraceFibreIrq ---------------------------
EXTENDS FibreIrq, Json, IOUtils, TLC
T == ndJsonDeserialize(IOEnv.TRACE)
NoProg == <<>>
OnePass == <<0>>
VARIABLE ti
ToSet(s) == {s[i] : i \in 1..Len(s)}
QOK(j, q) == j.nf = q.nf /\ j.sp = q.sp /\ j.rp = q.rp /\ ToSet(j.fl) = q.fl
ResetA(ev) ==
  LET g == [main |-> ev.main, isr |-> ev.isr, eqd |-> ev.eqdepth, period |-> ev.period, sleeper |-> (ev.sleeper = 1),
            eqstart |-> ev.eqstart, aqstart |-> ev.aqstart, srun |-> (ev.srun = 1)] IN
  /\ cfg' = g /\ m' = Start(g).m /\ aq' = Start(g).aq /\ eq' = Start(g).eq /\ isr' = Start(g).isr
  /\ taint' = {} /\ stack' = <<>> /\ acc' = {} /\ claimed' = <<>> /\ sentOk' = {} /\ seen' = <<>>
  /\ obs' = [c |-> -1, op |-> "", var |-> "", calls |-> <<>>]
TraceInit == Init /\ ti = 1
TraceNext ==
  /\ ti <= Len(T) /\ ti' = ti + 1
  /\ LET ev == T[ti] IN
     IF ev.e = "Reset" THEN ResetA(ev)
     ELSE /\ ev.e = "S" /\ ev.c \in 0..Len(cfg.isr)
          /\ Step(ev.c)
          /\ obs' = [c |-> ev.c, op |-> ev.op, var |-> ev.var, calls |-> ev.calls]
          /\ ev.st.runq = m'.runq /\ ev.st.timerq = m'.timerq      \* the scheduler's queues (snapshot hook)
          /\ QOK(ev.st.aq, aq') /\ QOK(ev.st.eq, eq')              \* both message queues' atomic state
TraceSpec == TraceInit /\ [][TraceNext]_<<vars, ti>>
TraceAccepted ==
  LET d == TLCGet("stats").diameter IN
  IF d - 1 = Len(T) THEN TRUE ELSE Print(<<"TRACE_REJECTED_AT", d>>, FALSE)
=============================================================================
