SPECIFICATION TraceSpec
CONSTANTS
  MainProg <- OnePass
  IsrProg <- NoProg
  AQDepth = 8
  EQDepth = 1
  SPeriod = 1
  Discipline = "threads"
  MaxNest = 2
  LoopForever = FALSE
  FastPathChecksAtomicQ = TRUE
  Sleeper = TRUE
  SRun = FALSE
CONSTRAINT Furthest
POSTCONDITION Report
CHECK_DEADLOCK FALSE
