INIT InitHB
NEXT NextHB
CONSTANTS
  Depth = 2
  NSenders = 3
  MsgsPer = 1
  RecvTries = 3
  Discipline = "threads"
  MaxNest = 3
  CounterMod = 256
  CounterSigned = TRUE
  NCtx = 4
  Relaxed <- None
VIEW ViewHB
INVARIANTS Safety NoRace
CHECK_DEADLOCK FALSE
