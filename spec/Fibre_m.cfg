INIT Init
NEXT Next
CONSTANTS
  NF = 3
  MaxT = 2
  AtomCap = 8
  MaxAtomMC = 2
  MaxBody = 1
  AtomicOrder = "arrival"
VIEW MCView
CONSTRAINT Bound
INVARIANT Safety
CHECK_DEADLOCK FALSE
