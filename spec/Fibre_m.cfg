INIT Init
NEXT Next
CONSTANTS
  NF = 3
  MaxT = 2
  AtomCap = 8
  MaxAtomMC = 2
  MaxBody = 1
  BackSteps = 0
  AtomicOrder = "arrival"
VIEW MCView
CONSTRAINT Bound
INVARIANT Safety
CHECK_DEADLOCK FALSE
PROPERTY NeverEarly
