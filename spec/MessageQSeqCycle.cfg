SPECIFICATION Spec2
CONSTANTS
  Depth = 3
  MsgLen = 4
  Slack = 0
VIEW View2
INVARIANTS Safety CycleIsCycles1 CycleNeverStuck CyclesCompose
CHECK_DEADLOCK FALSE
