----------------------------- MODULE WavHeader -----------------------------
(* librfn/wavheader.c (properties C13, C14) as pure operators.              *)
(*                                                                          *)
(* 32-bit quantities are little-endian byte tuples <<b0,b1,b2,b3>> - the    *)
(* wire format itself - with schoolbook arithmetic on bytes, so nothing     *)
(* meets TLC's 32-bit integer limit.  16-bit quantities are integers.       *)
(* A header is a record with the fields of rf_wavheader_t.                  *)
EXTENDS Naturals, Integers, Sequences, FiniteSets

(* ---------------------------- byte arithmetic ---------------------------- *)
Pad(a, n) == [i \in 1..n |-> IF i <= Len(a) THEN a[i] ELSE 0]             \* also truncates (mod 256^n)
FromNat(x, n) == [i \in 1..n |-> (x \div (256 ^ (i-1))) % 256]            \* x < 2^31
RECURSIVE ToNat(_)
ToNat(a) == IF a = <<>> THEN 0 ELSE a[1] + 256 * ToNat(Tail(a))             \* only for values known to be small
RECURSIVE AddC(_, _, _)
AddC(a, b, c) == IF a = <<>> THEN (IF c = 0 THEN <<>> ELSE <<c>>)           \* a, b same length; result one byte longer on carry
                 ELSE LET s == a[1] + b[1] + c IN <<s % 256>> \o AddC(Tail(a), Tail(b), s \div 256)
Add(a, b) == LET n == IF Len(a) > Len(b) THEN Len(a) ELSE Len(b) IN AddC(Pad(a, n), Pad(b, n), 0)
RECURSIVE MulByteC(_, _, _)
MulByteC(a, d, c) == IF a = <<>> THEN (IF c = 0 THEN <<>> ELSE <<c>>)
                     ELSE LET s == a[1] * d + c IN <<s % 256>> \o MulByteC(Tail(a), d, s \div 256)
RECURSIVE Mul(_, _)
Mul(a, b) == IF b = <<>> THEN <<>> ELSE Add(MulByteC(a, b[1], 0), <<0>> \o Mul(a, Tail(b)))
RECURSIVE LtAt(_, _, _)
LtAt(a, b, i) == IF i = 0 THEN FALSE ELSE IF a[i] # b[i] THEN a[i] < b[i] ELSE LtAt(a, b, i - 1)
Lt(a, b) == LET n == IF Len(a) > Len(b) THEN Len(a) ELSE Len(b) IN LtAt(Pad(a, n), Pad(b, n), n)
IsZero(a) == \A i \in 1..Len(a) : a[i] = 0
U32(a) == Pad(a, 4)                                                        \* reduce mod 2^32
U16(x) == <<x % 256, (x \div 256) % 256>>
FitsU32(a) == \A i \in 5..Len(a) : a[i] = 0
(* a - b for a >= b *)
RECURSIVE SubC(_, _, _)
SubC(a, b, c) == IF a = <<>> THEN <<>>
                 ELSE LET s == a[1] - b[1] - c IN <<(s + 256) % 256>> \o SubC(Tail(a), Tail(b), IF s < 0 THEN 1 ELSE 0)
Sub(a, b) == LET n == IF Len(a) > Len(b) THEN Len(a) ELSE Len(b) IN SubC(Pad(a, n), Pad(b, n), 0)

(* ------------------------------- constants ------------------------------- *)
RIFF == <<82, 73, 70, 70>>
WAVE == <<87, 65, 86, 69>>
FMT  == <<102, 109, 116, 32>>
FACT == <<102, 97, 99, 116>>
DATA == <<100, 97, 116, 97>>
Z4 == <<0, 0, 0, 0>>
Z16 == [i \in 1..16 |-> 0]
EINVAL == -22
MinSize == 44

ZeroHeader ==
  [chunk_id |-> Z4, chunk_size |-> Z4, format |-> Z4, fmt_chunk_id |-> Z4, fmt_chunk_size |-> Z4,
   audio_format |-> 0, num_channels |-> 0, sample_rate |-> Z4, byte_rate |-> Z4, block_align |-> 0,
   bits_per_sample |-> 0, cb_size |-> 0, valid_bits_per_sample |-> 0, channel_mask |-> Z4, sub_format |-> Z16,
   fact_chunk_id |-> Z4, fact_chunk_size |-> Z4, sample_length |-> Z4, data_chunk_id |-> Z4, data_chunk_size |-> Z4]

(* formats: 0 = S16LE, 1 = S32LE, 2 = FLOAT *)
BytesPerSample(f) == IF f = 0 THEN 2 ELSE 4
HasFact(h) == h.fact_chunk_id = FACT
HasExt(h) == ~Lt(h.fmt_chunk_size, FromNat(18, 4))            \* fmt_chunk_size >= 18: cb_size present

(* number of bytes rf_wavheader_encode emits for h (a byte tuple; huge when fmt_chunk_size is hostile) *)
EncodedLen(h) ==
  LET ext == IF ~HasExt(h) THEN <<0>>
             ELSE IF h.cb_size = 22 THEN FromNat(2 + 22, 4)
             ELSE Add(<<2>>, Sub(h.fmt_chunk_size, FromNat(18, 4)))
  IN Add(Add(FromNat(36 + 8, 4), ext), IF HasFact(h) THEN <<12>> ELSE <<0>>)

(* ------------------ rf_wavheader_init + rf_wavheader_set_num_frames ------------------ *)
(* the PROPERTY's header: everything that is not set is zero, whatever the structure held before, and the RIFF     *)
(* size is what follows the first 8 bytes of a file carrying exactly the declared data                            *)
InitHeader(rate, ch, f) ==
  LET bps == BytesPerSample(f)
      h0 == [ZeroHeader EXCEPT
               !.chunk_id = RIFF, !.format = WAVE, !.fmt_chunk_id = FMT,
               !.fmt_chunk_size = FromNat(IF f = 2 THEN 18 ELSE 16, 4),
               !.audio_format = IF f = 2 THEN 3 ELSE 1,
               !.num_channels = ch % 65536,
               !.sample_rate = rate,
               !.byte_rate = U32(Mul(rate, U16(bps * ch))),
               !.block_align = (bps * ch) % 65536,
               !.bits_per_sample = bps * 8,
               !.fact_chunk_id = IF f = 2 THEN FACT ELSE Z4,
               !.fact_chunk_size = IF f = 2 THEN FromNat(12, 4) ELSE Z4,     \* (the code counts the 8-byte chunk header in)
               !.data_chunk_id = DATA]
  IN [h0 EXCEPT !.chunk_size = U32(Sub(EncodedLen(h0), <<8>>))]

SetFrames(h, frames) ==
  LET dsz == U32(Mul(frames, U16(h.block_align)))
      hdr == U32(Sub(h.chunk_size, h.data_chunk_size))        \* header part of the RIFF size
  IN [h EXCEPT !.data_chunk_size = dsz,
               \* only a header that has a fact chunk carries a sample length (otherwise decode(encode(h)) could not equal h)
               !.sample_length = IF HasFact(h) THEN U32(Mul(frames, U16(h.num_channels))) ELSE h.sample_length,
               !.chunk_size = U32(Add(hdr, dsz))]

(* --------------------------------- encode --------------------------------- *)
Zeros(n) == [i \in 1..n |-> 0]
EncodeBytes(h) ==
  LET skip == IF HasExt(h) /\ h.cb_size # 22 THEN ToNat(Sub(h.fmt_chunk_size, FromNat(18, 4))) ELSE 0   \* only used when small
  IN h.chunk_id \o h.chunk_size \o h.format
     \o h.fmt_chunk_id \o h.fmt_chunk_size \o U16(h.audio_format) \o U16(h.num_channels)
     \o h.sample_rate \o h.byte_rate \o U16(h.block_align) \o U16(h.bits_per_sample)
     \o (IF HasExt(h)
           THEN U16(h.cb_size) \o (IF h.cb_size = 22 THEN U16(h.valid_bits_per_sample) \o h.channel_mask \o h.sub_format
                                                      ELSE Zeros(skip))
           ELSE <<>>)
     \o (IF HasFact(h) THEN h.fact_chunk_id \o h.fact_chunk_size \o h.sample_length ELSE <<>>)
     \o h.data_chunk_id \o h.data_chunk_size

(* --------------------------------- decode --------------------------------- *)
(* bounds-checked read of n bytes at cursor c from the first sz bytes of b (zeros when it does not fit) *)
Rd(b, sz, c, n) == IF c + n <= sz THEN SubSeq(b, c + 1, c + n) ELSE Zeros(n)
N16(x) == x[1] + 256 * x[2]
Big == 16777216        \* cursor saturates here: "far beyond any buffer we use"
Sat(x) == IF x > Big THEN Big ELSE x

(* -> [h, consumed]  where consumed is the exact number of bytes the header occupies (saturated at Big) *)
Parse(b, sz) ==
  LET R(c, n) == Rd(b, sz, c, n)
      fsz == R(16, 4)
      ext == ~Lt(fsz, FromNat(18, 4))
      cb == IF ext THEN N16(R(36, 2)) ELSE 0
      big == ext /\ cb # 22 /\ ~Lt(fsz, FromNat(Big, 4))
      skip == IF ext /\ cb # 22 /\ ~big THEN ToNat(fsz) - 18 ELSE 0
      c1 == IF ~ext THEN 36 ELSE IF cb = 22 THEN 38 + 22 ELSE IF big THEN Big ELSE Sat(38 + skip)     \* cursor after the fmt chunk
      id1 == R(c1, 4)
      isfact == id1 = FACT
      c2 == IF isfact THEN Sat(c1 + 12) ELSE c1
      h == [ZeroHeader EXCEPT
              !.chunk_id = R(0, 4), !.chunk_size = R(4, 4), !.format = R(8, 4),
              !.fmt_chunk_id = R(12, 4), !.fmt_chunk_size = fsz,
              !.audio_format = N16(R(20, 2)), !.num_channels = N16(R(22, 2)),
              !.sample_rate = R(24, 4), !.byte_rate = R(28, 4),
              !.block_align = N16(R(32, 2)), !.bits_per_sample = N16(R(34, 2)),
              !.cb_size = cb,
              !.valid_bits_per_sample = IF ext /\ cb = 22 THEN N16(R(38, 2)) ELSE 0,
              !.channel_mask = IF ext /\ cb = 22 THEN R(40, 4) ELSE Z4,
              !.sub_format = IF ext /\ cb = 22 THEN R(44, 16) ELSE Z16,
              !.fact_chunk_id = IF isfact THEN FACT ELSE Z4,
              !.fact_chunk_size = IF isfact THEN R(c1 + 4, 4) ELSE Z4,
              !.sample_length = IF isfact THEN R(c1 + 8, 4) ELSE Z4,
              !.data_chunk_id = R(c2, 4),
              !.data_chunk_size = R(c2 + 4, 4)]
  IN [h |-> h, consumed |-> Sat(c2 + 8)]

MagicOK(h) == h.chunk_id = RIFF /\ h.format = WAVE
(* chunk_size >= 12 + fmt_chunk_size + fact_chunk_size, in exact arithmetic and as 32-bit arithmetic wraps it *)
SizeOKExact(h) == ~Lt(h.chunk_size, Add(Add(<<12>>, h.fmt_chunk_size), h.fact_chunk_size))
SizeOKWrapped(h) == ~Lt(h.chunk_size, U32(Add(Add(<<12>>, h.fmt_chunk_size), h.fact_chunk_size)))

(* the contract of rf_wavheader_decode's return value (C14) *)
DecodeRetOK(b, sz, ret) ==
  LET pr == Parse(b, sz) IN
  IF pr.consumed > sz
    THEN ret < 0 \/ ret > sz                                        \* incomplete header: an error or "need more than sz"
    ELSE \/ ret = pr.consumed /\ pr.consumed >= MinSize /\ MagicOK(pr.h) /\ (SizeOKExact(pr.h) \/ SizeOKWrapped(pr.h))
         \/ ret < 0 /\ ~(MagicOK(pr.h) /\ SizeOKExact(pr.h) /\ SizeOKWrapped(pr.h))
DecodeSuccess(b, sz, ret) == Parse(b, sz).consumed <= sz /\ ret = Parse(b, sz).consumed

Validate(h) == IF MagicOK(h) /\ h.fmt_chunk_id = FMT /\ h.data_chunk_id = DATA /\ (SizeOKExact(h) \/ SizeOKWrapped(h)) THEN 0 ELSE EINVAL
GetFormat(h) ==
  IF h.audio_format = 1 THEN (IF h.bits_per_sample = 16 THEN 0 ELSE IF h.bits_per_sample = 32 THEN 1 ELSE -1)
  ELSE IF h.audio_format = 3 THEN (IF h.bits_per_sample = 32 THEN 2 ELSE -1)
  ELSE IF h.audio_format = 65534 THEN (IF h.bits_per_sample = 16 THEN 0 ELSE 1)
  ELSE -1

(* ignored extension bytes normalised to zero: what re-encoding must reproduce *)
Normalise(b, sz) ==
  LET pr == Parse(b, sz)
      ext == HasExt(pr.h)
      skipTo == IF ext /\ pr.h.cb_size # 22 THEN 38 + ToNat(pr.h.fmt_chunk_size) - 18 ELSE 38
  IN [i \in 1..pr.consumed |-> IF ext /\ pr.h.cb_size # 22 /\ i > 38 /\ i <= skipTo THEN 0 ELSE b[i]]
=============================================================================
