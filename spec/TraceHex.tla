------------------------------- MODULE TraceHex -------------------------------
EXTENDS Hex, Json, IOUtils, TLC
T == ndJsonDeserialize(IOEnv.TRACE)
VARIABLE ti
(* cursor values after each call, as the specification defines them *)
RECURSIVE Curs(_, _)
Curs(s, r) == IF r.ret = -1 THEN <<r.cur>> ELSE <<r.cur>> \o Curs(s, Again(s, r.cur))
ParseOK(ev) ==
  /\ ev.r = ParseAll(ev.s)                     \* every returned value, ending with the first -1
  /\ ev.p = Curs(ev.s, First(ev.s))            \* *p after every call (1-based index, 0 = NULL)
  /\ ev.again = -1 /\ ev.pend = 0              \* stays at -1, *p stays NULL
DumpOK(ev) ==
  /\ ev.s = Dump(ev.b)                         \* 16 two-digit lower-case pairs per line
  /\ ev.ret = Len(ev.b)
  /\ ev.r = ev.b \o <<-1>>                     \* parses back to the same bytes followed by -1
  /\ ParseOK(ev)
TwoOK(ev) == ev.ra = ParseAll(ev.sa) /\ ev.rb = ParseAll(ev.sb)          \* interleaved sessions do not disturb each other
BigOK(ev) == /\ ev.ret = ev.n /\ ev.outlen = 2 * ev.n + ((ev.n + 15) \div 16)      \* 16 pairs per line, newline after a final partial line
             /\ ev.shape = 1 /\ ev.back \in {1, 2}        \* 2: parse-back not run for this length (driver samples it; it is quadratic)
TraceInit == ti = 1
TraceNext == /\ ti <= Len(T) /\ ti' = ti + 1
             /\ LET ev == T[ti] IN CASE ev.e = "Parse" -> ParseOK(ev) [] ev.e = "Dump" -> DumpOK(ev) [] ev.e = "Two" -> TwoOK(ev) [] ev.e = "BigDump" -> BigOK(ev)
                                     [] ev.e = "ManyLines" -> ev.r = <<222, 173, -1, -1>>      \* a million data-less lines, then "0010: de ad": de, ad, end, end
                                     [] ev.e = "HugeText" -> ev.r = <<165, 90, -1, -1>>        \* 2^31+5 unparsable characters on one line (or 2^32+3 blanks), then "a5 5a"
                                     [] OTHER -> FALSE
TraceSpec == TraceInit /\ [][TraceNext]_ti
TraceAccepted ==
  LET d == TLCGet("stats").diameter IN
  IF d - 1 = Len(T) THEN TRUE ELSE Print(<<"TRACE_REJECTED_AT", d>>, FALSE)
=============================================================================
