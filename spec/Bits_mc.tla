------------------------------- MODULE Bits_mc -------------------------------
EXTENDS Bits
VARIABLE x
Init == x \in 0..(M-1)
Next == UNCHANGED x
B == BitsOf(x, W)
SwarIsPopCount == BitcntSwar(x) = PopCount(B)
SmearIsClz == ClzSmear(x) = Clz(B)
TrickIsCtz == CtzTrick(x) = Ctz(B)
HalvingIsPop == ConstPop(x, W) = PopCount(B)
HalvingIsLssb == ConstLssb(x, W) = Lssb(B)
=============================================================================
