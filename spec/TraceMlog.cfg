SPECIFICATION TraceSpec
CONSTANTS
  Cap = 256
  WrapAt = 2147483647
  MaxId = 1073741824
INVARIANT CntIsMin
POSTCONDITION TraceAccepted
CHECK_DEADLOCK FALSE
