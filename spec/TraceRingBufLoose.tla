-------------------------- MODULE TraceRingBufLoose --------------------------
(* Second opinion on a trace that TraceRingBuf rejected (see the comment at  *)
(* the head of TraceMessageQLoose for the rationale).  TraceRingBuf binds    *)
(* every recorded atomic load / store and ring access to one action of      *)
(* RingBuf; this module asks the question property C05 is about, at the      *)
(* grain of API calls: is the recorded history of one producer and one       *)
(* consumer linearizable with respect to a bounded FIFO of bytes?            *)
(*   put(d)      appends d if fewer than len-1 bytes are unread, else fails  *)
(*               (ringbuf_putchar: takes effect only once there is room);    *)
(*   get         removes and returns the oldest unread byte, -1 iff none;    *)
(*   empty       is true iff nothing is unread.                              *)
(* No recorded step may touch memory outside the caller's buffer (oob = 0).  *)
(* Index values, operation names and the number of atomic operations per     *)
(* call are ignored.                                                         *)
EXTENDS Naturals, Integers, Sequences, FiniteSets, Json, IOUtils, TLC

T == ndJsonDeserialize(IOEnv.TRACE)
P == 1
C == 0

VARIABLES ti, geo, q,
          phase, res, idx        \* per context (0 consumer, 1 producer): "idle" | "pending" | "done"; result; index of the current call in its program
vars == <<ti, geo, q, phase, res, idx>>

Prog(c) == IF c = P THEN geo.pp ELSE geo.cp
Finished(c) == idx[c] > Len(Prog(c))
CallName(c) == IF c = P THEN (IF geo.pp[idx[c]].k = "empty" THEN "empty" ELSE "put") ELSE Prog(c)[idx[c]]              \* what the driver reports: put / get / empty

TraceInit ==
  /\ ti = 1 /\ geo = [len |-> 2, start |-> 0, pp |-> <<>>, cp |-> <<>>] /\ q = <<>>
  /\ phase = [c \in {0, 1} |-> "idle"] /\ res = [c \in {0, 1} |-> 0] /\ idx = [c \in {0, 1} |-> 1]
  /\ TLCSet(42, 0)

RECURSIVE FindRep(_, _)
FindRep(c, j) == IF j > Len(T) \/ T[j].e \in {"Reset", "Bulk", "Drain"} THEN 0
                 ELSE IF T[j].e = "S" /\ T[j].c = c /\ T[j].calls # <<>> THEN j ELSE FindRep(c, j + 1)
WillReport(c, r) == LET j == FindRep(c, ti) IN IF j = 0 THEN TRUE ELSE (T[j].calls[1].n = CallName(c) /\ T[j].calls[1].r = r)

Invoke ==
  /\ ti <= Len(T) /\ T[ti].e = "S" /\ T[ti].c \in {0, 1}
  /\ phase[T[ti].c] = "idle" /\ ~Finished(T[ti].c)
  /\ phase' = [phase EXCEPT ![T[ti].c] = "pending"]
  /\ UNCHANGED <<ti, geo, q, res, idx>>

Done(c, r) == phase' = [phase EXCEPT ![c] = "done"] /\ res' = [res EXCEPT ![c] = r] /\ WillReport(c, r)

LinP ==
  /\ phase[P] = "pending"
  /\ LET cur == geo.pp[idx[P]] IN
     \/ /\ cur.k # "empty" /\ Len(q) < geo.len - 1 /\ q' = Append(q, cur.d) /\ Done(P, 1)
     \/ /\ Len(q) >= geo.len - 1 /\ cur.k = "put" /\ q' = q /\ Done(P, 0)       \* putchar never reports failure
     \/ /\ cur.k = "empty" /\ q' = q /\ Done(P, IF q = <<>> THEN 1 ELSE 0)       \* the producer asks whether the ring is idle
  /\ UNCHANGED <<ti, geo, idx>>

LinC ==
  /\ phase[C] = "pending"
  /\ IF geo.cp[idx[C]] = "get"
       THEN IF q = <<>> THEN q' = q /\ Done(C, -1) ELSE q' = Tail(q) /\ Done(C, Head(q))
       ELSE IF geo.cp[idx[C]] = "wait"
       THEN q # <<>> /\ q' = q /\ Done(C, 0)                          \* the polling loop ends when (and only when) there is data
       ELSE q' = q /\ Done(C, IF q = <<>> THEN 1 ELSE 0)
  /\ UNCHANGED <<ti, geo, idx>>

Consume ==
  /\ ti <= Len(T) /\ ti' = ti + 1
  /\ LET ev == T[ti] IN
     CASE ev.e = "Reset" ->
            /\ geo' = [len |-> ev.g.len, start |-> ev.g.start, pp |-> ev.g.pp, cp |-> ev.g.cp] /\ q' = <<>>
            /\ phase' = [c \in {0, 1} |-> "idle"] /\ res' = [c \in {0, 1} |-> 0] /\ idx' = [c \in {0, 1} |-> 1]
       [] ev.e = "BadStep" -> UNCHANGED <<geo, q, phase, res, idx>>
       [] ev.e = "Bulk" ->                           \* n sequential puts before the contexts run: all succeed
            /\ ev.n >= 0 /\ ev.n < geo.len - 1 /\ q = <<>>
            /\ q' = [i \in 1..ev.n |-> ((i - 1) * 7 + 1) % 256]
            /\ UNCHANGED <<geo, phase, res, idx>>
       [] ev.e = "Drain" ->                          \* sequential drain at the end: everything unread comes out, in order, then -1
            /\ ev.ok = 1 /\ Len(q) >= 2 /\ ev.got = Len(q) - 2
            /\ ev.tail = <<q[Len(q) - 1], q[Len(q)], -1>>
            /\ UNCHANGED <<geo, q, phase, res, idx>>
       [] ev.e = "S" ->
            LET c == ev.c IN
            /\ c \in {0, 1} /\ phase[c] # "idle" /\ ev.oob = 0
            /\ IF ev.calls = <<>>
                 THEN UNCHANGED <<geo, q, phase, res, idx>>
                 ELSE /\ phase[c] = "done" /\ Len(ev.calls) = 1
                      /\ ev.calls[1].n = CallName(c) /\ ev.calls[1].r = res[c]
                      /\ phase' = [phase EXCEPT ![c] = "idle"] /\ idx' = [idx EXCEPT ![c] = @ + 1]
                      /\ UNCHANGED <<geo, q, res>>
       [] OTHER -> FALSE

TraceNext == Invoke \/ LinP \/ LinC \/ Consume
TraceSpec == TraceInit /\ [][TraceNext]_vars

Furthest == TLCSet(42, IF TLCGet(42) < ti THEN ti ELSE TLCGet(42))
Report == IF TLCGet(42) > Len(T) THEN PrintT("LOOSE_ACCEPTED") ELSE PrintT(<<"LOOSE_FURTHEST_EVENT", TLCGet(42)>>)
=============================================================================
