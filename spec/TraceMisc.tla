------------------------------ MODULE TraceMisc ------------------------------
EXTENDS Misc, Json, IOUtils, TLC
T == ndJsonDeserialize(IOEnv.TRACE)
VARIABLE ti
Desc(ev) == [i \in 1..Len(ev.desc) |-> [name |-> ev.desc[i].name, mask |-> BytesToBits(ev.desc[i].mask)]]
RECURSIVE RegAll(_, _, _, _)
RegAll(desc, reg, state, n) ==       \* all lines of a complete fregdump, and the states returned
  IF n = 0 THEN <<>> ELSE LET r == RegStep(desc, reg, state) IN
  <<[name |-> r.line.name, isreg |-> r.line.isreg, val |-> r.line.val, next |-> r.state]>> \o (IF r.state = 0 THEN <<>> ELSE RegAll(desc, reg, r.state, n - 1))
RegOK(ev) ==
  LET want == RegAll(Desc(ev), BytesToBits(ev.reg), 0, 100) IN
  /\ Len(ev.lines) = Len(want)
  /\ \A i \in 1..Len(want) : /\ ev.lines[i].name = want[i].name /\ ev.lines[i].isreg = want[i].isreg /\ ev.lines[i].next = want[i].next
                             /\ (want[i].isreg = 1 \/ BytesToBits(ev.lines[i].val) = want[i].val)
EnumOK(ev) == ev.s = E2S(ev.t, ev.val) /\ ev.back = S2E(ev.t, ev.q)
StatsOK(ev) == /\ ev.min = Min(ev.d) /\ ev.max = Max(ev.d) /\ ev.mean = Mean(ev.d) /\ ev.count = Len(ev.d)
               /\ (ev.total = 0 \/ ev.ppm = PerMillion(ev.d, ev.total))
TraceInit == ti = 1
TraceNext == /\ ti <= Len(T) /\ ti' = ti + 1
             /\ LET ev == T[ti] IN CASE ev.e = "Reg" -> RegOK(ev) [] ev.e = "Enum" -> EnumOK(ev) [] ev.e = "Stats" -> StatsOK(ev) [] OTHER -> FALSE
TraceSpec == TraceInit /\ [][TraceNext]_ti
TraceAccepted ==
  LET d == TLCGet("stats").diameter IN
  IF d - 1 = Len(T) THEN TRUE ELSE Print(<<"TRACE_REJECTED_AT", d>>, FALSE)
=============================================================================
