INIT Init
NEXT Next
CONSTANTS
  Depth = 1
  NSenders = 2
  MsgsPer = 2
  RecvTries = 1
  Discipline = "threads"
  MaxNest = 3
  CounterMod = 256
  CounterSigned = FALSE
VIEW MCView
INVARIANT TypeOK
PROPERTIES ExclusiveOwnership FailJustified
CHECK_DEADLOCK FALSE
