SPECIFICATION TraceSpec
CONSTANT Mode = "C14"
POSTCONDITION TraceAccepted
CHECK_DEADLOCK FALSE
