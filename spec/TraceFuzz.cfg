SPECIFICATION TraceSpec
POSTCONDITION TraceAccepted
CHECK_DEADLOCK FALSE
