--------------------------- MODULE TraceRatelimit ---------------------------
EXTENDS Ratelimit, Sequences, Json, IOUtils, TLC
T == ndJsonDeserialize(IOEnv.TRACE)
VARIABLE ti
TraceInit == Init /\ ti = 1
TraceNext == /\ ti <= Len(T) /\ ti' = ti + 1
             /\ LET ev == T[ti] IN
                IF ev.e = "Reset" THEN rem' = -1 /\ count' = 0 /\ res' = 0 /\ UNCHANGED <<now, endt>>
                ELSE Check(ev.dt, ev.n, ev.w) /\ ev.r = res'
TraceSpec == TraceInit /\ [][TraceNext]_<<vars, ti>>
TraceAccepted ==
  LET d == TLCGet("stats").diameter IN
  IF d - 1 = Len(T) THEN TRUE ELSE Print(<<"TRACE_REJECTED_AT", d>>, FALSE)
=============================================================================
