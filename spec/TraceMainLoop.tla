---------------------------- MODULE TraceMainLoop ----------------------------
(* Iterations of the real fibre_scheduler_main_loop (fibre_posix.c) run against a scripted scheduler and a mock clock by    *)
(* harness/mainloop_drv.c; times are logged relative to the iteration's t0 (the absolute clock is placed near both wrap     *)
(* points of the 32-bit time by the driver).                                                                                  *)
EXTENDS MainLoop, Sequences, Json, IOUtils, TLC
T == ndJsonDeserialize(IOEnv.TRACE)
VARIABLE ti
CONSTANT Exact     \* TRUE: the sleep is exactly the specification's SleepArg; FALSE: only the property (NoOversleep) is demanded
TraceInit == Init /\ ti = 1
TraceNext ==
  /\ ti <= Len(T) /\ ti' = ti + 1
  /\ LET ev == T[ti] IN
     /\ ev.e = "Iter"
     /\ now' = 0 /\ iters' = 0 /\ wokenAt' = -1   \* each event is judged on its own, relative to its t0
     /\ ret' = ev.d /\ t1' = ev.w
     /\ slept' = (LET a == SleepArg(ev.d - ev.w) IN IF a > 0 THEN a ELSE 0)
     /\ IF ev.intr < 0
          THEN (Exact => (ev.slept = slept' /\ ev.calls = (IF slept' > 0 THEN 1 ELSE 0)))   \* what the loop asked to sleep, and in how many calls
          ELSE \* IterSignal: the first sleep was cut short after ev.intr ticks by a signal whose handler posted a wake-up
               /\ (Exact => ev.asked = slept')
               /\ ev.after = 0                    \* WakeNotSleptOn: nothing is slept between the wake-up and the next pass
     /\ ev.w + ev.slept <= (IF ev.d > ev.w THEN ev.d ELSE ev.w)            \* NoOversleep on the observed numbers
TraceSpec == TraceInit /\ [][TraceNext]_<<vars, ti>>
TraceAccepted ==
  LET d == TLCGet("stats").diameter IN
  IF d - 1 = Len(T) THEN TRUE ELSE Print(<<"TRACE_REJECTED_AT", d>>, FALSE)
=============================================================================
