INIT Init
NEXT Next
INVARIANTS Validates RoundTripStruct SizesConsistent NoTruncatedSuccess RoundTripBytes FormatBack
