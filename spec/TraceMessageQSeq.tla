-------------------------- MODULE TraceMessageQSeq --------------------------
EXTENDS MessageQSeq, Json, IOUtils, TLC
T == ndJsonDeserialize(IOEnv.TRACE)
VARIABLE ti
tvars == <<vars, ti>>

ResetA(g) ==
  /\ geo' = [depth |-> g.depth, msglen |-> g.msglen, slack |-> g.slack]
  /\ win' = <<>> /\ nclaims' = 0 /\ numFree' = g.depth /\ sendp' = 0 /\ flags' = {} /\ receivep' = 0 /\ ret' = 0

Do(ev) ==
  CASE ev.e = "Claim" -> Claim
    [] ev.e = "Send" -> Send(ev.a[1])
    [] ev.e = "Receive" -> Receive
    [] ev.e = "Release" -> Release
    [] ev.e = "Empty" -> Empty
    [] ev.e = "Cycles" -> Cycles((((ev.a[2] % geo.depth) * (65536 % geo.depth)) + (ev.a[1] % geo.depth)) % geo.depth)
    [] OTHER -> FALSE

TraceInit == Init /\ ti = 1
TraceNext ==
  /\ ti <= Len(T)
  /\ ti' = ti + 1
  /\ LET ev == T[ti] IN
     IF ev.e = "Reset" THEN ResetA(ev.g)
     ELSE /\ Do(ev)
          /\ ret' = ev.r          \* returned buffer (byte offset in the caller's memory), NULL, or empty()'s answer
          /\ ev.ok = 1            \* buffer inside the storage, payload intact, trailing slack bytes untouched
TraceSpec == TraceInit /\ [][TraceNext]_tvars
TraceAccepted ==
  LET d == TLCGet("stats").diameter IN
  IF d - 1 = Len(T) THEN TRUE ELSE Print(<<"TRACE_REJECTED_AT", d>>, FALSE)
=============================================================================
