---------------------------- MODULE TraceConsole ----------------------------
EXTENDS Console, Json, IOUtils, TLC
T == ndJsonDeserialize(IOEnv.TRACE)
VARIABLES ti, prompted     \* prompted: the console has printed its first prompt (it does so when it first runs)
NoSet == {}
RingCap == 15        \* the console's input ring (16 bytes) holds 15 characters
AtomQ == 8           \* slots of the scheduler's interrupt-safe run queue
(* what the driver's capturing commands see of a dispatch: built-in commands and the unknown-command handler capture nothing *)
IsBuiltin(nm) == \E i \in 1..Len(Builtins) : Builtins[i] = nm
Captured(d) == IF d = <<>> \/ d[1].name = <<>> \/ IsBuiltin(d[1].name) THEN <<>> ELSE d
SameDisp(real, spec) ==
  /\ Len(real) = Len(spec)
  /\ \A i \in 1..Len(spec) :
       /\ real[i].name = spec[i].name /\ real[i].argc = spec[i].argc
       /\ real[i].ok = 1                                     \* every argv[k] is a NUL-terminated string inside the line buffer
       /\ real[i].argv = spec[i].argv
(* every entry into a command function, first call and each resumption after a yield: the drivers register name -> function *)
(* number (sum of the codes mod 2), and a command yields Len(name) % 3 times                                               *)
RECURSIVE SumCodes(_)
SumCodes(nm) == IF nm = <<>> THEN 0 ELSE Head(nm) + SumCodes(Tail(nm))
FnId(nm) == SumCodes(nm) % 2
RECURSIVE CallsOf(_)
CallsOf(ds) == IF ds = <<>> THEN <<>> ELSE [i \in 1..(1 + (Len(ds[1].name) % 3)) |-> FnId(ds[1].name)] \o CallsOf(Tail(ds))
RECURSIVE Feed(_, _, _)
Feed(l, s, acc) == IF s = <<>> THEN [line |-> l, disps |-> acc]
                   ELSE LET r == CharF(l, Head(s)) IN Feed(r.line, Tail(s), acc \o Captured(r.disp))
StartsWith(s, p) == Len(s) >= Len(p) /\ SubSeq(s, 1, Len(p)) = p
EndsWith(s, p) == Len(s) >= Len(p) /\ SubSeq(s, Len(s) - Len(p) + 1, Len(s)) = p
(* the output of one character: [first prompt] body [prompt], body judged by OutF's kind; pr = the console's prompt string *)
OutOK(out, pr, o, first) ==
  /\ (first => StartsWith(out, pr))
  /\ LET o1 == IF first THEN SubSeq(out, Len(pr) + 1, Len(out)) ELSE out IN
     /\ (o.prompt => EndsWith(o1, pr))
     /\ LET body == IF o.prompt THEN SubSeq(o1, 1, Len(o1) - Len(pr)) ELSE o1 IN
        CASE o.kind = "exact" -> body = o.text
          [] o.kind = "empty" -> body = <<>>
          [] o.kind = "nonempty" -> body # <<>>
TraceInit == Init /\ ti = 1 /\ prompted = FALSE
TraceNext ==
  /\ ti <= Len(T) /\ ti' = ti + 1
  /\ LET ev == T[ti] IN
     CASE ev.e = "Reset" -> line' = <<>> /\ table' = Builtins /\ disp' = <<>> /\ regret' = 0 /\ nchars' = 0 /\ prompted' = FALSE
       [] ev.e = "Reg" -> Register(ev.name) /\ ev.r = regret' /\ UNCHANGED prompted
       [] ev.e = "Char" -> /\ Char(ev.c) /\ SameDisp(ev.disp, Captured(disp')) /\ ev.line = line'
                           /\ ev.calls = CallsOf(Captured(disp'))
                           /\ OutOK(ev.out, ev.pr, OutF(line, ev.c), ~prompted) /\ prompted' = TRUE     \* what the console printed
       [] ev.e = "Eval" ->                                   \* console_eval: executed once, and the injection completes
            LET f == Feed(line, ev.s, <<>>) IN
            /\ ev.done = 1 /\ SameDisp(ev.disp, f.disps) /\ ev.line = f.line /\ ev.calls = CallsOf(f.disps)
            /\ prompted' = TRUE
            /\ line' = f.line /\ disp' = <<>> /\ UNCHANGED <<table, regret, nchars>>
       [] ev.e = "Flood" ->                                  \* a burst from the input interrupt with no scheduler pass in between: the ring
            \* (RingCap characters) keeps what fits, drops the rest; every completed line in it runs, whatever else was pending
            LET kept == SubSeq(ev.s, 1, IF Len(ev.s) < RingCap THEN Len(ev.s) ELSE RingCap)
                woken == ev.pending < AtomQ                   \* the console's own wake-up found room: the first pass empties the ring
                acc == IF woken \/ Len(ev.s) < RingCap THEN kept \o <<ev.key>> ELSE kept      \* else the key finds the ring still full
                f == Feed(line, acc, <<>>) IN
            /\ SameDisp(ev.disp, f.disps) /\ ev.line = f.line /\ ev.calls = CallsOf(f.disps)
            /\ prompted' = TRUE
            /\ line' = f.line /\ disp' = <<>> /\ UNCHANGED <<table, regret, nchars>>
       [] ev.e = "Two" ->                                    \* two consoles side by side: each is an instance of this machine of its own
            LET fa == Feed(line, ev.la, <<>>)
                fb == Feed(<<>>, ev.lb, <<>>) IN
            /\ SameDisp(ev.da, fa.disps) /\ SameDisp(ev.db, fb.disps)
            /\ ev.ca = CallsOf(fa.disps) /\ ev.cb = CallsOf(fb.disps)
            /\ ev.line = fa.line /\ ev.lineb = fb.line
            /\ prompted' = TRUE
            /\ line' = fa.line /\ disp' = <<>> /\ UNCHANGED <<table, regret, nchars>>
       [] OTHER -> FALSE
TraceSpec == TraceInit /\ [][TraceNext]_<<vars, ti, prompted>>
TraceAccepted ==
  LET d == TLCGet("stats").diameter IN
  IF d - 1 = Len(T) THEN TRUE ELSE Print(<<"TRACE_REJECTED_AT", d>>, FALSE)
=============================================================================
