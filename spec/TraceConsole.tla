---------------------------- MODULE TraceConsole ----------------------------
EXTENDS Console, Json, IOUtils, TLC
T == ndJsonDeserialize(IOEnv.TRACE)
VARIABLE ti
NoSet == {}
(* what the driver's capturing commands see of a dispatch: built-in commands and the unknown-command handler capture nothing *)
IsBuiltin(nm) == \E i \in 1..Len(Builtins) : Builtins[i] = nm
Captured(d) == IF d = <<>> \/ d[1].name = <<>> \/ IsBuiltin(d[1].name) THEN <<>> ELSE d
SameDisp(real, spec) ==
  /\ Len(real) = Len(spec)
  /\ \A i \in 1..Len(spec) :
       /\ real[i].name = spec[i].name /\ real[i].argc = spec[i].argc
       /\ real[i].ok = 1                                     \* every argv[k] is a NUL-terminated string inside the line buffer
       /\ real[i].argv = spec[i].argv
RECURSIVE Feed(_, _, _)
Feed(l, s, acc) == IF s = <<>> THEN [line |-> l, disps |-> acc]
                   ELSE LET r == CharF(l, Head(s)) IN Feed(r.line, Tail(s), acc \o Captured(r.disp))
TraceInit == Init /\ ti = 1
TraceNext ==
  /\ ti <= Len(T) /\ ti' = ti + 1
  /\ LET ev == T[ti] IN
     CASE ev.e = "Reset" -> line' = <<>> /\ table' = Builtins /\ disp' = <<>> /\ regret' = 0 /\ nchars' = 0
       [] ev.e = "Reg" -> Register(ev.name) /\ ev.r = regret'
       [] ev.e = "Char" -> Char(ev.c) /\ SameDisp(ev.disp, Captured(disp')) /\ ev.line = line'
       [] ev.e = "Eval" ->                                   \* console_eval: executed once, and the injection completes
            LET f == Feed(line, ev.s, <<>>) IN
            /\ ev.done = 1 /\ SameDisp(ev.disp, f.disps) /\ ev.line = f.line
            /\ line' = f.line /\ disp' = <<>> /\ UNCHANGED <<table, regret, nchars>>
       [] OTHER -> FALSE
TraceSpec == TraceInit /\ [][TraceNext]_<<vars, ti>>
TraceAccepted ==
  LET d == TLCGet("stats").diameter IN
  IF d - 1 = Len(T) THEN TRUE ELSE Print(<<"TRACE_REJECTED_AT", d>>, FALSE)
=============================================================================
