----------------------------- MODULE TraceString -----------------------------
EXTENDS RfString, Json, IOUtils, TLC
T == ndJsonDeserialize(IOEnv.TRACE)
VARIABLE ti
CaseOK(ev) ==
  /\ ev.lower = ToLower(ev.s) /\ ev.upper = ToUpper(ev.s)                   \* in place
  /\ ev.dlower = ToLower(ev.s) /\ ev.dupper = ToUpper(ev.s) /\ ev.src = ev.s  \* copies; the source is untouched
  /\ ev.same = 1                                                            \* strtolower returns its argument
  /\ Idem(ev.s)
JoinOK(ev) == ev.j = Join(ev.a, ev.b) /\ ev.xj = ev.j
PrintfOK(ev) == ev.out = Fmt(ev.a, ev.n, ev.b) /\ ev.usable >= Len(ev.out) + 1      \* the block holds the string and its NUL
TraceInit == ti = 1
TraceNext == /\ ti <= Len(T) /\ ti' = ti + 1
             /\ LET ev == T[ti] IN CASE ev.e = "Case" -> CaseOK(ev) [] ev.e = "Join" -> JoinOK(ev) [] ev.e = "Printf" -> PrintfOK(ev) [] OTHER -> FALSE
TraceSpec == TraceInit /\ [][TraceNext]_ti
TraceAccepted ==
  LET d == TLCGet("stats").diameter IN
  IF d - 1 = Len(T) THEN TRUE ELSE Print(<<"TRACE_REJECTED_AT", d>>, FALSE)
=============================================================================
