INIT Init
NEXT Next
INVARIANTS SwarIsPopCount SmearIsClz TrickIsCtz HalvingIsPop HalvingIsLssb
