INIT InitHB
NEXT NextHB
CONSTANTS
  Depth = 1
  NSenders = 2
  MsgsPer = 2
  RecvTries = 3
  Discipline = "threads"
  MaxNest = 3
  CounterMod = 256
  CounterSigned = TRUE
  NCtx = 3
  Relaxed <- W_sub
VIEW ViewHB
INVARIANTS Safety NoRace
CHECK_DEADLOCK FALSE
