INIT Init
NEXT Next
CONSTANTS
  MainProg <- MP4
  IsrProg <- IP_H
  AQDepth = 8
  EQDepth = 2
  SPeriod = 2
  Discipline = "irq"
  MaxNest = 2
  LoopForever = FALSE
  FastPathChecksAtomicQ = TRUE
  Sleeper = TRUE
  SRun = TRUE
VIEW MCView
INVARIANT Safety
PROPERTY RetSeesCompleted
CHECK_DEADLOCK FALSE
