SPECIFICATION TraceSpec
CONSTANTS
  MaxNodes = 13
CONSTRAINT Furthest
POSTCONDITION Report
CHECK_DEADLOCK FALSE
