INIT Init
NEXT Next
CONSTANTS
  PosMod = 256
  CntMod = 4
  C14Mod = 64
INVARIANT Safety
