------------------------------- MODULE C11HB -------------------------------
(* Happens-before bookkeeping for the C11 memory model, vector-clock style.  *)
(*                                                                           *)
(* The state `hb` is a record:                                               *)
(*   vc    [ctx -> [ctx -> Nat]]   vector clock of each context              *)
(*   rel   [loc -> clock]          clock published on an atomic object by    *)
(*                                 the head of its current release sequence   *)
(*   lw    [loc -> <<ctx, t>>]     epoch of the last plain write             *)
(*   rd    [loc -> [ctx -> Nat]]   epochs of the plain reads since then      *)
(*   frel  [ctx -> clock]          clock at the last release fence           *)
(*   pacq  [ctx -> clock]          clocks seen by relaxed loads (claimed by  *)
(*                                 a later acquire fence)                    *)
(*   race  STRING                  "" or the first violation found           *)
(*                                                                           *)
(* Rules (C11 5.1.2.4, simplified conservatively):                           *)
(*  - a store / RMW with release semantics publishes the context's clock on  *)
(*    the object; an RMW of any order continues the release sequence (joins  *)
(*    instead of replacing); a relaxed plain store ends it;                  *)
(*  - a load / RMW with acquire semantics joins the published clock;         *)
(*  - seq_cst is treated as acq_rel (the executions are already total        *)
(*    orders); consume is treated as acquire;                                *)
(*  - atomic_signal_fence orders nothing between contexts;                   *)
(*  - atomic_thread_fence: release fence + later relaxed store publishes the *)
(*    fence clock; relaxed load + later acquire fence joins;                 *)
(*  - a plain write must happen-after every earlier plain access of the same *)
(*    location by another context, a plain read after every earlier write;   *)
(*  - a plain access to an object registered as atomic (or vice versa) is a  *)
(*    violation outright.                                                    *)
EXTENDS Naturals, Sequences, TLC, FiniteSets

CONSTANT NCtx
CtxIds == 0..(NCtx-1)

Zero == [c \in CtxIds |-> 0]
Join(a, b) == [c \in CtxIds |-> IF a[c] >= b[c] THEN a[c] ELSE b[c]]
Leq(a, b) == \A c \in CtxIds : a[c] <= b[c]

HB0 == [vc |-> [c \in CtxIds |-> [d \in CtxIds |-> IF c = d THEN 1 ELSE 0]],
        rel |-> <<>>, lw |-> <<>>, rd |-> <<>>,
        frel |-> [c \in CtxIds |-> Zero], pacq |-> [c \in CtxIds |-> Zero],
        race |-> ""]

FGet(f, k, dflt) == IF k \in DOMAIN f THEN f[k] ELSE dflt
FPut(f, k, v) == (k :> v) @@ f

IsAcq(mo) == mo \in {1, 2, 4, 5}
IsRel(mo) == mo \in {3, 4, 5}

Flag(h, msg) == IF h.race = "" THEN [h EXCEPT !.race = msg] ELSE h

(* atomic operation by context c on location loc; kind in {"load","store","rmw"} *)
AtomicOp(h, c, loc, kind, mo) ==
  LET published == FGet(h.rel, loc, Zero)
      \* acquire side
      vc1 == IF kind \in {"load", "rmw"} /\ IsAcq(mo) THEN Join(h.vc[c], published) ELSE h.vc[c]
      pacq1 == IF kind \in {"load", "rmw"} /\ ~IsAcq(mo) THEN Join(h.pacq[c], published) ELSE h.pacq[c]
      \* release side
      mine == IF IsRel(mo) THEN vc1 ELSE h.frel[c]      \* relaxed store after a release fence publishes the fence clock
      rel1 == IF kind = "store" THEN FPut(h.rel, loc, mine)
              ELSE IF kind = "rmw" THEN FPut(h.rel, loc, Join(published, mine))
              ELSE h.rel
      vc2 == IF kind \in {"store", "rmw"} THEN [vc1 EXCEPT ![c] = @ + 1] ELSE vc1
  IN [h EXCEPT !.vc[c] = vc2, !.rel = rel1, !.pacq[c] = pacq1]

ThreadFence(h, c, mo) ==
  LET vc1 == IF IsAcq(mo) THEN Join(h.vc[c], h.pacq[c]) ELSE h.vc[c]
      h1 == [h EXCEPT !.vc[c] = vc1]
  IN IF IsRel(mo) THEN [h1 EXCEPT !.frel[c] = vc1, !.vc[c] = [vc1 EXCEPT ![c] = @ + 1]] ELSE h1

PlainWrite(h, c, loc) ==
  LET w == FGet(h.lw, loc, <<c, 0>>)
      r == FGet(h.rd, loc, Zero)
      okW == w[1] = c \/ w[2] <= h.vc[c][w[1]]
      okR == \A d \in CtxIds : d = c \/ r[d] <= h.vc[c][d]
      h1 == [h EXCEPT !.lw = FPut(h.lw, loc, <<c, h.vc[c][c]>>), !.rd = FPut(h.rd, loc, Zero)]
  IN IF okW /\ okR THEN h1 ELSE Flag(h1, "race: plain write not ordered after an earlier access")

PlainRead(h, c, loc) ==
  LET w == FGet(h.lw, loc, <<c, 0>>)
      r == FGet(h.rd, loc, Zero)
      okW == w[1] = c \/ w[2] <= h.vc[c][w[1]]
      h1 == [h EXCEPT !.rd = FPut(h.rd, loc, [r EXCEPT ![c] = h.vc[c][c]])]
  IN IF okW THEN h1 ELSE Flag(h1, "race: plain read not ordered after the last write")

KindOf(op) == IF op = "load" THEN "load" ELSE IF op = "store" THEN "store" ELSE "rmw"

(* one logged sub-event e = [k, op, v, i, mo, x] executed by context c *)
Apply(h, c, e) ==
  LET loc == <<e.v, e.i>> IN
  IF e.x = 1 THEN Flag(h, "mixed: plain access to an atomic object or atomic access to plain memory")
  ELSE IF e.k = "A" THEN AtomicOp(h, c, loc, KindOf(e.op), e.mo)
  ELSE IF e.k = "F" THEN (IF e.op = "thread_fence" THEN ThreadFence(h, c, e.mo) ELSE h)
  ELSE IF e.k = "W" THEN PlainWrite(h, c, loc)
  ELSE IF e.k = "R" THEN PlainRead(h, c, loc)
  ELSE h

RECURSIVE ApplyAll(_, _, _, _)
ApplyAll(h, c, es, i) == IF i > Len(es) THEN h ELSE ApplyAll(Apply(h, c, es[i]), c, es, i + 1)
=============================================================================
