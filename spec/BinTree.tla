------------------------------ MODULE BinTree ------------------------------
(* librfn/bintree.c (property C11): allocation-free tree iterators that     *)
(* temporarily rewrite links (Morris threads in the right pointers, a tag   *)
(* in the low bit of the left pointers) and bintree_free built on the       *)
(* post-order iterator.  Nodes are 1..N, 0 is NULL.  A left pointer is the  *)
(* pair (left[n], tag[n]); every other pointer is a node number.  One       *)
(* action = one call of bintree_iterate_* / bintree_next (its while loops   *)
(* are recursive operators), or one deallocation inside bintree_free.       *)
EXTENDS Naturals, Integers, Sequences, FiniteSets

CONSTANTS MaxNodes, Modes
VARIABLES n, root, left, right, tag, islist,     \* the tree as it is now
          oleft, oright,                         \* the original shape (for the properties)
          mode,        \* "in" | "pre" | "post" | "free" | "list"
          phase,       \* "start" | "run" | "done"
          itCurr, itParent, itKind,              \* bintree_iterator_t (itKind: "left"/"right" list iterator)
          out,         \* nodes returned (or deallocated) so far
          freed, bad,  \* deallocated nodes; TRUE once a freed node's fields were read
          ret
vars == <<n, root, left, right, tag, islist, oleft, oright, mode, phase, itCurr, itParent, itKind, out, freed, bad, ret>>

Nodes == 1..n
F0 == [i \in 1..MaxNodes |-> 0]

(* ---------------- all shapes: nodes numbered in pre-order ---------------- *)
RECURSIVE Shapes(_, _)
(* trees with cnt nodes labelled lo..lo+cnt-1, root lo: set of [l, r] (functions on 1..MaxNodes, 0 elsewhere) *)
Shapes(lo, cnt) ==
  IF cnt = 0 THEN {[l |-> F0, r |-> F0]}
  ELSE UNION {{[l |-> [i \in 1..MaxNodes |-> IF i = lo THEN (IF k > 0 THEN lo + 1 ELSE 0) ELSE IF A.l[i] # 0 THEN A.l[i] ELSE B.l[i]],
                r |-> [i \in 1..MaxNodes |-> IF i = lo THEN (IF cnt - 1 - k > 0 THEN lo + 1 + k ELSE 0) ELSE IF A.r[i] # 0 THEN A.r[i] ELSE B.r[i]]]
               : A \in Shapes(lo + 1, k), B \in Shapes(lo + 1 + k, cnt - 1 - k)} : k \in 0..(cnt - 1)}

(* list spines for the list iterators: list nodes carry elements (leaves) *)
LeftSpine(k) ==   \* k list nodes 1..k chained through left, elements k+1..2k+1: node i has right = element, deepest has left = element too
  [l |-> [i \in 1..MaxNodes |-> IF i < k THEN i + 1 ELSE IF i = k THEN 2 * k + 1 ELSE 0],
   r |-> [i \in 1..MaxNodes |-> IF i <= k THEN k + i ELSE 0],
   isl |-> [i \in 1..MaxNodes |-> i <= k]]
RightSpine(k) ==  \* list nodes chained through right, element on the left; the last right is an element
  [l |-> [i \in 1..MaxNodes |-> IF i <= k THEN k + i ELSE 0],
   r |-> [i \in 1..MaxNodes |-> IF i < k THEN i + 1 ELSE IF i = k THEN 2 * k + 1 ELSE 0],
   isl |-> [i \in 1..MaxNodes |-> i <= k]]

NilSpine(k) ==    \* cons style: list nodes chained through right, element on the left, closed by a childless list node ("nil")
  [l |-> [i \in 1..MaxNodes |-> IF i <= k THEN k + i ELSE 0],
   r |-> [i \in 1..MaxNodes |-> IF i < k THEN i + 1 ELSE IF i = k THEN 2 * k + 1 ELSE 0],
   isl |-> [i \in 1..MaxNodes |-> i <= k \/ i = 2 * k + 1]]
NullSpine(k) ==   \* the same, closed by a NULL right pointer (k >= 1; 2k nodes)
  [l |-> [i \in 1..MaxNodes |-> IF i <= k THEN k + i ELSE 0],
   r |-> [i \in 1..MaxNodes |-> IF i < k THEN i + 1 ELSE 0],
   isl |-> [i \in 1..MaxNodes |-> i <= k]]

SubtreeSpine(k) ==  \* right-leaning spine closed by an element that is itself a (non-list) tree: node 2k+1 with two leaf children
  [l |-> [i \in 1..MaxNodes |-> IF i <= k THEN k + i ELSE IF i = 2 * k + 1 THEN 2 * k + 2 ELSE 0],
   r |-> [i \in 1..MaxNodes |-> IF i < k THEN i + 1 ELSE IF i = k THEN 2 * k + 1 ELSE IF i = 2 * k + 1 THEN 2 * k + 3 ELSE 0],
   isl |-> [i \in 1..MaxNodes |-> i <= k]]

Init ==
  /\ mode \in Modes
  /\ \/ /\ mode # "list"
        /\ n \in 0..MaxNodes
        /\ \E s \in Shapes(1, n) : left = s.l /\ right = s.r
        /\ islist = [i \in 1..MaxNodes |-> FALSE]
     \/ /\ mode = "list"
        /\ \E k \in 0..((MaxNodes - 1) \div 2) :
             \/ \E s \in {LeftSpine(k), RightSpine(k), NilSpine(k)} : n = 2 * k + 1 /\ left = s.l /\ right = s.r /\ islist = s.isl
             \/ k >= 1 /\ n = 2 * k /\ left = NullSpine(k).l /\ right = NullSpine(k).r /\ islist = NullSpine(k).isl
             \/ 2 * k + 3 <= MaxNodes /\ n = 2 * k + 3 /\ left = SubtreeSpine(k).l /\ right = SubtreeSpine(k).r /\ islist = SubtreeSpine(k).isl
  /\ root = IF n = 0 THEN 0 ELSE 1
  /\ tag = [i \in 1..MaxNodes |-> 0]
  /\ oleft = left /\ oright = right
  /\ phase = "start" /\ itCurr = 0 /\ itParent = 0 /\ itKind = "none"
  /\ out = <<>> /\ freed = {} /\ bad = FALSE /\ ret = 0

(* ------------------------- recursive traversals (the promise) ------------------------- *)
RECURSIVE InOrder(_, _, _), PreOrder(_, _, _), PostOrder(_, _, _), ListOrder(_, _, _, _)
InOrder(L, R, t) == IF t = 0 THEN <<>> ELSE InOrder(L, R, L[t]) \o <<t>> \o InOrder(L, R, R[t])
PreOrder(L, R, t) == IF t = 0 THEN <<>> ELSE <<t>> \o PreOrder(L, R, L[t]) \o PreOrder(L, R, R[t])
PostOrder(L, R, t) == IF t = 0 THEN <<>> ELSE PostOrder(L, R, L[t]) \o PostOrder(L, R, R[t]) \o <<t>>
ListOrder(L, R, isl, t) == IF t = 0 THEN <<>> ELSE IF isl[t] THEN ListOrder(L, R, isl, L[t]) \o ListOrder(L, R, isl, R[t]) ELSE <<t>>

(* ------------------------------- in_order_iterator ------------------------------- *)
RECURSIVE Pred(_, _, _)
Pred(R, p, curr) == IF R[p] # 0 /\ R[p] # curr THEN Pred(R, R[p], curr) ELSE p      \* walk right to the in-order predecessor
RECURSIVE InStep(_, _, _)
(* -> [ret, curr, R]; L is read untagged: in-order never looks at a left pointer it has tagged *)
InStep(L, R, curr) ==
  IF curr = 0 THEN [ret |-> 0, curr |-> 0, R |-> R]
  ELSE IF L[curr] = 0 THEN [ret |-> curr, curr |-> R[curr], R |-> R]
  ELSE LET p == Pred(R, L[curr], curr) IN
       IF R[p] = 0 THEN InStep(L, [R EXCEPT ![p] = curr], L[curr])                 \* create the thread, go left
       ELSE [ret |-> curr, curr |-> R[curr], R |-> [R EXCEPT ![p] = 0]]            \* second arrival: remove it, visit
RECURSIVE PreStep(_, _, _)
PreStep(L, R, curr) ==
  IF curr = 0 THEN [ret |-> 0, curr |-> 0, R |-> R]
  ELSE IF L[curr] = 0 THEN [ret |-> curr, curr |-> R[curr], R |-> R]
  ELSE LET p == Pred(R, L[curr], curr) IN
       IF R[p] = curr THEN PreStep(L, [R EXCEPT ![p] = 0], R[curr])                \* second arrival: remove, go right
       ELSE [ret |-> curr, curr |-> L[curr], R |-> [R EXCEPT ![p] = curr]]         \* first arrival: thread, visit
(* the tagging pass of bintree_iterate_post_order: a full in-order iteration *)
RECURSIVE InAll(_, _, _, _)
InAll(L, R, curr, acc) == LET s == InStep(L, R, curr) IN IF s.ret = 0 THEN [R |-> s.R, seq |-> acc] ELSE InAll(L, s.R, s.curr, Append(acc, s.ret))

(* ------------------------------ post_order_iterator ------------------------------ *)
RECURSIVE PostWalk(_, _, _, _, _)
(* -> [ret, parent, readsFreed]; T = tags *)
PostWalk(L, R, T, tmp, prev) ==
  IF tmp = 0 \/ T[tmp] = 0 THEN [ret |-> 0, parent |-> prev, reads |-> IF tmp = 0 THEN {} ELSE {tmp}]
  ELSE IF L[tmp] # 0 /\ T[L[tmp]] = 1 THEN LET w == PostWalk(L, R, T, L[tmp], tmp) IN [w EXCEPT !.reads = @ \cup {tmp, L[tmp]}]
  ELSE IF R[tmp] # 0 /\ T[R[tmp]] = 1 THEN LET w == PostWalk(L, R, T, R[tmp], tmp) IN [w EXCEPT !.reads = @ \cup {tmp, R[tmp]} \cup (IF L[tmp] # 0 THEN {L[tmp]} ELSE {})]
  ELSE [ret |-> tmp, parent |-> prev,
        reads |-> {tmp} \cup (IF L[tmp] # 0 THEN {L[tmp]} ELSE {}) \cup (IF R[tmp] # 0 THEN {R[tmp]} ELSE {})]

PostStepA ==   \* one call of post_order_iterator on the current state
  LET w == PostWalk(left, right, tag, itCurr, 0) IN
  /\ ret' = w.ret
  /\ bad' = (bad \/ (w.reads \cap freed # {}))
  /\ IF w.ret = 0 THEN UNCHANGED <<tag, itCurr, itParent>>
     ELSE /\ tag' = [tag EXCEPT ![w.ret] = 0]
          /\ itCurr' = IF w.ret = itCurr THEN 0 ELSE itCurr
          /\ itParent' = w.parent

(* --------------------------------- the actions --------------------------------- *)
Frame == UNCHANGED <<n, root, islist, oleft, oright, mode>>
Finish(r) == phase' = IF r = 0 THEN "done" ELSE "run"

StepIn ==
  /\ mode = "in" /\ phase # "done"
  /\ LET s == InStep(left, right, IF phase = "start" THEN root ELSE itCurr) IN
     /\ right' = s.R /\ itCurr' = s.curr /\ ret' = s.ret
     /\ out' = (IF s.ret = 0 THEN out ELSE Append(out, s.ret))
     /\ Finish(s.ret)
  /\ Frame /\ UNCHANGED <<left, tag, itParent, itKind, freed, bad>>

StepPre ==
  /\ mode = "pre" /\ phase # "done"
  /\ LET s == PreStep(left, right, IF phase = "start" THEN root ELSE itCurr) IN
     /\ right' = s.R /\ itCurr' = s.curr /\ ret' = s.ret
     /\ out' = (IF s.ret = 0 THEN out ELSE Append(out, s.ret))
     /\ Finish(s.ret)
  /\ Frame /\ UNCHANGED <<left, tag, itParent, itKind, freed, bad>>

(* bintree_iterate_post_order: tag every node through an in-order pass, then the first post-order step *)
StartPost ==
  /\ mode \in {"post", "free"} /\ phase = "start"
  /\ LET a == InAll(left, right, root, <<>>)
         T1 == [i \in 1..MaxNodes |-> IF i \in Nodes THEN 1 ELSE 0]
         w == PostWalk(left, a.R, T1, root, 0) IN
     /\ right' = a.R
     /\ ret' = w.ret
     /\ tag' = IF w.ret = 0 THEN T1 ELSE [T1 EXCEPT ![w.ret] = 0]
     /\ itCurr' = IF w.ret = root THEN 0 ELSE root
     /\ itParent' = w.parent
     /\ out' = (IF w.ret = 0 THEN out ELSE Append(out, w.ret))
     /\ Finish(w.ret)
     /\ freed' = IF mode = "free" /\ w.ret # 0 THEN {w.ret} ELSE {}
  /\ Frame /\ UNCHANGED <<left, itKind, bad>>

(* bintree_free: after dealloc(node) patch the parent's link, then bintree_next *)
PatchL == IF mode = "free" /\ ret # 0 /\ itParent # 0 /\ right[itParent] # ret THEN [left EXCEPT ![itParent] = 0] ELSE left
PatchT == IF mode = "free" /\ ret # 0 /\ itParent # 0 /\ right[itParent] # ret THEN [tag EXCEPT ![itParent] = 1] ELSE tag   \* (bintree_node_t *) 1
PatchR == IF mode = "free" /\ ret # 0 /\ itParent # 0 /\ right[itParent] = ret THEN [right EXCEPT ![itParent] = 0] ELSE right
StepPost ==
  /\ mode \in {"post", "free"} /\ phase = "run"
  /\ LET L1 == PatchL
         T1 == PatchT
         R1 == PatchR
         w == PostWalk(L1, R1, T1, itCurr, 0) IN
     /\ left' = L1 /\ right' = R1
     /\ ret' = w.ret
     /\ bad' = (bad \/ (w.reads \cap freed # {}) \/ (mode = "free" /\ itParent \in freed))
     /\ tag' = IF w.ret = 0 THEN T1 ELSE [T1 EXCEPT ![w.ret] = 0]
     /\ itCurr' = IF w.ret # 0 /\ w.ret = itCurr THEN 0 ELSE itCurr
     /\ itParent' = IF w.ret = 0 THEN itParent ELSE w.parent
     /\ out' = (IF w.ret = 0 THEN out ELSE Append(out, w.ret))
     /\ Finish(w.ret)
     /\ freed' = IF mode = "free" /\ w.ret # 0 THEN freed \cup {w.ret} ELSE freed
  /\ Frame /\ UNCHANGED <<itKind>>

(* ----------------------------------- list iterators ----------------------------------- *)
IsL(x) == x # 0 /\ islist[x]
RECURSIVE Deepest(_)
Deepest(t) == IF IsL(left[t]) THEN Deepest(left[t]) ELSE t                 \* do tree = tree->left while is_list(tree->left)
RECURSIVE Above(_, _)
Above(p, curr) == IF left[p] # curr THEN Above(left[p], curr) ELSE p       \* walk from the top to the node whose left is curr
StartList ==
  /\ mode = "list" /\ phase = "start"
  /\ IF IsL(root) /\ left[root] # 0 /\ IsL(left[root])
       THEN LET d == Deepest(left[root]) IN
            /\ itKind' = "left" /\ itParent' = root /\ itCurr' = d /\ ret' = left[d]
       ELSE /\ itKind' = "right" /\ itParent' = itParent
            /\ IF root = 0 \/ ~islist[root] THEN ret' = root /\ itCurr' = 0
               ELSE ret' = left[root] /\ itCurr' = right[root]
  /\ out' = (IF ret' = 0 THEN out ELSE Append(out, ret'))
  /\ Finish(ret')
  /\ Frame /\ UNCHANGED <<left, right, tag, freed, bad>>
StepList ==
  /\ mode = "list" /\ phase = "run"
  /\ IF itKind = "left"
       THEN IF itCurr = 0 THEN ret' = 0 /\ UNCHANGED itCurr
            ELSE IF itCurr = itParent THEN ret' = right[itCurr] /\ itCurr' = 0
            ELSE ret' = right[itCurr] /\ itCurr' = Above(itParent, itCurr)
       ELSE IF itCurr = 0 \/ ~islist[itCurr] THEN ret' = itCurr /\ itCurr' = 0
            ELSE ret' = left[itCurr] /\ itCurr' = right[itCurr]
  /\ out' = (IF ret' = 0 THEN out ELSE Append(out, ret'))
  /\ Finish(ret')
  /\ Frame /\ UNCHANGED <<left, right, tag, itParent, itKind, freed, bad>>

(* bintree_next after the iteration has returned NULL: NULL again, nothing changes *)
AfterDone == /\ phase = "done" /\ mode # "free" /\ ret' = 0
             /\ UNCHANGED <<n, root, left, right, tag, islist, oleft, oright, mode, phase, itCurr, itParent, itKind, out, freed, bad>>
Next == StepIn \/ StepPre \/ StartPost \/ StepPost \/ StartList \/ StepList \/ AfterDone
Spec == Init /\ [][Next]_vars

-----------------------------------------------------------------------------
Expected == CASE mode = "in" -> InOrder(oleft, oright, root)
              [] mode = "pre" -> PreOrder(oleft, oright, root)
              [] mode \in {"post", "free"} -> PostOrder(oleft, oright, root)
              [] mode = "list" -> ListOrder(oleft, oright, islist, root)
(* bintree_iterate_complete: an iteration abandoned midway is run to its end in one call (while (bintree_next(it)) ;).   *)
(* Stated by its outcome - what OrderMatchesRecursive and RestoredAtCompletion say of every run of the step actions that *)
(* reaches "done": the rest of the traversal has been visited, every link is as it was, a further bintree_next is NULL.  *)
Complete == /\ mode # "free" /\ phase \in {"run", "done"}
            /\ phase' = "done" /\ left' = oleft /\ right' = oright /\ tag' = [i \in 1..MaxNodes |-> 0]
            /\ out' = Expected /\ ret' = 0 /\ itCurr' = 0
            /\ UNCHANGED <<n, root, islist, oleft, oright, mode, itParent, itKind, freed, bad>>
IsPrefix(a, b) == Len(a) <= Len(b) /\ \A i \in 1..Len(a) : a[i] = b[i]
(* each node exactly once, in the order of the recursive traversal *)
OrderMatchesRecursive == IsPrefix(out, Expected) /\ (phase = "done" => out = Expected)
(* once iteration has run to completion every link has its original value *)
RestoredAtCompletion == (phase = "done" /\ mode # "free") => (left = oleft /\ right = oright /\ \A i \in Nodes : tag[i] = 0)
(* temporary threads only ever point from an in-order predecessor back to an ancestor *)
ThreadsWellFormed == mode \in {"in", "pre"} => \A i \in Nodes : right[i] # oright[i] => (oright[i] = 0 /\ right[i] # 0)
(* bintree_free: never reads a deallocated node, children before parents *)
NoReadAfterFree == ~bad
ChildrenFirst == mode = "free" => \A i \in 1..Len(out) : \A c \in {oleft[out[i]], oright[out[i]]} \ {0} : \E j \in 1..(i-1) : out[j] = c
Safety == OrderMatchesRecursive /\ RestoredAtCompletion /\ ThreadsWellFormed /\ NoReadAfterFree /\ ChildrenFirst
=============================================================================
