------------------------------ MODULE TraceBits ------------------------------
(* Each event is one argument with the real functions' results and the C    *)
(* oracle's results; both must equal the definitions of Bits.tla.           *)
EXTENDS Bits, Json, IOUtils, TLC
T == ndJsonDeserialize(IOEnv.TRACE)
VARIABLE ti
B32OK(ev) ==
  LET b == BytesToBits(ev.x) IN
  /\ ev.bitcnt = PopCount(b) /\ ev.clz = Clz(b) /\ ev.ctz = Ctz(b)
  /\ ev.ilog2 = (IF PopCount(b) = 0 THEN -1 ELSE ILog2(b))
  /\ ev.o = <<PopCount(b), Clz(b), Ctz(b)>>          \* the sweep's oracle agrees with the definitions
B64OK(ev) ==
  LET b == BytesToBits(ev.c) IN
  /\ ev.pop = PopCount(b) /\ ev.lssb = Lssb(b)       \* run-time argument
  /\ ev.popk \in {-99, PopCount(b)} /\ ev.lssbk \in {-99, Lssb(b)}   \* compile-time constant (where the driver has one)
  /\ ev.o = <<PopCount(b), Lssb(b)>>
  /\ ev.lneg = (IF Lssb(b) < 0 THEN 1 ELSE 0) /\ ev.pneg = 0  \* the value itself, not something that merely converts to it
SweepOK(ev) == ev.bad = 0 /\ ev.n_hi > 0
TraceInit == ti = 1
TraceNext == /\ ti <= Len(T) /\ ti' = ti + 1
             /\ LET ev == T[ti] IN CASE ev.e = "B32" -> B32OK(ev) [] ev.e = "B64" -> B64OK(ev) [] ev.e = "Sweep32" -> SweepOK(ev)
                                     [] ev.e = "BSE" -> LET b == BytesToBits(ev.x) IN       \* argument with a side effect: the first value, evaluated once
                                          /\ ev.r = <<PopCount(b), Clz(b), Ctz(b), IF PopCount(b) = 0 THEN -1 ELSE ILog2(b)>> /\ ev.evals = <<1, 1, 1, 1>>
                                     [] ev.e = "K64neg" -> ev.lneg = ev.zero      \* constant expression: const_lssb(0) < 0, others >= 0 [] OTHER -> FALSE
TraceSpec == TraceInit /\ [][TraceNext]_ti
TraceAccepted ==
  LET d == TLCGet("stats").diameter IN
  IF d - 1 = Len(T) THEN TRUE ELSE Print(<<"TRACE_REJECTED_AT", d>>, FALSE)
=============================================================================
