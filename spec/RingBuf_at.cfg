INIT Init
NEXT Next
CONSTANTS
  BufLen = 2
  StartIdx = 1
  ProdProg <- PP_A
  ConsProg <- CP_A
  Discipline = "threads"
VIEW MCView
INVARIANT Safety
PROPERTIES NoOverwriteUnread PutFailJustified GetFailJustified EmptyFalseJustified
CHECK_DEADLOCK FALSE
