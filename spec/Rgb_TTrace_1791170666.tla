---- MODULE Rgb_TTrace_1791170666 ----
EXTENDS Sequences, TLCExt, Toolbox, Naturals, TLC, Rgb

_expression ==
    LET Rgb_TEExpression == INSTANCE Rgb_TEExpression
    IN Rgb_TEExpression!expression
----

_trace ==
    LET Rgb_TETrace == INSTANCE Rgb_TETrace
    IN Rgb_TETrace!trace
----

_inv ==
    ~(
        TLCGet("level") = Len(_TETrace)
        /\
        val = (0)
        /\
        goal = (0)
        /\
        from0 = (0)
        /\
        calls = (1)
        /\
        step = (1)
        /\
        done = (TRUE)
    )
----

_init ==
    /\ val = _TETrace[1].val
    /\ goal = _TETrace[1].goal
    /\ done = _TETrace[1].done
    /\ step = _TETrace[1].step
    /\ calls = _TETrace[1].calls
    /\ from0 = _TETrace[1].from0
----

_next ==
    /\ \E i,j \in DOMAIN _TETrace:
        /\ \/ /\ j = i + 1
              /\ i = TLCGet("level")
        /\ val  = _TETrace[i].val
        /\ val' = _TETrace[j].val
        /\ goal  = _TETrace[i].goal
        /\ goal' = _TETrace[j].goal
        /\ done  = _TETrace[i].done
        /\ done' = _TETrace[j].done
        /\ step  = _TETrace[i].step
        /\ step' = _TETrace[j].step
        /\ calls  = _TETrace[i].calls
        /\ calls' = _TETrace[j].calls
        /\ from0  = _TETrace[i].from0
        /\ from0' = _TETrace[j].from0

\* Uncomment the ASSUME below to write the states of the error trace
\* to the given file in Json format. Note that you can pass any tuple
\* to `JsonSerialize`. For example, a sub-sequence of _TETrace.
    \* ASSUME
    \*     LET J == INSTANCE Json
    \*         IN J!JsonSerialize("Rgb_TTrace_1791170666.json", _TETrace)

=============================================================================

 Note that you can extract this module `Rgb_TEExpression`
  to a dedicated file to reuse `expression` (the module in the 
  dedicated `Rgb_TEExpression.tla` file takes precedence 
  over the module `Rgb_TEExpression` below).

---- MODULE Rgb_TEExpression ----
EXTENDS Sequences, TLCExt, Toolbox, Naturals, TLC, Rgb

expression == 
    [
        \* To hide variables of the `Rgb` spec from the error trace,
        \* remove the variables below.  The trace will be written in the order
        \* of the fields of this record.
        val |-> val
        ,goal |-> goal
        ,done |-> done
        ,step |-> step
        ,calls |-> calls
        ,from0 |-> from0
        
        \* Put additional constant-, state-, and action-level expressions here:
        \* ,_stateNumber |-> _TEPosition
        \* ,_valUnchanged |-> val = val'
        
        \* Format the `val` variable as Json value.
        \* ,_valJson |->
        \*     LET J == INSTANCE Json
        \*     IN J!ToJson(val)
        
        \* Lastly, you may build expressions over arbitrary sets of states by
        \* leveraging the _TETrace operator.  For example, this is how to
        \* count the number of times a spec variable changed up to the current
        \* state in the trace.
        \* ,_valModCount |->
        \*     LET F[s \in DOMAIN _TETrace] ==
        \*         IF s = 1 THEN 0
        \*         ELSE IF _TETrace[s].val # _TETrace[s-1].val
        \*             THEN 1 + F[s-1] ELSE F[s-1]
        \*     IN F[_TEPosition - 1]
    ]

=============================================================================



Parsing and semantic processing can take forever if the trace below is long.
 In this case, it is advised to uncomment the module below to deserialize the
 trace from a generated binary file.

\*
\*---- MODULE Rgb_TETrace ----
\*EXTENDS IOUtils, TLC, Rgb
\*
\*trace == IODeserialize("Rgb_TTrace_1791170666.bin", TRUE)
\*
\*=============================================================================
\*

---- MODULE Rgb_TETrace ----
EXTENDS TLC, Rgb

trace == 
    <<
    ([val |-> 0,goal |-> 0,from0 |-> 0,calls |-> 0,step |-> 1,done |-> FALSE]),
    ([val |-> 0,goal |-> 0,from0 |-> 0,calls |-> 1,step |-> 1,done |-> TRUE])
    >>
----


=============================================================================

---- CONFIG Rgb_TTrace_1791170666 ----
CONSTANTS
    Max = 24
    MaxSteps = 6

INVARIANT
    _inv

CHECK_DEADLOCK
    \* CHECK_DEADLOCK off because of PROPERTY or INVARIANT above.
    FALSE

INIT
    _init

NEXT
    _next

CONSTANT
    _TETrace <- _trace

ALIAS
    _expression
=============================================================================
\* Generated on Mon Oct 05 03:24:27 UTC 2026