INIT Init
NEXT Next
CONSTANTS
  BufLen = 3
  StartIdx = 2
  ProdProg <- PP_W
  ConsProg <- CP_W
  Discipline = "irq"
VIEW MCView
INVARIANT Safety
PROPERTIES NoOverwriteUnread PutFailJustified GetFailJustified EmptyFalseJustified PEmptyJustified WaitEndsWithData
CHECK_DEADLOCK FALSE
