INIT Init
NEXT Next
CONSTANTS
  Cap = 4
  WrapAt = 11
  MaxId = 9
VIEW MCView
INVARIANT Safety
