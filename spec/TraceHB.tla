------------------------------ MODULE TraceHB ------------------------------
(* Feeds the memory events recorded by harness/vrt.c (every atomic operation *)
(* with the memory-order argument the code actually passed, every plain      *)
(* access to registered shared memory) to C11HB and requires NoRace after    *)
(* every step.  Works on the traces of all three concurrent drivers.         *)
EXTENDS C11HB, Json, IOUtils

T == ndJsonDeserialize(IOEnv.TRACE)
VARIABLES hb, ti

TraceInit == hb = HB0 /\ ti = 1
TraceNext ==
  /\ ti <= Len(T)
  /\ ti' = ti + 1
  /\ LET ev == T[ti] IN
     IF ev.e = "Reset" THEN hb' = HB0
     ELSE IF ev.e = "S" THEN hb' = ApplyAll(hb, ev.c, ev.hb, 1)
     ELSE hb' = hb
TraceSpec == TraceInit /\ [][TraceNext]_<<hb, ti>>

NoRace == hb.race = ""

TraceAccepted ==
  LET d == TLCGet("stats").diameter IN
  IF d - 1 = Len(T) THEN TRUE ELSE Print(<<"TRACE_REJECTED_AT", d>>, FALSE)
=============================================================================
