---------------------------- MODULE MessageQSeq ----------------------------
(* librfn/messageq.c as a sequential object (property C10): whole API calls  *)
(* are single actions, issued in any order the API permits - sends may be    *)
(* reordered among claimed messages, releases follow receives.               *)
(* Abstract state: `win`, the messages claimed and not yet released, oldest  *)
(* first, each [slot, st] with st in {"claimed","sent","held"}; `nclaims`    *)
(* the number of successful claims modulo depth.  Implementation image:      *)
(* numFree, sendp, flags, receivep exactly as messageq.c updates them; the   *)
(* invariant Refines ties the two together.                                  *)
EXTENDS Naturals, Integers, Sequences, FiniteSets

CONSTANTS Depth, MsgLen, Slack
VARIABLES geo,       \* [depth, msglen, slack]
          win, nclaims,
          numFree, sendp, flags, receivep,
          ret        \* result of the last call: byte offset of the returned buffer, -1 for NULL, 0/1 for empty

vars == <<geo, win, nclaims, numFree, sendp, flags, receivep, ret>>
MCView == <<geo, win, nclaims, numFree, sendp, flags, receivep>>

Start(g) == [win |-> <<>>, nclaims |-> 0, numFree |-> g.depth, sendp |-> 0, flags |-> {}, receivep |-> 0, ret |-> 0]
Init == /\ geo = [depth |-> Depth, msglen |-> MsgLen, slack |-> Slack]
        /\ win = <<>> /\ nclaims = 0 /\ numFree = Depth /\ sendp = 0 /\ flags = {} /\ receivep = 0 /\ ret = 0

NextIdx(i) == IF i >= geo.depth - 1 THEN 0 ELSE i + 1
Off(slot) == slot * geo.msglen

(* index in win of the first message that is not yet received, 0 if none *)
FirstUnreceived == IF \E i \in 1..Len(win) : win[i].st # "held"
                     THEN CHOOSE i \in 1..Len(win) : win[i].st # "held" /\ \A j \in 1..(i-1) : win[j].st = "held"
                     ELSE 0
CanReceive == FirstUnreceived # 0 /\ win[FirstUnreceived].st = "sent"

Claim ==
  /\ IF Len(win) >= geo.depth
       THEN ret' = -1 /\ UNCHANGED <<win, nclaims, numFree, sendp>>
       ELSE /\ win' = Append(win, [slot |-> nclaims, st |-> "claimed"])
            /\ nclaims' = NextIdx(nclaims)
            /\ ret' = Off(nclaims)
            /\ numFree' = numFree - 1
            /\ sendp' = NextIdx(sendp)
  /\ UNCHANGED <<geo, flags, receivep>>

Send(i) ==
  /\ i \in 1..Len(win) /\ win[i].st = "claimed"
  /\ win' = [win EXCEPT ![i].st = "sent"]
  /\ flags' = flags \cup {win[i].slot}
  /\ ret' = 0
  /\ UNCHANGED <<geo, nclaims, numFree, sendp, receivep>>

Receive ==
  /\ IF CanReceive
       THEN /\ win' = [win EXCEPT ![FirstUnreceived].st = "held"]
            /\ ret' = Off(win[FirstUnreceived].slot)
            /\ receivep' = NextIdx(receivep)
       ELSE ret' = -1 /\ UNCHANGED <<win, receivep>>
  /\ flags' = flags \ {receivep}
  /\ UNCHANGED <<geo, nclaims, numFree, sendp>>

(* release of the oldest received-and-unreleased message *)
Release ==
  /\ win # <<>> /\ win[1].st = "held"
  /\ win' = Tail(win)
  /\ numFree' = numFree + 1
  /\ ret' = Off(win[1].slot)          \* the buffer that is handed back (argument of the call)
  /\ UNCHANGED <<geo, nclaims, sendp, flags, receivep>>

Empty ==
  /\ ret' = IF CanReceive THEN 0 ELSE 1
  /\ UNCHANGED <<geo, win, nclaims, numFree, sendp, flags, receivep>>

(* n whole cycles (claim, send, receive, release) on an idle queue, nothing else in between: the cursors have advanced   *)
(* by n modulo the depth; adv = n % depth (the trace gives n, which may exceed 2^32, in 16-bit halves)                   *)
Cycles(adv) ==
  /\ win = <<>> /\ adv \in 0..(geo.depth - 1)
  /\ nclaims' = (nclaims + adv) % geo.depth /\ sendp' = (sendp + adv) % geo.depth /\ receivep' = (receivep + adv) % geo.depth
  /\ ret' = 0
  /\ UNCHANGED <<geo, win, numFree, flags>>

Next == Claim \/ Receive \/ Release \/ Empty \/ \E i \in 1..Depth : Send(i)
Spec == Init /\ [][Next]_vars

-----------------------------------------------------------------------------
(* the implementation image agrees with the abstract window *)
Refines ==
  /\ numFree = geo.depth - Len(win)
  /\ sendp = nclaims
  /\ flags = {win[i].slot : i \in {j \in 1..Len(win) : win[j].st = "sent"}}
  /\ receivep = IF FirstUnreceived # 0 THEN win[FirstUnreceived].slot ELSE nclaims
(* buffers in the window are distinct, cyclically consecutive slots inside the storage *)
Distinct ==
  /\ Len(win) <= geo.depth
  /\ \A i \in 1..Len(win) : win[i].slot \in 0..(geo.depth-1)
  /\ \A i \in 1..(Len(win)-1) : win[i+1].slot = NextIdx(win[i].slot)
  /\ \A i, j \in 1..Len(win) : i # j => win[i].slot # win[j].slot
(* messageq_empty (a load of the flag at receivep) is true exactly when receive would return nothing *)
EmptyIffNoReceive == (receivep \in flags) <=> CanReceive
Safety == Refines /\ Distinct /\ EmptyIffNoReceive
=============================================================================
