SPECIFICATION TraceSpec
CONSTANT Mode = "C13"
POSTCONDITION TraceAccepted
CHECK_DEADLOCK FALSE
