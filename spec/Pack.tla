-------------------------------- MODULE Pack --------------------------------
(* librfn/pack.c: bounds-checked packing/unpacking of bytes and fixed-order  *)
(* integers (property C12).  The buffer is a byte sequence of length `size`; *)
(* the cursor `p` may run past `size` - that is the sticky overflow state.   *)
(* Multi-byte values are byte tuples, most significant byte first, so that   *)
(* 32-bit quantities never meet TLC's integer limit.                         *)
EXTENDS Naturals, Integers, Sequences, FiniteSets

CONSTANTS MaxSize,   \* buffer sizes 0..MaxSize are initial states
          V16, V32,  \* sets of 2- and 4-byte values (tuples, MSB first) used by the bounded model
          MaxN,      \* rf_(un)pack_bytes lengths 0..MaxN
          MaxOps     \* state constraint

VARIABLES size, buf, p, touched, nops,
          res        \* result of the last call: a byte tuple (MSB first) for unpack operations, <<>> otherwise

vars == <<size, buf, p, touched, nops, res>>
MCView == <<size, buf, p, touched, nops>>

Pattern(i) == (i * 37 + 11) % 256          \* initial contents of byte i (1-based); pack_drv.c fills the buffer the same way
Rev(s) == [i \in 1..Len(s) |-> s[Len(s) + 1 - i]]
Zeros(n) == [i \in 1..n |-> 0]
Fits(sz) == p + sz <= size

Init == /\ size \in 0..MaxSize
        /\ buf = [i \in 1..size |-> Pattern(i)]
        /\ p = 0 /\ touched = {} /\ nops = 0 /\ res = <<>>

(* write `bytes` (sz of them) at the cursor iff they fit entirely; the cursor advances regardless.  `bytes` is only looked
   at when the item fits, so an item of 2^30 bytes that does not fit costs nothing to evaluate *)
PutSz(sz, bytes) ==
  /\ IF Fits(sz)
       THEN /\ buf' = [i \in 1..size |-> IF i > p /\ i <= p + sz THEN bytes[i - p] ELSE buf[i]]
            /\ touched' = touched \cup (p+1)..(p+sz)
       ELSE UNCHANGED <<buf, touched>>
  /\ p' = p + sz /\ res' = <<>> /\ nops' = nops + 1 /\ UNCHANGED size
Put(bytes) == PutSz(Len(bytes), bytes)

(* read sz bytes at the cursor iff they are all inside; zero otherwise *)
Get(sz) == IF Fits(sz) THEN SubSeq(buf, p + 1, p + sz) ELSE Zeros(sz)
Take(sz, r) == /\ res' = r /\ p' = p + sz /\ nops' = nops + 1 /\ UNCHANGED <<size, buf, touched>>

PackBytes(n, src) == TRUE /\ PutSz(n, IF src = "null" THEN Zeros(n) ELSE [i \in 1..n |-> (i * 16 + 1) % 256])   \* NULL source packs zeros
PackBytesV(bytes) == TRUE /\ Put(bytes)   \* (trace validation: any bytes)
PackS16le(v) == TRUE /\ Put(Rev(v))
PackU16le(v) == TRUE /\ Put(Rev(v))
PackU16be(v) == TRUE /\ Put(v)
PackS32le(v) == TRUE /\ Put(Rev(v))
PackU32le(v) == TRUE /\ Put(Rev(v))
(* (the leading TRUE makes each operation an action of its own for TLC's labels and coverage) *)
UnpackBytes(n, dst) == TRUE /\ Take(n, IF dst = "null" THEN <<>> ELSE Get(n))
(* Window abstraction used for buffers too large to write down (2^31 bytes and more): as long as every item requested so far
   ends inside the first w bytes, a buffer of any size >= w behaves on those bytes exactly like a buffer of size w - Fits is
   true in both.  (Checked on the bounded model by PrefixOfLarger.) *)
PrefixOfLarger == \A bigger \in size..(size + 2) : \A sz \in 0..4 : (p + sz <= size) => (Fits(sz) <=> p + sz <= bigger)   \* NULL destination skips; overflow zero-fills the array
UnpackChar == TRUE /\ Take(1, Get(1))
UnpackS8 == TRUE /\ Take(1, Get(1))
UnpackU8 == TRUE /\ Take(1, Get(1))
UnpackU16le == TRUE /\ Take(2, Rev(Get(2)))
UnpackU32le == TRUE /\ Take(4, Rev(Get(4)))
(* rf_pack_init again on the same memory (pack, then unpack what was packed) *)
Rewind == p' = 0 /\ res' = <<>> /\ nops' = nops + 1 /\ UNCHANGED <<size, buf, touched>>

Next == \/ \E n \in 0..MaxN, s \in {"null", "data"} : PackBytes(n, s) \/ UnpackBytes(n, s)
        \/ \E v \in V16 : PackS16le(v) \/ PackU16le(v) \/ PackU16be(v)
        \/ \E v \in V32 : PackS32le(v) \/ PackU32le(v)
        \/ UnpackChar \/ UnpackS8 \/ UnpackU8 \/ UnpackU16le \/ UnpackU32le \/ Rewind
Spec == Init /\ [][Next]_vars
(* any fixed-size operation given by its wire image (pack) or by size and byte order (unpack): what the operations the header
   declares but pack.c does not define yet must do if they ever appear *)
PackWire(bytes) == TRUE /\ Put(bytes)
UnpackWire(n, order) == TRUE /\ Take(n, IF order = "be" THEN Get(n) ELSE Rev(Get(n)))
(* rf_pack_init over exactly what has been consumed so far (pack, flip, unpack): the buffer is now the first p bytes *)
Flip == /\ p <= size /\ size' = p /\ buf' = SubSeq(buf, 1, p) /\ p' = 0 /\ touched' = {i \in touched : i <= p}
        /\ res' = <<>> /\ nops' = nops + 1
InitSim == Init /\ size = MaxSize        \* simulation configuration: one buffer size, long operation sequences
Bound == nops < MaxOps

-----------------------------------------------------------------------------
Consumed == p
Remaining == size - p              \* negative after overflow: the overflow stays visible
(* no byte outside the buffer is ever written *)
TouchedInside == touched \subseteq 1..size /\ Len(buf) = size
(* once an item did not fit, nothing later is transferred: the cursor never comes back *)
Sticky == [][(p > size /\ p' # 0) => (p' >= p /\ buf' = buf /\ (res' = <<>> \/ \A i \in 1..Len(res') : res'[i] = 0))]_vars
(* an item is transferred entirely or not at all *)
AllOrNothing == [][(p' # 0 /\ p' > size) => buf' = buf]_vars
(* le round trip: what PackU16le/U32le stored is what UnpackU16le/U32le returns from the same position *)
RoundTrip16 == \A v \in V16 : (p + 2 <= size /\ SubSeq(buf, p + 1, p + 2) = Rev(v)) => Rev(Get(2)) = v
=============================================================================
