------------------------------ MODULE TraceRand ------------------------------
EXTENDS Rand31, Sequences, Json, IOUtils, TLC
T == ndJsonDeserialize(IOEnv.TRACE)
VARIABLE ti
Val(p) == p[1] * 65536 + p[2]          \* states are below 2^31
ROK(ev) ==
  LET s == Val(ev.s) IN
  /\ s >= 1 /\ s <= M31 - 1
  /\ ev.r = AsPair(ParkMiller(s))       \* returned value
  /\ ev.seed = ev.r                     \* the state advances to the same value
  /\ ev.o = ev.r                        \* the sweep's 64-bit reference agrees with the definition
  /\ ParkMiller(s) \in 1..(M31 - 1)
SweepOK(ev) == ev.bad = 0 /\ ev.n = <<32767, 65534>>      \* all 2^31 - 2 states
TraceInit == ti = 1
TraceNext == /\ ti <= Len(T) /\ ti' = ti + 1
             /\ LET ev == T[ti] IN CASE ev.e = "R" -> ROK(ev) [] ev.e = "Sweep" -> SweepOK(ev) [] OTHER -> FALSE
TraceSpec == TraceInit /\ [][TraceNext]_ti
TraceAccepted ==
  LET d == TLCGet("stats").diameter IN
  IF d - 1 = Len(T) THEN TRUE ELSE Print(<<"TRACE_REJECTED_AT", d>>, FALSE)
=============================================================================
