INIT Init
NEXT Next
CONSTANTS
  Depth = 4
  MsgLen = 4
  Slack = 0
VIEW MCView
INVARIANT Safety
