----------------------------- MODULE MessageQHB -----------------------------
(* MessageQ composed with the C11 happens-before bookkeeping (C07 at design  *)
(* level): every interleaving TLC explores carries vector clocks, every      *)
(* atomic action publishes/acquires according to the memory order of its     *)
(* site, and every plain access to a message buffer or to the receiver's     *)
(* private index must be ordered (NoRace).  Sites listed in `Relaxed` use    *)
(* memory_order_relaxed, all others what the code uses (seq_cst): with       *)
(* Relaxed = {} NoRace must hold in every reachable state; relaxing a site   *)
(* that carries a hand-over must violate it (vacuity control).               *)
EXTENDS MessageQ, TLC
CONSTANTS NCtx, Relaxed
VARIABLE hb
INSTANCE C11HB

MO(op, v) == IF <<op, v>> \in Relaxed THEN 0 ELSE 5
A(op, v) == [k |-> "A", op |-> op, v |-> v, i |-> 0, mo |-> MO(op, v), x |-> 0]
FailedCas(v) == [k |-> "A", op |-> "load", v |-> v, i |-> 0, mo |-> MO("cas", v), x |-> 0]   \* a failed compare-exchange only loads
W(v, i) == [k |-> "W", op |-> "write", v |-> v, i |-> i, mo |-> 0, x |-> 0]
R(v, i) == [k |-> "R", op |-> "read", v |-> v, i |-> i, mo |-> 0, x |-> 0]

(* the memory events of the step context c is about to take (from the unprimed state) *)
Events(c) ==
  IF c = Rx THEN
    CASE pc[Rx] = "EmptyLoad" -> <<R("receivep", 0), A("load", "full_flags")>>
      [] pc[Rx] = "RecvAnd" -> <<R("receivep", 0), A("fetch_and", "full_flags")>>
                               \o (IF receivep \in flags THEN <<W("receivep", 0), R("slot", receivep)>> ELSE <<>>)
      [] pc[Rx] = "RelAdd" -> <<A("fetch_add", "num_free")>>
      [] OTHER -> <<>>
  ELSE
    CASE pc[c] = "ClaimDec" -> <<A("fetch_sub", "num_free")>>
      [] pc[c] = "ClaimUndo" -> <<A("fetch_add", "num_free")>>
      [] pc[c] = "ClaimLoad" -> <<A("load", "sendp")>>
      [] pc[c] = "ClaimCas" -> IF sendp = sp[c] THEN <<A("cas", "sendp"), W("slot", sp[c])>> ELSE <<FailedCas("sendp")>>
      [] pc[c] = "SendOr" -> <<A("fetch_or", "full_flags")>>
      [] OTHER -> <<>>

InitHB == Init /\ hb = HB0
StepHB(c) == Step(c) /\ hb' = ApplyAll(hb, c, Events(c), 1)
NextHB == StepHB(0) \/ \E c \in 1..NSenders : StepHB(c)
NoRace == hb.race = ""
ViewHB == <<MCView, hb>>
(* sets of relaxed sites for the vacuity configurations *)
None == {}
W_or == {<<"fetch_or", "full_flags">>}
W_and == {<<"fetch_and", "full_flags">>}
W_add == {<<"fetch_add", "num_free">>}
W_sub == {<<"fetch_sub", "num_free">>}
W_cas == {<<"cas", "sendp">>, <<"load", "sendp">>}
=============================================================================
