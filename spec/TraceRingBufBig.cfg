SPECIFICATION TraceSpec
CONSTANTS
  H = 65536
  Lens <- NoLens
  MaxOps = 0
POSTCONDITION TraceAccepted
CHECK_DEADLOCK FALSE
