------------------------------- MODULE Rand31 -------------------------------
(* librfn/rand.c (property C17): rand31_r is the Park-Miller minimal        *)
(* standard generator  s' = 16807 * s mod (2^31 - 1).                       *)
(* ParkMiller is the definition in Schrage's form (every intermediate value *)
(* fits TLC's 32-bit integers); Carta transcribes the code's division-free  *)
(* reduction with 32-bit words as <<hi16, lo16>> pairs.                     *)
EXTENDS Naturals, Integers

M31 == 2147483647
ParkMiller(s) ==    \* 16807 * s mod M31, Schrage: M31 = 16807 * 127773 + 2836
  LET t == 16807 * (s % 127773) - 2836 * (s \div 127773) IN IF t < 0 THEN t + M31 ELSE t

(* --- 32-bit unsigned words as <<hi, lo>> (each 0..65535) --- *)
W(h, l) == <<h % 65536, l % 65536>>
Add32(a, b) == LET l == a[2] + b[2] IN W(a[1] + b[1] + (l \div 65536), l)
FromSmall(x) == W(x \div 65536, x)           \* x < 2^31
Gt7fffffff(a) == a[1] >= 32768
Sub7fffffff(a) == Add32(a, <<32768, 1>>)     \* a - 0x7fffffff = a + 0x80000001 (mod 2^32)
Carta(s) ==
  LET lo0 == FromSmall(16807 * (s % 65536))              \* lo = 16807 * (seed & 0xffff)
      hi == 16807 * (s \div 65536)                       \* hi = 16807 * (seed >> 16)      (< 2^31 for seed < 2^31)
      lo1 == Add32(lo0, W(hi % 32768, 0))                \* lo += (hi & 0x7fff) << 16
      lo2 == Add32(lo1, FromSmall(hi \div 32768))        \* lo += hi >> 15
  IN IF Gt7fffffff(lo2) THEN Sub7fffffff(lo2) ELSE lo2   \* if (lo > 0x7fffffff) lo -= 0x7fffffff
AsPair(x) == <<x \div 65536, x % 65536>>
=============================================================================
