INIT Init
NEXT Next
CONSTANTS
  BufLen = 3
  StartIdx = 1
  ProdProg <- PP_C
  ConsProg <- CP_C
  Discipline = "threads"
VIEW MCView
INVARIANT Safety
PROPERTIES NoOverwriteUnread PutFailJustified GetFailJustified EmptyFalseJustified
CHECK_DEADLOCK FALSE
