-------------------------------- MODULE Rgb --------------------------------
(* Growth beyond the listed properties: librfn/rgb.c.                       *)
(*  - rgb_fader_init / rgb_fade: a cross-fade treats the packed colour as   *)
(*    ONE integer and walks it towards the goal in steps of                 *)
(*    (to - from) / nsteps (signed division, 0 replaced by 1).              *)
(*  - rgb_correct: per-channel table look-up, the top byte is dropped.      *)
(* The step is kept as a signed number here; the code stores it in a        *)
(* uint32_t, so its tests "step > 0" (always true, the step is never 0) and *)
(* "step < 0" (never true) are modelled as what they evaluate to.  Values   *)
(* are colours, i.e. below 2^24 (Max), which keeps everything inside TLC's  *)
(* integers; "the sign bit of from ^ to" is then "from + step < 0".         *)
EXTENDS Naturals, Integers, Sequences

CONSTANTS Max,        \* colours are 0..Max-1 (2^24 in the code; small in the bounded model)
          MaxSteps
VARIABLES goal, step, val, done, calls, from0
vars == <<goal, step, val, done, calls, from0>>

(* C's signed division truncates towards zero *)
TDiv(a, b) == IF a >= 0 THEN a \div b ELSE -((-a) \div b)
StepOf(from, to, n) == LET s == TDiv(to - from, n) IN IF s = 0 THEN 1 ELSE s

(* one rgb_fade call on (v, g, s): [val, done] *)
FadeF(v, g, s) ==
  LET next == v + s IN
  IF next < 0 THEN [val |-> g, done |-> TRUE]            \* wrapped below zero: the sign bit of from ^ to
  ELSE IF next >= g THEN [val |-> g, done |-> TRUE]      \* "step > 0 && to >= goal" with an unsigned step that is never 0
  ELSE [val |-> next, done |-> FALSE]

Init == /\ from0 \in 0..(Max-1) /\ goal \in 0..(Max-1)
        /\ \E n \in 1..MaxSteps : step = StepOf(from0, goal, n)
        /\ val = from0 /\ done = FALSE /\ calls = 0
Fade == /\ ~done /\ LET r == FadeF(val, goal, step) IN val' = r.val /\ done' = r.done
        /\ calls' = calls + 1 /\ UNCHANGED <<goal, step, from0>>
Next == Fade
Spec == Init /\ [][Next]_vars /\ WF_vars(Fade)

(* what does hold: every fade ends, on the goal, and an upward fade never leaves [from, goal] and never steps back *)
EndsOnGoal == done => val = goal
Terminates == <>done
UpwardInRange == (goal >= from0) => (val >= from0 /\ val <= goal)
(* what does NOT hold for a downward fade (goal < from): the very first call jumps to the goal if from + step >= goal, and
   otherwise the value runs on below the goal until it wraps.  DownwardGradual is violated by the code as it stands - a
   behaviour outside the twenty listed properties, recorded in DESIGN.md; Rgb_down.cfg shows the counterexample. *)
DownwardGradual == (goal < from0 /\ calls = 1 /\ from0 - goal > 1) => ~done \/ step <= goal - from0

(* rgb_correct *)
Correct(table, b) == <<table[b[1] + 1], table[b[2] + 1], table[b[3] + 1], 0>>      \* bytes least significant first; byte 3 dropped
GammaSane(table) == /\ Len(table) = 256 /\ table[1] = 0 /\ table[256] = 255
                    /\ \A i \in 1..255 : table[i] <= table[i + 1]
=============================================================================
