------------------------- MODULE TraceMessageQLoose -------------------------
(* Second opinion on a trace that TraceMessageQ rejected.                   *)
(*                                                                          *)
(* TraceMessageQ binds every recorded atomic operation to one action of     *)
(* MessageQ; it is deliberately implementation-shaped, so it also rejects   *)
(* an implementation that reaches the same results with different atomic    *)
(* operations (an extra load, a compare-exchange loop instead of a          *)
(* fetch_sub, two loads in the other order).  This module asks the          *)
(* question property C04 is about, at the grain of API calls: is the        *)
(* recorded history - which buffer each claim returned (or NULL), what      *)
(* empty / receive returned, the payload read from each received buffer,    *)
(* in the recorded real-time order - LINEARIZABLE with respect to the       *)
(* queue's contract?  Every call takes effect atomically at some instant    *)
(* between its first recorded step and the step that reports its result:    *)
(*   claim    hands out the buffer at the claim cursor, which must be free  *)
(*            (exclusive ownership), or fails - allowed only if every       *)
(*            buffer is owned or spoken for by another claim in progress    *)
(*            (the contract of the transiently negative counter);           *)
(*   send     marks the caller's buffer sent;                               *)
(*   empty    is true iff the buffer at the receive cursor is not sent;     *)
(*   receive  returns the buffer at the receive cursor iff it is sent       *)
(*            (claim order = delivery order), else NULL;                    *)
(*   release  frees the receiver's buffer.                                  *)
(* The payload read from a received buffer must be the one its claimer      *)
(* wrote.  Shared-variable snapshots, operation names and the number of     *)
(* atomic operations per call are ignored.  Plain accesses to the message   *)
(* buffers (recorded by the instrumentation, including block operations)    *)
(* must come from the context that holds the buffer.                        *)
(*                                                                          *)
(* Search: Invoke / Lin are silent steps, Consume eats one trace line.      *)
(* Lin(c) looks ahead to the result c will report, so that only             *)
(* linearization points consistent with the rest of the trace are explored. *)
(* Accepted iff some behaviour consumes the whole trace: TLC register 42    *)
(* holds the furthest line reached (one worker), judged by the              *)
(* postcondition.                                                           *)
EXTENDS Naturals, Integers, Sequences, FiniteSets, Json, IOUtils, TLC

T == ndJsonDeserialize(IOEnv.TRACE)

VARIABLES ti, geo,
          owner, pay, sendp, receivep,       \* the queue, abstractly
          phase, call, res, held, k          \* per context: "idle" | "pending" | "done"; current call; its result; buffer in hand; message / try number
vars == <<ti, geo, owner, pay, sendp, receivep, phase, call, res, held, k>>

Rx == 0
Ctx == 0..geo.ns
Slots == 0..(geo.depth - 1)
NextIdx(i) == IF i >= geo.depth - 1 THEN 0 ELSE i + 1
Busy == {s \in Slots : owner[s] # "free"}
Atomic == {"claim", "send", "empty", "receive", "release"}

FirstCall(c) == IF c = Rx THEN "empty" ELSE "claim"
Finished(c) == call[c] = "none"

ResetA(g) ==
  /\ geo' = [depth |-> g.depth, ns |-> g.ns, mp |-> g.mp, rt |-> g.rt]
  /\ owner' = [s \in 0..(g.depth - 1) |-> "free"] /\ pay' = [s \in 0..(g.depth - 1) |-> 0]
  /\ sendp' = 0 /\ receivep' = 0
  /\ phase' = [c \in 0..g.ns |-> "idle"]
  /\ call' = [c \in 0..g.ns |-> IF c = 0 THEN "empty" ELSE "claim"]
  /\ res' = [c \in 0..g.ns |-> 0] /\ held' = [c \in 0..g.ns |-> -1] /\ k' = [c \in 0..g.ns |-> 1]

TraceInit ==
  /\ ti = 1 /\ geo = [depth |-> 1, ns |-> 1, mp |-> 1, rt |-> 1]
  /\ owner = [s \in {0} |-> "free"] /\ pay = [s \in {0} |-> 0] /\ sendp = 0 /\ receivep = 0
  /\ phase = [c \in 0..1 |-> "idle"] /\ call = [c \in 0..1 |-> "none"] /\ res = [c \in 0..1 |-> 0]
  /\ held = [c \in 0..1 |-> -1] /\ k = [c \in 0..1 |-> 1]
  /\ TLCSet(42, 0)

(* the next result context c reports in this execution: 0 if the trace (or the execution) ends first *)
RECURSIVE FindRep(_, _)
FindRep(c, j) == IF j > Len(T) \/ T[j].e = "Reset" THEN 0
                 ELSE IF T[j].e = "S" /\ T[j].c = c /\ T[j].calls # <<>> THEN j ELSE FindRep(c, j + 1)
WillReport(c, r) == LET j == FindRep(c, ti) IN IF j = 0 THEN TRUE ELSE (T[j].calls[1].n = call[c] /\ T[j].calls[1].r = r)

(* the first recorded step of a call: the call is in progress from here on *)
Invoke ==
  /\ ti <= Len(T) /\ T[ti].e = "S" /\ T[ti].c \in Ctx
  /\ phase[T[ti].c] = "idle" /\ ~Finished(T[ti].c)
  /\ phase' = [phase EXCEPT ![T[ti].c] = "pending"]
  /\ UNCHANGED <<ti, geo, owner, pay, sendp, receivep, call, res, held, k>>

OthersClaiming(c) == {d \in Ctx : d # c /\ call[d] = "claim" /\ (phase[d] = "pending" \/ (phase[d] = "done" /\ res[d] = -1))}

Done(c, r) == /\ phase' = [phase EXCEPT ![c] = "done"] /\ res' = [res EXCEPT ![c] = r] /\ WillReport(c, r)

Lin(c) ==
  /\ phase[c] = "pending"
  /\ CASE call[c] = "claim" ->
            \/ /\ owner[sendp] = "free"                                        \* exclusive ownership
               /\ owner' = [owner EXCEPT ![sendp] = "claimed"] /\ held' = [held EXCEPT ![c] = sendp]
               /\ sendp' = NextIdx(sendp) /\ Done(c, sendp)
               /\ UNCHANGED <<pay, receivep>>
            \/ /\ Cardinality(Busy) + Cardinality(OthersClaiming(c)) >= geo.depth   \* a failure must be justified
               /\ Done(c, -1) /\ UNCHANGED <<owner, pay, sendp, receivep, held>>
       [] call[c] = "send" ->
            /\ held[c] \in Slots /\ owner[held[c]] = "claimed"
            /\ owner' = [owner EXCEPT ![held[c]] = "sent"] /\ Done(c, held[c])
            /\ held' = [held EXCEPT ![c] = -1] /\ UNCHANGED <<pay, sendp, receivep>>
       [] call[c] = "empty" ->
            /\ Done(c, IF owner[receivep] = "sent" THEN 0 ELSE 1) /\ UNCHANGED <<owner, pay, sendp, receivep, held>>
       [] call[c] = "receive" ->
            IF owner[receivep] = "sent"
              THEN /\ owner' = [owner EXCEPT ![receivep] = "held"] /\ held' = [held EXCEPT ![c] = receivep]
                   /\ receivep' = NextIdx(receivep) /\ Done(c, receivep) /\ UNCHANGED <<pay, sendp>>
              ELSE Done(c, -1) /\ UNCHANGED <<owner, pay, sendp, receivep, held>>
       [] call[c] = "release" ->
            /\ held[c] \in Slots /\ owner[held[c]] = "held"
            /\ owner' = [owner EXCEPT ![held[c]] = "free"] /\ Done(c, held[c])
            /\ held' = [held EXCEPT ![c] = -1] /\ UNCHANGED <<pay, sendp, receivep>>
  /\ UNCHANGED <<ti, geo, call, k>>

(* program order: what c calls after `n` returned r *)
After(c, n, r) ==
  IF c = Rx THEN (IF n = "empty" THEN [call |-> "receive", k |-> k[c]]
                  ELSE IF n = "receive" /\ r >= 0 THEN [call |-> "release", k |-> k[c]]
                  ELSE [call |-> IF k[c] >= geo.rt THEN "none" ELSE "empty", k |-> k[c] + 1])
  ELSE (IF n = "claim" /\ r >= 0 THEN [call |-> "send", k |-> k[c]]
        ELSE [call |-> IF k[c] >= geo.mp THEN "none" ELSE "claim", k |-> k[c] + 1])

(* plain accesses reported with a call: the claimer's payload write, the receiver's payload read *)
PlainOK(c, calls, heldNow) ==
  \A i \in 2..Len(calls) :
     \/ calls[i].n = "write" /\ c # Rx /\ heldNow \in Slots
     \/ calls[i].n = "read" /\ c = Rx /\ heldNow \in Slots /\ calls[i].r = pay[heldNow]
PayAfter(c, calls, heldNow) ==
  IF \E i \in 2..Len(calls) : calls[i].n = "write"
    THEN [pay EXCEPT ![heldNow] = calls[CHOOSE i \in 2..Len(calls) : calls[i].n = "write"].r]
    ELSE pay

Consume ==
  /\ ti <= Len(T) /\ ti' = ti + 1
  /\ LET ev == T[ti] IN
     CASE ev.e = "Reset" -> ResetA(ev.g)
       [] ev.e = "BadStep" -> UNCHANGED <<geo, owner, pay, sendp, receivep, phase, call, res, held, k>>
       [] ev.e = "S" ->
            LET c == ev.c IN
            /\ c \in Ctx /\ phase[c] # "idle"
            \* memory side of exclusive ownership: a plain access to a message buffer is made by the context that holds it
            \* (the call that takes or gives up the buffer has taken effect - Lin - before the step that reports it is consumed)
            /\ \A j \in 1..Len(ev.hb) : (ev.hb[j].k \in {"R", "W"} /\ ev.hb[j].v = "slot") => held[c] = ev.hb[j].i
            /\ IF ev.calls = <<>>
                 THEN UNCHANGED <<geo, owner, pay, sendp, receivep, phase, call, res, held, k>>
                 ELSE /\ phase[c] = "done"
                      /\ ev.calls[1].n = call[c] /\ ev.calls[1].r = res[c]
                      /\ PlainOK(c, ev.calls, held[c])
                      /\ pay' = PayAfter(c, ev.calls, held[c])
                      /\ phase' = [phase EXCEPT ![c] = "idle"]
                      /\ call' = [call EXCEPT ![c] = After(c, call[c], res[c]).call]
                      /\ k' = [k EXCEPT ![c] = After(c, call[c], res[c]).k]
                      /\ UNCHANGED <<geo, owner, sendp, receivep, res, held>>
       [] OTHER -> FALSE

TraceNext == Invoke \/ (\E c \in Ctx : Lin(c)) \/ Consume
TraceSpec == TraceInit /\ [][TraceNext]_vars

Furthest == TLCSet(42, IF TLCGet(42) < ti THEN ti ELSE TLCGet(42))     \* state constraint, always TRUE
Report == IF TLCGet(42) > Len(T) THEN PrintT("LOOSE_ACCEPTED") ELSE PrintT(<<"LOOSE_FURTHEST_EVENT", TLCGet(42)>>)
=============================================================================
