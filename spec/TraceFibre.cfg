SPECIFICATION TraceSpec
CONSTANTS
  NF = 14
  MaxT = 1000000
  AtomCap = 8
  MaxAtomMC = 8
  MaxBody = 1000
  BackSteps = 1000000
  AtomicOrder = "arrival"
INVARIANT Safety
POSTCONDITION TraceAccepted
CHECK_DEADLOCK FALSE
PROPERTY NeverEarly
