SPECIFICATION TraceSpec
CONSTANTS
  MaxNodes = 13
  Modes = {"in", "pre", "post", "free", "list"}
INVARIANT Safety
POSTCONDITION TraceAccepted
CHECK_DEADLOCK FALSE
