SPECIFICATION TraceSpec
CONSTANTS
  Cap = 50000
  MaxD = 0
  MaxW = 0
  Unbounded = 2147483647
  Thresh = 1000
  CapMode = "min"
  OnSignal = "return"
  Exact = FALSE
POSTCONDITION TraceAccepted
CHECK_DEADLOCK FALSE
