SPECIFICATION FairSpec
CONSTANTS
  MainProg <- MP4
  IsrProg <- IP_F
  AQDepth = 8
  EQDepth = 2
  SPeriod = 2
  Discipline = "irq"
  MaxNest = 2
  LoopForever = TRUE
  FastPathChecksAtomicQ = TRUE
  Sleeper = FALSE
  SRun = FALSE
INVARIANT Safety
PROPERTIES AcceptedLeadsToDispatch SentLeadsToSeen
CHECK_DEADLOCK FALSE
