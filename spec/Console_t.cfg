INIT Init
NEXT Next
CONSTANTS
  BufCap = 80
  TableCap = 32
  Alphabet <- AlphaMC
  NamePool <- NamesMC
  MaxChars = 6
VIEW MCView
CONSTRAINT Bound
INVARIANT Safety
CHECK_DEADLOCK FALSE
