------------------------------- MODULE List -------------------------------
(* librfn/list.c: singly linked list with head and (possibly stale) tail.   *)
(* Two images of the same state are kept side by side: the abstract         *)
(* sequence `seq` (what the property talks about) and the pointer image     *)
(* head/tail/next updated exactly as list.c updates it, including the tail  *)
(* pointer that is left stale when a list becomes empty and the pseudo node *)
(* containerof(&list->head) used by list_iterator_remove.  The refinement   *)
(* invariant Refines ties the two together in every reachable state.        *)
EXTENDS Naturals, Integers, Sequences, FiniteSets

CONSTANTS NNodes,      \* nodes are 1..NNodes, 0 is NULL
          NLists,      \* lists are 1..NLists
          MaxOps       \* bound on history length (state constraint only)

Nodes == 1..NNodes
KeyTab == <<50000, 100000, 100000, 150000, 50000, 150000, 100000, 50000>>   \* list_drv.c has the same table: ties, and differences that do not fit 16 bits
Key == [n \in 1..NNodes |-> KeyTab[((n - 1) % 8) + 1]]                     \* sort key of node n
Lists == 1..NLists
Nil == 0
Pseudo(l) == 0 - l      \* the "node" whose next field is list l's head

VARIABLES seq,          \* [Lists -> Seq(Nodes)]           abstract
          head, tail,   \* [Lists -> Nodes \cup {Nil} ...]  pointer image
          next,         \* [Nodes -> Nodes \cup {Nil}]
          itl, itp,     \* iterator: list (0 = no live iterator), and the
                        \* node whose next link prevnext points at (0 = head link)
          ret,          \* return value of the last call
          ops           \* unused history counter (kept 0; bounded configs need no bound: the space is finite)

vars == <<seq, head, tail, next, itl, itp, ret, ops>>

Range(s) == {s[i] : i \in 1..Len(s)}
Member(n) == \E l \in Lists : n \in Range(seq[l])
IndexOf(s, n) == CHOOSE i \in 1..Len(s) : s[i] = n
RemoveAt(s, i) == SubSeq(s, 1, i-1) \o SubSeq(s, i+1, Len(s))
InsertAt(s, i, n) == SubSeq(s, 1, i-1) \o <<n>> \o SubSeq(s, i, Len(s))

(* position of the iterator in the abstract sequence: the element that      *)
(* *(prevnext) designates is seq[itl][ItPos]; Len+1 = past the end.         *)
ItPos == IF itp = Nil THEN 1 ELSE IndexOf(seq[itl], itp) + 1

Init == /\ seq = [l \in Lists |-> <<>>]
        /\ head = [l \in Lists |-> Nil]
        /\ tail = [l \in Lists |-> Nil]
        /\ next = [n \in Nodes |-> Nil]
        /\ itl = 0 /\ itp = Nil
        /\ ret = 0
        /\ ops = 0

Tick == ops' = ops
KillIter(l) == IF itl = l THEN itl' = 0 /\ itp' = Nil ELSE UNCHANGED <<itl, itp>>
(* A live iterator is a pointer to a link: the head link, or the next field of its predecessor node itp.  It survives every
   list-level operation except the removal of that predecessor (its link then belongs to a node outside the list). *)
KeepIterUnless(l, gone) == IF itl = l /\ itp # Nil /\ itp = gone THEN itl' = 0 /\ itp' = Nil ELSE UNCHANGED <<itl, itp>>

(* ---- list_insert: append at the tail ---- *)
Insert(l, n) ==
  /\ ~Member(n)
  /\ seq' = [seq EXCEPT ![l] = Append(@, n)]
  /\ IF head[l] # Nil
       THEN next' = [next EXCEPT ![tail[l]] = n] /\ head' = head
       ELSE head' = [head EXCEPT ![l] = n] /\ next' = next
  /\ tail' = [tail EXCEPT ![l] = n]
  /\ ret' = 0 /\ UNCHANGED <<itl, itp>> /\ Tick

(* ---- list_push: insert at the head ---- *)
Push(l, n) ==
  /\ ~Member(n)
  /\ seq' = [seq EXCEPT ![l] = <<n>> \o @]
  /\ IF head[l] # Nil
       THEN next' = [next EXCEPT ![n] = head[l]] /\ tail' = tail
       ELSE tail' = [tail EXCEPT ![l] = n] /\ next' = next
  /\ head' = [head EXCEPT ![l] = n]
  /\ ret' = 0 /\ UNCHANGED <<itl, itp>> /\ Tick

(* ---- list_insert_sorted with comparator Key[a] - Key[b] ---- *)
SortedPos(s, n) ==   \* index before which n goes: first element with larger key
  IF \E i \in 1..Len(s) : Key[n] < Key[s[i]]
    THEN CHOOSE i \in 1..Len(s) : Key[n] < Key[s[i]] /\ \A j \in 1..(i-1) : Key[n] >= Key[s[j]]
    ELSE Len(s) + 1
InsertSorted(l, n) ==
  /\ ~Member(n)
  /\ LET s == seq[l] IN
     IF head[l] = Nil THEN
        /\ head' = [head EXCEPT ![l] = n] /\ tail' = [tail EXCEPT ![l] = n] /\ next' = next
        /\ seq' = [seq EXCEPT ![l] = <<n>>]
     ELSE IF Key[n] >= Key[tail[l]] THEN
        /\ next' = [next EXCEPT ![tail[l]] = n] /\ tail' = [tail EXCEPT ![l] = n] /\ head' = head
        /\ seq' = [seq EXCEPT ![l] = Append(@, n)]
     ELSE LET i == SortedPos(s, n) IN   \* i <= Len(s) here, so never at the end
        /\ seq' = [seq EXCEPT ![l] = InsertAt(s, i, n)]
        /\ IF i = 1 THEN head' = [head EXCEPT ![l] = n] /\ next' = [next EXCEPT ![n] = s[1]]
                    ELSE head' = head /\ next' = [next EXCEPT ![s[i-1]] = n, ![n] = s[i]]
        /\ tail' = tail
  /\ ret' = 0 /\ UNCHANGED <<itl, itp>> /\ Tick

(* ---- list_extract: pop the head; the tail is NOT touched (stale when the list empties) ---- *)
Extract(l) ==
  /\ IF head[l] = Nil
       THEN ret' = Nil /\ UNCHANGED <<seq, head, next>>
       ELSE /\ ret' = head[l]
            /\ head' = [head EXCEPT ![l] = next[head[l]]]
            /\ next' = [next EXCEPT ![head[l]] = Nil]
            /\ seq' = [seq EXCEPT ![l] = Tail(@)]
  /\ tail' = tail
  /\ KeepIterUnless(l, head[l]) /\ Tick

(* ---- iterator primitives on the pointer image ---- *)
LinkVal(l, p) == IF p = Nil THEN head[l] ELSE next[p]         \* *(prevnext)
PrevNode(l, p) == IF p = Nil THEN Pseudo(l) ELSE p            \* containerof(prevnext)

(* pointer-level removal of the node *(prevnext) designates, as list_iterator_remove does *)
PtrRemove(l, p) ==
  LET curr == LinkVal(l, p) IN
  /\ tail' = IF tail[l] = curr THEN [tail EXCEPT ![l] = PrevNode(l, p)] ELSE tail
  /\ IF p = Nil
       THEN head' = [head EXCEPT ![l] = next[curr]] /\ next' = [next EXCEPT ![curr] = Nil]
       ELSE head' = head /\ next' = [next EXCEPT ![p] = next[curr], ![curr] = Nil]

(* ---- list_contains(list, node, NULL) ---- *)
Contains(l, n) ==
  /\ ret' = IF n \in Range(seq[l]) THEN 1 ELSE 0
  /\ UNCHANGED <<seq, head, tail, next, itl, itp>> /\ Tick

(* ---- the list_t object itself is copied to other storage (struct assignment) while no iterator refers to it: ---- *)
(* ---- a list_t only refers to nodes, so nothing observable changes, whatever emptied or filled the list before ---- *)
Relocate(l) ==
  /\ itl # l
  /\ ret' = 0
  /\ UNCHANGED <<seq, head, tail, next, itl, itp>> /\ Tick

(* ---- list_contains(list, node, &iter): leaves the iterator at the node (or past the end) ---- *)
ContainsIter(l, n) ==
  /\ ret' = IF n \in Range(seq[l]) THEN 1 ELSE 0
  /\ itl' = l
  /\ itp' = LET s == seq[l] IN
            IF n \in Range(s) THEN (IF IndexOf(s, n) = 1 THEN Nil ELSE s[IndexOf(s, n) - 1])
            ELSE (IF s = <<>> THEN Nil ELSE s[Len(s)])
  /\ UNCHANGED <<seq, head, tail, next>> /\ Tick

(* ---- list_remove ---- *)
Remove(l, n) ==
  /\ IF n \in Range(seq[l])
       THEN LET i == IndexOf(seq[l], n)
                p == IF i = 1 THEN Nil ELSE seq[l][i-1] IN
            /\ ret' = 1
            /\ seq' = [seq EXCEPT ![l] = RemoveAt(@, i)]
            /\ PtrRemove(l, p)
       ELSE ret' = 0 /\ UNCHANGED <<seq, head, tail, next>>
  /\ KeepIterUnless(l, IF n \in Range(seq[l]) THEN n ELSE Nil) /\ Tick

(* ---- list_iterate ---- *)
Iterate(l) ==
  /\ itl' = l /\ itp' = Nil
  /\ ret' = head[l]
  /\ UNCHANGED <<seq, head, tail, next>> /\ Tick

(* ---- list_iterator_next ---- *)
IterNext ==
  /\ itl # 0
  /\ LET curr == LinkVal(itl, itp) IN
     IF curr # Nil THEN itp' = curr /\ ret' = next[curr]
                   ELSE itp' = itp /\ ret' = Nil
  /\ UNCHANGED <<seq, head, tail, next, itl>> /\ Tick

(* ---- list_iterator_insert: new node goes before the current one; iterator then designates the new node ---- *)
IterInsert(n) ==
  /\ itl # 0 /\ ~Member(n)
  /\ LET l == itl
         curr == LinkVal(l, itp) IN
     /\ seq' = [seq EXCEPT ![l] = InsertAt(@, ItPos, n)]
     /\ IF itp = Nil THEN head' = [head EXCEPT ![l] = n] /\ next' = [next EXCEPT ![n] = curr]
                     ELSE head' = head /\ next' = [next EXCEPT ![itp] = n, ![n] = curr]
     /\ tail' = IF curr = Nil THEN [tail EXCEPT ![l] = n] ELSE tail
  /\ ret' = 0
  /\ UNCHANGED <<itl, itp>> /\ Tick

(* ---- list_iterator_remove (precondition: not past the end) ---- *)
IterRemove ==
  /\ itl # 0
  /\ LinkVal(itl, itp) # Nil
  /\ LET l == itl
         curr == LinkVal(l, itp) IN
     /\ seq' = [seq EXCEPT ![l] = RemoveAt(@, ItPos)]
     /\ PtrRemove(l, itp)
     /\ ret' = next[curr]
  /\ UNCHANGED <<itl, itp>> /\ Tick

Next == \/ \E l \in Lists, n \in Nodes : Insert(l, n) \/ Push(l, n) \/ InsertSorted(l, n)
                                        \/ Remove(l, n) \/ Contains(l, n) \/ ContainsIter(l, n)
        \/ \E l \in Lists : Extract(l) \/ Iterate(l)
        \/ IterNext \/ IterRemove
        \/ \E n \in Nodes : IterInsert(n)

Spec == Init /\ [][Next]_vars

MCView == <<seq, head, tail, next, itl, itp>>   \* ret is an output only

-----------------------------------------------------------------------------
(* Properties *)

RECURSIVE Walk(_, _, _)
Walk(n, nx, fuel) == IF n = Nil \/ fuel = 0 THEN <<>> ELSE <<n>> \o Walk(nx[n], nx, fuel - 1)

TypeOK == /\ \A l \in Lists : head[l] \in Nodes \cup {Nil}
          /\ \A n \in Nodes : next[n] \in Nodes \cup {Nil}

(* the pointer image, traversed from head, is the abstract sequence *)
Refines == \A l \in Lists : Walk(head[l], next, NNodes + 1) = seq[l]

(* tail is right whenever it is meaningful (head non-NULL) *)
TailValid == \A l \in Lists : head[l] # Nil => tail[l] = seq[l][Len(seq[l])]

(* a node outside every list is immediately reusable: next = NULL *)
FreeNodesUnlinked == \A n \in Nodes : ~Member(n) => next[n] = Nil

(* no node in two lists or twice in one *)
NoDup == /\ \A l \in Lists : Cardinality(Range(seq[l])) = Len(seq[l])
         /\ \A l1, l2 \in Lists : l1 # l2 => Range(seq[l1]) \cap Range(seq[l2]) = {}

(* the iterator's pointer image is consistent with an abstract position *)
IterOK == itl # 0 => (itp = Nil \/ itp \in Range(seq[itl]))

IsSorted(s) == \A i \in 1..(Len(s)-1) : Key[s[i]] <= Key[s[i+1]]

(* sorted insertion into a sorted list keeps it sorted, new node after existing equals *)
SortedStable ==
  [][\A l \in Lists, n \in Nodes :
       (InsertSorted(l, n) /\ IsSorted(seq[l])) =>
          /\ IsSorted(seq'[l])
          /\ LET i == IndexOf(seq'[l], n) IN
               /\ \A j \in 1..(i-1) : Key[seq'[l][j]] <= Key[n]
               /\ \A j \in (i+1)..Len(seq'[l]) : Key[seq'[l][j]] > Key[n]
               /\ RemoveAt(seq'[l], i) = seq[l]]_vars
=============================================================================
