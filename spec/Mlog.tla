-------------------------------- MODULE Mlog --------------------------------
(* librfn/mlog.c (property C20): the last Cap messages, oldest first.       *)
(* Abstract side: `win` = the most recent (at most Cap) message ids since   *)
(* the last clear, `cnt` = min(number of messages since the clear, Cap).    *)
(* Implementation image: `head` (message counter, folded back by Cap once   *)
(* it reaches WrapAt) and `slot` (ring of Cap entries), updated as mlog.c   *)
(* does; GetImpl is get_line() on that image.  Refines: both agree on every *)
(* index, across the fold.                                                  *)
(* `known` counts how many of the newest entries are known to the model:    *)
(* after the verification hook SetCount(c) (which moves the counter without *)
(* logging) reads are meaningful again once Cap messages have been logged.  *)
EXTENDS Naturals, Integers, Sequences

CONSTANTS Cap, WrapAt, MaxId
VARIABLES win, cnt, head, slot, known, nextId, ret
vars == <<win, cnt, head, slot, known, nextId, ret>>
MCView == <<win, cnt, head, slot, known, nextId>>

Init == /\ win = <<>> /\ cnt = 0 /\ head = 0 /\ slot = [i \in 0..(Cap-1) |-> -1]
        /\ known = 0 /\ nextId = 0 /\ ret = <<>>

Min(a, b) == IF a < b THEN a ELSE b
Push(w, id) == IF Len(w) < Cap THEN Append(w, id) ELSE Append(Tail(w), id)

DoLog(id) ==
  /\ win' = Push(win, id)
  /\ cnt' = Min(cnt + 1, Cap)
  /\ known' = Min(known + 1, Cap)
  /\ slot' = [slot EXCEPT ![head % Cap] = id]
  /\ head' = IF head + 1 >= WrapAt THEN head + 1 - Cap ELSE head + 1

Log(id) == DoLog(id) /\ nextId' = (id + 1) % MaxId /\ ret' = <<>>
(* n >= Cap messages nextId, nextId+1, ... in a row, nothing read in between: the closed form of n times Log (checked        *)
(* against the iteration by BurstIsIteratedLog in Mlog_mc); every intermediate value stays below 2^31 for n <= 2^30           *)
HeadAfter(h, n) == LET room == WrapAt - 1 - h IN           \* messages that still fit before the counter reaches WrapAt - 1
                   IF n <= room THEN h + n ELSE WrapAt - Cap + ((n - room - 1) % Cap)
BurstF(st, n) ==
  [win |-> [i \in 1..Cap |-> (st.nextId + (n - Cap) + (i - 1)) % MaxId],
   cnt |-> Cap, known |-> Cap,
   slot |-> [j \in 0..(Cap-1) |->
               LET i == CHOOSE i \in 1..Cap : ((st.head % Cap) + ((n - Cap + i - 1) % Cap)) % Cap = j IN (st.nextId + (n - Cap) + (i - 1)) % MaxId],
   head |-> HeadAfter(st.head, n),
   nextId |-> ((st.nextId % MaxId) + (n % MaxId)) % MaxId]
LogF(st) ==
  [win |-> Push(st.win, st.nextId), cnt |-> Min(st.cnt + 1, Cap), known |-> Min(st.known + 1, Cap),
   slot |-> [st.slot EXCEPT ![st.head % Cap] = st.nextId],
   head |-> IF st.head + 1 >= WrapAt THEN st.head + 1 - Cap ELSE st.head + 1,
   nextId |-> (st.nextId + 1) % MaxId]
RECURSIVE IterF(_, _)
IterF(st, n) == IF n = 0 THEN st ELSE IterF(LogF(st), n - 1)
Now == [win |-> win, cnt |-> cnt, known |-> known, slot |-> slot, head |-> head, nextId |-> nextId]
BurstIsIteratedLog == \A n \in Cap..(3 * Cap + 3) : BurstF(Now, n) = IterF(Now, n)
Burst(n) ==
  /\ n >= Cap
  /\ LET r == BurstF(Now, n) IN
     /\ win' = r.win /\ cnt' = r.cnt /\ known' = r.known /\ slot' = r.slot /\ head' = r.head /\ nextId' = r.nextId
  /\ ret' = <<>>
(* mlog_nice: only while fewer than Cap messages have been recorded since the clear *)
Nice(id) == /\ IF cnt < Cap THEN DoLog(id) ELSE UNCHANGED <<win, cnt, head, slot, known>>
            /\ nextId' = (id + 1) % MaxId /\ ret' = <<>>
Clear == /\ win' = <<>> /\ cnt' = 0 /\ known' = 0 /\ head' = 0 /\ ret' = <<>> /\ UNCHANGED <<slot, nextId>>

(* the property: line k is message n - min(n,Cap) + k, NULL (-1) for every other k *)
GetAbs(k) == IF k >= 0 /\ k < cnt THEN win[Len(win) - cnt + k + 1] ELSE -1
(* get_line() of mlog.c on the implementation image *)
GetImpl(k) == IF k < 0 \/ k >= head \/ k >= Cap THEN -1
              ELSE slot[(IF head >= Cap THEN k + head ELSE k) % Cap]
Readable == known >= cnt
Read(k) == Readable /\ ret' = <<GetAbs(k)>> /\ UNCHANGED <<win, cnt, head, slot, known, nextId>>
Dump == Readable /\ ret' = [k \in 1..cnt |-> GetAbs(k - 1)] /\ UNCHANGED <<win, cnt, head, slot, known, nextId>>
(* verification hook: as if c messages (c >= Cap) had been logged since the clear, contents unknown *)
SetCount(c) == /\ c >= Cap /\ c < WrapAt
               /\ head' = c /\ cnt' = Cap /\ known' = 0 /\ win' = <<>> /\ ret' = <<>> /\ UNCHANGED <<slot, nextId>>

Next == Log(nextId) \/ Nice(nextId) \/ Clear \/ Dump \/ (\E k \in -1..(Cap+1) : Read(k))
Spec == Init /\ [][Next]_vars

Refines == Readable => \A k \in -2..(Cap+1) : GetImpl(k) = GetAbs(k)
CntIsMin == cnt = Min(head, Cap) /\ head < WrapAt
Safety == Refines /\ CntIsMin /\ BurstIsIteratedLog
=============================================================================
