------------------------------- MODULE Rotenc -------------------------------
(* librfn/rotenc.c (property C19): quadrature decoder.                      *)
(* pos     quarter-step position, modulo PosMod (2^16 in the code)          *)
(* last    previous 2-bit encoder state                                     *)
(* latched value of pos the last time the encoder rested at the detent (0)  *)
(* Readings: Count = clicks (latched \div 4) modulo CntMod (2^8);           *)
(*           Count14 = the same latched clicks modulo C14Mod (2^14).        *)
EXTENDS Naturals, Integers

CONSTANTS PosMod, CntMod, C14Mod
VARIABLES last, pos, latched, clean    \* clean: no invalid two-bit jump so far (ghost)
vars == <<last, pos, latched, clean>>

(* Gray sequence 0 -> 1 -> 3 -> 2 -> 0 is clockwise *)
CW == {<<0, 1>>, <<1, 3>>, <<3, 2>>, <<2, 0>>}
ACW == {<<0, 2>>, <<2, 3>>, <<3, 1>>, <<1, 0>>}

Init == last = 0 /\ pos = 0 /\ latched = 0 /\ clean = TRUE
Decode(s) ==
  /\ s \in 0..3
  /\ pos' = IF <<last, s>> \in CW THEN (pos + 1) % PosMod
            ELSE IF <<last, s>> \in ACW THEN (pos + PosMod - 1) % PosMod
            ELSE pos                                  \* repeated state or invalid jump: ignored, so bounce cancels exactly
  /\ last' = s
  /\ latched' = IF s = 0 THEN pos' ELSE latched       \* latch only at the detent
  /\ clean' = (clean /\ (s = last \/ <<last, s>> \in CW \cup ACW))
Next == \E s \in 0..3 : Decode(s)
Spec == Init /\ [][Next]_vars

Count == (latched \div 4) % CntMod
Count14 == (latched \div 4) % C14Mod

TypeOK == last \in 0..3 /\ pos \in 0..(PosMod-1) /\ latched \in 0..(PosMod-1)
LowBitsAgree == Count14 % CntMod = Count
CycDist(a, b) == LET d == (a + PosMod - b) % PosMod IN IF d > PosMod \div 2 THEN PosMod - d ELSE d
(* with single-bit histories the latched reading is never more than one click from the true position *)
WithinOneClick == clean => CycDist(pos, latched) < 4
(* ... because the phase of pos is tied to the state *)
PhaseLocked == clean => (pos % 4 = (CASE last = 0 -> 0 [] last = 1 -> 1 [] last = 3 -> 2 [] last = 2 -> 3))
Safety == TypeOK /\ LowBitsAgree /\ WithinOneClick /\ PhaseLocked
=============================================================================
