------------------------------ MODULE FibreIrq ------------------------------
(* librfn/fibre.c + messageq.c with interrupt-context callers (properties   *)
(* C06, C03 interrupt part, C07).                                           *)
(*                                                                          *)
(* The main context runs  fibre_scheduler_next(MainProg[1]), ...(MainProg[2]) *)
(* ... at the grain of its atomic operations: the slow-path test, the drain *)
(* loop of handle_atomic_runq (called from the pass and from the fibre_run  *)
(* that re-queues a yielded fibre), the event fibre's receive / release     *)
(* loop, and the final check in get_next_wakeup.  Plain code between two    *)
(* atomic operations (list manipulation, timers, dispatch of the fibres'    *)
(* bodies) is folded into the step of the atomic operation before it.       *)
(* Fibres: H = 1 handles events (PT_WAIT_UNTIL(receive); copy; release),    *)
(* Y = 2 yields for ever, S = 3 sleeps with period SPeriod.                 *)
(* Interrupt contexts 1..Len(IsrProg) each make one call:                   *)
(*   [k |-> "run", a |-> f]      fibre_run_atomic(f)                        *)
(*   [k |-> "event", a |-> id]   fibre_eventq_claim / write id /            *)
(*                               fibre_eventq_send                          *)
(* Discipline "irq": handlers nest run-to-completion (depth <= MaxNest)     *)
(* above the main context; "threads": free preemption.                      *)
EXTENDS Naturals, Integers, Sequences, FiniteSets

CONSTANTS MainProg, IsrProg, AQDepth, EQDepth, SPeriod, Discipline, MaxNest,
          LoopForever, \* TRUE: after the last entry of MainProg the main loop keeps calling fibre_scheduler_next with the same time (liveness configurations)
          FastPathChecksAtomicQ,  \* TRUE (the code): the single-yielder fast path is not taken while an atomic request is pending; FALSE only in the vacuity configuration
          Sleeper,    \* TRUE: the sleeping fibre S is started; FALSE: Y is the only runnable fibre (single-yielder fast path)
          SRun        \* TRUE: every time S is dispatched it first calls fibre_run(H) (a drain of the interrupt-safe queue in the
                      \* middle of its own dispatch), and only then asks for its timeout

H == 1
Y == 2
S == 3
Unbounded == -2

VARIABLES cfg,      \* [main, isr, eqd, period]: constant during an execution (a variable so that one trace file can hold many configurations)
          m,        \* main context and scheduler state (private to the main context)
          aq, eq,   \* the atomic run queue and H's event queue: [nf, sp, fl, rp, val]
          taint,    \* kernel.taint_flags as a set of letters
          isr,      \* [i -> [pc, sp, slot]]
          stack,
          acc,      \* ghost: fibres with an accepted fibre_run_atomic request not yet followed by their dispatch
          claimed,  \* ghost: event ids in claim order
          sentOk,   \* ghost: event ids whose fibre_eventq_send returned true
          seen,     \* ghost/observed: event ids copied by H, in order
          obs
vars == <<cfg, m, aq, eq, taint, isr, stack, acc, claimed, sentOk, seen, obs>>
MCView == <<cfg, m, aq, eq, taint, isr, stack, acc, claimed, sentOk, seen>>

Isrs == 1..Len(cfg.isr)
Range(s) == {s[i] : i \in 1..Len(s)}
Without(s, f) == SelectSeq(s, LAMBDA x : x # f)
Q0(depth) == [nf |-> depth, sp |-> 0, fl |-> {}, rp |-> 0, val |-> [i \in 0..(depth-1) |-> 0], depth |-> depth]
QAt(depth, st) == [Q0(depth) EXCEPT !.sp = st, !.rp = st]     \* an empty queue whose cursors stand at slot st (a queue with a history)
NextIdx(q, i) == IF i >= q.depth - 1 THEN 0 ELSE i + 1
Signed8(v) == IF v >= 128 THEN v - 256 ELSE v

(* ------------------------- plain code of the main context ------------------------- *)
MakeRunnable(mm, f) == IF f \in Range(mm.runq) THEN mm ELSE [mm EXCEPT !.runq = Append(@, f), !.timerq = Without(@, f)]

RECURSIVE SBody(_, _)
(* S: for (;;) { wake += SPeriod; PT_WAIT_UNTIL(fibre_timeout(wake)); }   - entered at the PT_WAIT_UNTIL *)
SBody(g, mm) == IF mm.wake <= mm.now THEN SBody(g, [mm EXCEPT !.wake = @ + g.period])
             ELSE [mm EXCEPT !.timerq = IF S \in Range(@) \/ S \in Range(mm.runq) THEN @ ELSE Append(@, S),
                             !.kstate = "waiting", !.pc = "Wake"]

RECURSIVE PassStart(_, _), EndPass(_, _, _), Dispatch(_, _)
(* from the call of fibre_scheduler_next(MainProg[k]) to its first atomic operation *)
PassStart(g, mm) ==
  IF mm.k > Len(g.main) /\ ~LoopForever THEN [mm EXCEPT !.pc = "Done"]
  ELSE LET kk == IF mm.k > Len(g.main) THEN Len(g.main) ELSE mm.k
           m1 == [mm EXCEPT !.now = g.main[kk], !.k = kk] IN
       IF m1.kstate = "yielded" /\ m1.runq = <<>> /\ m1.timerq = <<>>
         THEN [m1 EXCEPT !.pc = "SlowTest"]                 \* last operand of the || chain: !messageq_empty(&kernel.atomic_runq)
         ELSE [m1 EXCEPT !.pc = "Drain", !.site = "pass"]
(* the pass returns `ret`; the main loop immediately makes the next call *)
EndPass(g, mm, ret) == PassStart(g, [mm EXCEPT !.k = @ + 1, !.last = <<ret, mm.current>>,
                                              !.passes = IF LoopForever THEN (@ + 1) % 2 ELSE @ + 1])
Dispatch(g, m0) ==
  LET mm == IF m0.current = 0 THEN m0 ELSE [m0 EXCEPT !.ndisp = (@ + 1) % 2] IN   \* ndisp toggles at every dispatch (ghost; at most one dispatch per step)
  CASE mm.current = 0 -> [mm EXCEPT !.pc = "Wake"]
    [] mm.current = Y -> EndPass(g, [mm EXCEPT !.kstate = "yielded"], mm.now)      \* yielded: return kernel.now at once
    [] mm.current = S -> IF g.srun THEN [mm EXCEPT !.pc = "Drain", !.site = "srun"] ELSE SBody(g, mm)
    [] mm.current = H -> [mm EXCEPT !.pc = "HRecv"]
(* handle_timerq + get_next_task + dispatch *)
AfterUpdate(g, mm) ==
  LET exp == IF S \in Range(mm.timerq) /\ mm.wake <= mm.now THEN <<S>> ELSE <<>>
      rq == mm.runq \o exp
      m1 == [mm EXCEPT !.timerq = IF exp = <<>> THEN @ ELSE Without(@, S),
                       !.runq = IF rq = <<>> THEN <<>> ELSE Tail(rq),
                       !.current = IF rq = <<>> THEN 0 ELSE Head(rq)]
  IN Dispatch(g, m1)
(* handle_atomic_runq found the queue empty: continue after the call site *)
AfterDrain(g, mm) ==
  IF mm.site = "pass"
    THEN IF mm.current # 0 /\ mm.kstate = "yielded"
           THEN [mm EXCEPT !.pc = "Drain", !.site = "yieldrun"]          \* update_current_state: fibre_run(current) drains first
           ELSE AfterUpdate(g, mm)
    ELSE IF mm.site = "srun"
    THEN SBody(g, MakeRunnable(mm, H))                                      \* S's own fibre_run(H): drained, H queued; now fibre_timeout
    ELSE AfterUpdate(g, MakeRunnable(mm, mm.current))                       \* ... then queues the yielder

M0(g) == [pc |-> "x", site |-> "pass", k |-> 1, now |-> 0, slot |-> 0, runq |-> IF g.sleeper THEN <<Y, S>> ELSE <<Y>>, timerq |-> <<>>, wake |-> 0,
       current |-> 0, kstate |-> "yielded", last |-> <<0, 0>>, passes |-> 0, ndisp |-> 0]

Start(g) ==
  [m |-> PassStart(g, M0(g)), aq |-> QAt(AQDepth, g.aqstart), eq |-> QAt(g.eqd, g.eqstart),
   isr |-> [i \in 1..Len(g.isr) |-> [pc |-> IF g.isr[i].k = "run" THEN "RDec" ELSE "EDec", sp |-> 0, slot |-> -1]]]
Cfg0 == [main |-> MainProg, isr |-> IsrProg, eqd |-> EQDepth, period |-> SPeriod, sleeper |-> Sleeper, eqstart |-> 0, aqstart |-> 0, srun |-> SRun]
Init ==
  /\ cfg = Cfg0
  /\ m = Start(Cfg0).m /\ aq = Start(Cfg0).aq /\ eq = Start(Cfg0).eq /\ isr = Start(Cfg0).isr
  /\ taint = {} /\ stack = <<>> /\ acc = {} /\ claimed = <<>> /\ sentOk = {} /\ seen = <<>>
  /\ obs = [c |-> -1, op |-> "", var |-> "", calls |-> <<>>]

(* ------------------------------- scheduling of contexts ------------------------------- *)
InStack(c) == \E i \in 1..Len(stack) : stack[i] = c
Runnable(c) ==
  IF c = 0 THEN m.pc # "Done" /\ (Discipline = "threads" \/ stack = <<>>)
  ELSE /\ isr[c].pc # "Done"
       /\ \/ Discipline = "threads"
          \/ (stack # <<>> /\ stack[Len(stack)] = c)
          \/ (~InStack(c) /\ Len(stack) < MaxNest)
Sched(c, newpc) ==
  IF Discipline = "threads" \/ c = 0 THEN stack' = stack
  ELSE LET st1 == IF InStack(c) THEN stack ELSE Append(stack, c) IN
       stack' = IF newpc = "Done" THEN SubSeq(st1, 1, Len(st1) - 1) ELSE st1
Obs(c, op, var, calls) == obs' = [c |-> c, op |-> op, var |-> var, calls |-> calls]
Call(n, r) == [n |-> n, r |-> r]
PassCalls(m1) == IF m1.passes # m.passes THEN <<Call("ret", m1.last[1]), Call("self", m1.last[2])>> ELSE <<>>

(* ------------------------------- main context steps ------------------------------- *)
(* a dispatch of f answers every request for f accepted before it *)
Acc(m1) == acc' = IF m1.ndisp # m.ndisp THEN acc \ {IF m1.passes # m.passes THEN m1.last[2] ELSE m1.current} ELSE acc
MainFrame == UNCHANGED <<cfg, taint, isr, claimed, sentOk>> /\ Sched(0, "x")

SlowTest ==
  /\ m.pc = "SlowTest" /\ Runnable(0)
  /\ LET m1 == IF FastPathChecksAtomicQ /\ aq.rp \in aq.fl THEN [m EXCEPT !.pc = "Drain", !.site = "pass"]
               ELSE Dispatch(cfg, m)                                       \* fast path: no scheduler update at all
     IN m' = m1 /\ Obs(0, "load", "aq_flags", PassCalls(m1)) /\ Acc(m1)
  /\ UNCHANGED <<aq, eq, seen>> /\ MainFrame

(* messageq_receive in handle_atomic_runq: fetch_and clears the flag at receivep *)
Drain ==
  /\ m.pc = "Drain" /\ Runnable(0)
  /\ IF aq.rp \in aq.fl
       THEN /\ aq' = [aq EXCEPT !.fl = @ \ {aq.rp}, !.rp = NextIdx(aq, aq.rp)]
            /\ m' = [m EXCEPT !.pc = "DrainRead", !.slot = aq.rp]
            /\ Obs(0, "fetch_and", "aq_flags", <<>>)
            /\ acc' = acc
       ELSE /\ aq' = aq
            /\ LET m1 == AfterDrain(cfg, m) IN
               /\ m' = m1 /\ Obs(0, "fetch_and", "aq_flags", PassCalls(m1)) /\ Acc(m1)
  /\ UNCHANGED <<eq, seen>> /\ MainFrame

(* fibre pointer read from the received slot (plain access, a preemption point of its own), then queued *)
DrainRead ==
  /\ m.pc = "DrainRead" /\ Runnable(0)
  /\ m' = [MakeRunnable(m, aq.val[m.slot]) EXCEPT !.pc = "Release"]
  /\ Obs(0, "read", "aq_slot", <<>>)
  /\ UNCHANGED <<aq, eq, seen, acc>> /\ MainFrame

Release ==
  /\ m.pc = "Release" /\ Runnable(0)
  /\ aq' = [aq EXCEPT !.nf = (@ + 1) % 256]
  /\ m' = [m EXCEPT !.pc = "Drain"]
  /\ Obs(0, "fetch_add", "aq_num_free", <<>>)
  /\ UNCHANGED <<eq, seen, acc>> /\ MainFrame

(* H:  PT_WAIT_UNTIL(NULL != (evt = fibre_eventq_receive(q))); copy; fibre_eventq_release(q, evt);  (loop) *)
HRecv ==
  /\ m.pc = "HRecv" /\ Runnable(0)
  /\ IF eq.rp \in eq.fl
       THEN /\ eq' = [eq EXCEPT !.fl = @ \ {eq.rp}, !.rp = NextIdx(eq, eq.rp)]
            /\ seen' = seen
            /\ m' = [m EXCEPT !.pc = "HRead", !.slot = eq.rp]
            /\ Obs(0, "fetch_and", "eq_flags", <<>>)
       ELSE /\ eq' = eq /\ seen' = seen
            /\ m' = [m EXCEPT !.kstate = "waiting", !.pc = "Wake"]
            /\ Obs(0, "fetch_and", "eq_flags", <<>>)
  /\ UNCHANGED <<aq, acc>> /\ MainFrame

HRead ==      \* the handler copies the event out of the buffer (plain access)
  /\ m.pc = "HRead" /\ Runnable(0)
  /\ seen' = Append(seen, eq.val[m.slot])
  /\ m' = [m EXCEPT !.pc = "HRel"]
  /\ Obs(0, "read", "eq_slot", <<Call("seen", eq.val[m.slot])>>)
  /\ UNCHANGED <<aq, eq, acc>> /\ MainFrame

HRel ==
  /\ m.pc = "HRel" /\ Runnable(0)
  /\ eq' = [eq EXCEPT !.nf = (@ + 1) % 256]
  /\ m' = [m EXCEPT !.pc = "HRecv"]
  /\ Obs(0, "fetch_add", "eq_num_free", <<>>)
  /\ UNCHANGED <<aq, seen, acc>> /\ MainFrame

(* get_next_wakeup: the final check for interrupt-context requests *)
WakeRet == IF aq.rp \in aq.fl \/ m.runq # <<>> THEN m.now
           ELSE IF m.timerq = <<>> THEN Unbounded ELSE m.wake
Wake ==
  /\ m.pc = "Wake" /\ Runnable(0)
  /\ LET m1 == EndPass(cfg, m, WakeRet) IN m' = m1 /\ Obs(0, "load", "aq_flags", PassCalls(m1))
  /\ UNCHANGED <<aq, eq, seen, acc>> /\ MainFrame

(* ------------------------------- interrupt contexts ------------------------------- *)
IsrFrame(c, newpc) == UNCHANGED <<cfg, m, seen>> /\ Sched(c, newpc)
Set(c, pc2, sp2, slot2) == isr' = [isr EXCEPT ![c] = [pc |-> pc2, sp |-> sp2, slot |-> slot2]]
Target(c) == IF cfg.isr[c].k = "run" THEN cfg.isr[c].a ELSE H

(* fibre_run_atomic: messageq_claim on the atomic run queue *)
RDec(c) ==
  /\ c \in Isrs /\ isr[c].pc = "RDec" /\ Runnable(c)
  /\ aq' = [aq EXCEPT !.nf = (@ + 255) % 256]
  /\ Set(c, IF Signed8(aq.nf) <= 0 THEN "RUndo" ELSE "RLoad", isr[c].sp, isr[c].slot)
  /\ Obs(c, "fetch_sub", "aq_num_free", <<>>)
  /\ UNCHANGED <<eq, taint, acc, claimed, sentOk>> /\ IsrFrame(c, "x")
RUndo(c) ==
  /\ c \in Isrs /\ isr[c].pc = "RUndo" /\ Runnable(c)
  /\ aq' = [aq EXCEPT !.nf = (@ + 1) % 256]
  /\ Set(c, "RTaint", isr[c].sp, isr[c].slot)
  /\ Obs(c, "fetch_add", "aq_num_free", <<>>)
  /\ UNCHANGED <<eq, taint, acc, claimed, sentOk>> /\ IsrFrame(c, "x")
RTaint(c) ==      \* add_taint('A'); return false   (for an event: fibre_eventq_send returns false)
  /\ c \in Isrs /\ isr[c].pc = "RTaint" /\ Runnable(c)
  /\ taint' = taint \cup {"A"}
  /\ Set(c, "Done", isr[c].sp, isr[c].slot)
  /\ Obs(c, "fetch_or", "taint", <<Call(IF cfg.isr[c].k = "run" THEN "run_atomic" ELSE "send", 0)>>)
  /\ UNCHANGED <<aq, eq, acc, claimed, sentOk>> /\ IsrFrame(c, "Done")
RLoad(c) ==
  /\ c \in Isrs /\ isr[c].pc = "RLoad" /\ Runnable(c)
  /\ Set(c, "RCas", aq.sp, isr[c].slot)
  /\ Obs(c, "load", "aq_sendp", <<>>)
  /\ UNCHANGED <<aq, eq, taint, acc, claimed, sentOk>> /\ IsrFrame(c, "x")
RCas(c) ==
  /\ c \in Isrs /\ isr[c].pc = "RCas" /\ Runnable(c)
  /\ IF aq.sp = isr[c].sp
       THEN /\ aq' = [aq EXCEPT !.sp = NextIdx(aq, isr[c].sp)]
            /\ Set(c, "RWrite", isr[c].sp, isr[c].sp)
       ELSE /\ aq' = aq /\ Set(c, "RCas", aq.sp, isr[c].slot)
  /\ Obs(c, "cas", "aq_sendp", <<>>)
  /\ UNCHANGED <<eq, taint, acc, claimed, sentOk>> /\ IsrFrame(c, "x")
RWrite(c) ==      \* *queued_fibre = f  (plain store into the claimed slot, before the send)
  /\ c \in Isrs /\ isr[c].pc = "RWrite" /\ Runnable(c)
  /\ aq' = [aq EXCEPT !.val[isr[c].slot] = Target(c)]
  /\ Set(c, "ROr", isr[c].sp, isr[c].slot)
  /\ Obs(c, "write", "aq_slot", <<>>)
  /\ UNCHANGED <<eq, taint, acc, claimed, sentOk>> /\ IsrFrame(c, "x")
ROr(c) ==
  /\ c \in Isrs /\ isr[c].pc = "ROr" /\ Runnable(c)
  /\ aq' = [aq EXCEPT !.fl = @ \cup {isr[c].slot}]
  /\ Set(c, "Done", isr[c].sp, -1)
  /\ acc' = acc \cup {Target(c)}
  /\ sentOk' = IF cfg.isr[c].k = "event" THEN sentOk \cup {cfg.isr[c].a} ELSE sentOk
  /\ Obs(c, "fetch_or", "aq_flags", <<Call(IF cfg.isr[c].k = "run" THEN "run_atomic" ELSE "send", 1)>>)
  /\ UNCHANGED <<eq, taint, claimed>> /\ IsrFrame(c, "Done")

(* fibre_eventq_claim / write / fibre_eventq_send *)
EDec(c) ==
  /\ c \in Isrs /\ isr[c].pc = "EDec" /\ Runnable(c)
  /\ eq' = [eq EXCEPT !.nf = (@ + 255) % 256]
  /\ Set(c, IF Signed8(eq.nf) <= 0 THEN "EUndo" ELSE "ELoad", isr[c].sp, isr[c].slot)
  /\ Obs(c, "fetch_sub", "eq_num_free", <<>>)
  /\ UNCHANGED <<aq, taint, acc, claimed, sentOk>> /\ IsrFrame(c, "x")
EUndo(c) ==
  /\ c \in Isrs /\ isr[c].pc = "EUndo" /\ Runnable(c)
  /\ eq' = [eq EXCEPT !.nf = (@ + 1) % 256]
  /\ Set(c, "ETaint", isr[c].sp, isr[c].slot)
  /\ Obs(c, "fetch_add", "eq_num_free", <<>>)
  /\ UNCHANGED <<aq, taint, acc, claimed, sentOk>> /\ IsrFrame(c, "x")
ETaint(c) ==      \* add_taint('E'); claim returned NULL: the event is dropped by the caller
  /\ c \in Isrs /\ isr[c].pc = "ETaint" /\ Runnable(c)
  /\ taint' = taint \cup {"E"}
  /\ Set(c, "Done", isr[c].sp, isr[c].slot)
  /\ Obs(c, "fetch_or", "taint", <<Call("claim", -1)>>)
  /\ UNCHANGED <<aq, eq, acc, claimed, sentOk>> /\ IsrFrame(c, "Done")
ELoad(c) ==
  /\ c \in Isrs /\ isr[c].pc = "ELoad" /\ Runnable(c)
  /\ Set(c, "ECas", eq.sp, isr[c].slot)
  /\ Obs(c, "load", "eq_sendp", <<>>)
  /\ UNCHANGED <<aq, eq, taint, acc, claimed, sentOk>> /\ IsrFrame(c, "x")
ECas(c) ==
  /\ c \in Isrs /\ isr[c].pc = "ECas" /\ Runnable(c)
  /\ IF eq.sp = isr[c].sp
       THEN /\ eq' = [eq EXCEPT !.sp = NextIdx(eq, isr[c].sp)]
            /\ claimed' = Append(claimed, cfg.isr[c].a)
            /\ Set(c, "EWrite", isr[c].sp, isr[c].sp)
            /\ Obs(c, "cas", "eq_sendp", <<Call("claim", isr[c].sp)>>)
       ELSE /\ eq' = eq /\ claimed' = claimed /\ Set(c, "ECas", eq.sp, isr[c].slot)
            /\ Obs(c, "cas", "eq_sendp", <<>>)
  /\ UNCHANGED <<aq, taint, acc, sentOk>> /\ IsrFrame(c, "x")
EWrite(c) ==      \* the caller fills in the event (plain store)
  /\ c \in Isrs /\ isr[c].pc = "EWrite" /\ Runnable(c)
  /\ eq' = [eq EXCEPT !.val[isr[c].slot] = cfg.isr[c].a]
  /\ Set(c, "EOr", isr[c].sp, isr[c].slot)
  /\ Obs(c, "write", "eq_slot", <<>>)
  /\ UNCHANGED <<aq, taint, acc, claimed, sentOk>> /\ IsrFrame(c, "x")
EOr(c) ==         \* messageq_send(&evtq->eventq, evtp): publish the message BEFORE posting the wake-up
  /\ c \in Isrs /\ isr[c].pc = "EOr" /\ Runnable(c)
  /\ eq' = [eq EXCEPT !.fl = @ \cup {isr[c].slot}]
  /\ Set(c, "RDec", isr[c].sp, -1)
  /\ Obs(c, "fetch_or", "eq_flags", <<>>)
  /\ UNCHANGED <<aq, taint, acc, claimed, sentOk>> /\ IsrFrame(c, "x")

MainStep == SlowTest \/ Drain \/ DrainRead \/ Release \/ HRecv \/ HRead \/ HRel \/ Wake
IsrStep(c) == RDec(c) \/ RUndo(c) \/ RTaint(c) \/ RLoad(c) \/ RCas(c) \/ RWrite(c) \/ ROr(c) \/ EWrite(c)
              \/ EDec(c) \/ EUndo(c) \/ ETaint(c) \/ ELoad(c) \/ ECas(c) \/ EOr(c)
Step(c) == IF c = 0 THEN MainStep ELSE IsrStep(c)
Next == MainStep \/ \E c \in 1..Len(IsrProg) : IsrStep(c)
Spec == Init /\ [][Next]_vars
(* liveness: the main loop keeps running, every started interrupt handler finishes *)
FairSpec == Init /\ [][Next]_vars /\ WF_vars(MainStep) /\ \A c \in 1..Len(IsrProg) : WF_vars(IsrStep(c))
(* a wake-up whose fibre_run_atomic returned true is followed by a dispatch of its fibre without further stimulus *)
AcceptedLeadsToDispatch == \A f \in {H, Y, S} : (f \in acc) ~> (f \notin acc)
(* an event whose fibre_eventq_send returned true is eventually seen by the handler *)
SentLeadsToSeen == \A c \in 1..Len(IsrProg) : (IsrProg[c].k = "event" /\ IsrProg[c].a \in sentOk) ~> (\E i \in 1..Len(seen) : seen[i] = IsrProg[c].a)

-----------------------------------------------------------------------------
(* C06 *)
PendingSlots == {aq.val[s] : s \in aq.fl}
(* an accepted request is never lost: until its fibre is dispatched it is an undrained slot or an entry of the run queue *)
InHand == IF m.pc = "DrainRead" THEN {aq.val[m.slot]} ELSE {}      \* received, about to be read and queued by the drain loop
AcceptedIsQueuedOrPending == \A f \in acc : f \in PendingSlots \/ f \in Range(m.runq) \/ f \in InHand
(* the scheduler's queues are never corrupted by the interruption *)
NoDupSeq(s) == Cardinality(Range(s)) = Len(s)
QueuesIntact == NoDupSeq(m.runq) /\ NoDupSeq(m.timerq) /\ Range(m.runq) \cap Range(m.timerq) = {} /\ Range(m.runq) \subseteq {H, Y, S}
(* events: exactly once, intact, in (claim) order; nothing is seen that was not sent *)
IsPrefix(a, b) == Len(a) <= Len(b) /\ \A i \in 1..Len(a) : a[i] = b[i]
EventsExactlyOnceInOrder == IsPrefix(seen, claimed)
(* a completed send is received without further stimulus: once everything has come to rest nothing is left behind *)
Quiet == m.pc = "Done" /\ \A c \in Isrs : isr[c].pc = "Done"
(* C03 (irq discipline): the returned wake-up time sees every request completed before the final check *)
RetSeesCompleted ==
  [][(m.pc = "Wake" /\ m'.passes # m.passes /\ Discipline = "irq") =>
        (m'.last[1] # m.now => (acc \cap PendingSlots = {} /\ m.runq = <<>>))]_vars
Safety == AcceptedIsQueuedOrPending /\ QueuesIntact /\ EventsExactlyOnceInOrder
=============================================================================
