---------------------------- MODULE TraceRingBuf ----------------------------
(* Validates traces recorded from the real ringbuf.c under vrt.             *)
EXTENDS RingBuf, Json, IOUtils, TLC

T == ndJsonDeserialize(IOEnv.TRACE)
NoProg == <<>>
VARIABLE ti
tvars == <<vars, ti>>

ResetA(g) ==
  LET gg == [len |-> g.len, start |-> g.start, pp |-> g.pp, cp |-> g.cp]
      s0 == Start(gg) IN
  /\ geo' = gg
  /\ readi' = s0.readi /\ writei' = s0.writei /\ mem' = s0.mem
  /\ pcP' = s0.pcP /\ iP' = s0.iP /\ lw' = s0.lw /\ nw' = s0.nw
  /\ pcC' = s0.pcC /\ iC' = s0.iC /\ lr' = s0.lr /\ obs' = s0.obs
  /\ stack' = <<>> /\ putSeq' = <<>> /\ gotSeq' = <<>>

TraceInit == Init /\ ti = 1

TraceNext ==
  /\ ti <= Len(T)
  /\ ti' = ti + 1
  /\ LET ev == T[ti] IN
     IF ev.e = "Reset" THEN ResetA(ev.g)
     ELSE /\ ev.e = "S"
          /\ ev.c \in {0, 1}
          /\ Step(ev.c)
          /\ obs' = [c |-> ev.c, op |-> ev.op, var |-> ev.var, calls |-> ev.calls]
          /\ ev.oob = 0                      \* no access outside the caller's buf_len bytes
          /\ readi' = ev.st.r
          /\ writei' = ev.st.w
          \* ring contents are compared on the unread window only (bytes outside it are not the property's business)
          /\ (ev.st.mem = <<>> \/ \A j \in 0..(((ev.st.w + geo.len - ev.st.r) % geo.len) - 1) :
                                   ev.st.mem[((ev.st.r + j) % geo.len) + 1] = mem'[(ev.st.r + j) % geo.len])

TraceSpec == TraceInit /\ [][TraceNext]_tvars

TraceAccepted ==
  LET d == TLCGet("stats").diameter IN
  IF d - 1 = Len(T) THEN TRUE ELSE Print(<<"TRACE_REJECTED_AT", d>>, FALSE)
=============================================================================
