---------------------------- MODULE TraceRingBuf ----------------------------
(* Validates traces recorded from the real ringbuf.c under vrt.             *)
EXTENDS RingBuf, Json, IOUtils, TLC

T == ndJsonDeserialize(IOEnv.TRACE)
NoProg == <<>>
VARIABLE ti
tvars == <<vars, ti>>

ResetA(g) ==
  LET gg == [len |-> g.len, start |-> g.start, pp |-> g.pp, cp |-> g.cp]
      s0 == Start(gg) IN
  /\ geo' = gg
  /\ readi' = s0.readi /\ writei' = s0.writei /\ mem' = s0.mem
  /\ pcP' = s0.pcP /\ iP' = s0.iP /\ lw' = s0.lw /\ nw' = s0.nw
  /\ pcC' = s0.pcC /\ iC' = s0.iC /\ lr' = s0.lr /\ obs' = s0.obs
  /\ stack' = <<>> /\ putSeq' = <<>> /\ gotSeq' = <<>>

TraceInit == Init /\ ti = 1

TraceNext ==
  /\ ti <= Len(T)
  /\ ti' = ti + 1
  /\ LET ev == T[ti] IN
     IF ev.e = "Reset" THEN ResetA(ev.g)
     ELSE IF ev.e = "Bulk" THEN                     \* n sequential puts before the contexts run: all succeed (n < len - 1 from an empty ring)
          /\ ev.n >= 0 /\ ev.n < geo.len - 1 /\ readi = writei
          /\ writei' = (writei + ev.n) % geo.len /\ ev.w = writei' /\ ev.r = readi
          /\ putSeq' = [i \in 1..ev.n |-> ((i - 1) * 7 + 1) % 256]
          /\ mem' = [j \in 0..(geo.len - 1) |-> LET k == (j + geo.len - readi) % geo.len IN IF k < ev.n THEN (k * 7 + 1) % 256 ELSE mem[j]]
          /\ UNCHANGED <<geo, readi, pcP, iP, lw, nw, pcC, iC, lr, stack, gotSeq, obs>>
     ELSE IF ev.e = "Drain" THEN                    \* sequential drain at the end: everything published comes out, in order, then -1
          /\ ev.ok = 1 /\ ev.got = Len(putSeq) - 2 - Len(gotSeq)
          /\ ev.tail = <<putSeq[Len(putSeq) - 1], putSeq[Len(putSeq)], -1>>
          /\ UNCHANGED vars
     ELSE /\ ev.e = "S"
          /\ ev.c \in {0, 1}
          /\ Step(ev.c)
          /\ obs' = [c |-> ev.c, op |-> ev.op, var |-> ev.var, calls |-> ev.calls]
          /\ ev.oob = 0                      \* no access outside the caller's buf_len bytes
          /\ readi' = ev.st.r
          /\ writei' = ev.st.w
          \* ring contents are compared on the unread window only (bytes outside it are not the property's business)
          /\ (ev.st.mem = <<>> \/ \A j \in 0..(((ev.st.w + geo.len - ev.st.r) % geo.len) - 1) :
                                   ev.st.mem[((ev.st.r + j) % geo.len) + 1] = mem'[(ev.st.r + j) % geo.len])

TraceSpec == TraceInit /\ [][TraceNext]_tvars

TraceAccepted ==
  LET d == TLCGet("stats").diameter IN
  IF d - 1 = Len(T) THEN TRUE ELSE Print(<<"TRACE_REJECTED_AT", d>>, FALSE)
=============================================================================
