INIT Init
NEXT Next
CONSTANTS
  BufLen = 3
  StartIdx = 2
  ProdProg <- PP_E
  ConsProg <- CP_E
  Discipline = "threads"
VIEW MCView
INVARIANT Safety
PROPERTIES NoOverwriteUnread PutFailJustified GetFailJustified EmptyFalseJustified PEmptyJustified
CHECK_DEADLOCK FALSE
