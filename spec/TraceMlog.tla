------------------------------ MODULE TraceMlog ------------------------------
EXTENDS Mlog, Json, IOUtils, TLC
T == ndJsonDeserialize(IOEnv.TRACE)
VARIABLE ti
TraceInit == Init /\ ti = 1
Do(ev) ==
  CASE ev.e = "Log" -> Log(ev.id)
    [] ev.e = "Nice" -> Nice(ev.id)
    [] ev.e = "Clear" -> Clear
    [] ev.e = "Read" -> Read(ev.k) /\ ret' = ev.r
    [] ev.e = "Dump" -> Dump /\ ret' = ev.r
    [] ev.e = "SetCount" -> SetCount(ev.c)
    [] ev.e = "Burst" -> Burst(ev.n)
    [] ev.e = "Own" -> ev.ok = 1 /\ UNCHANGED vars           \* every mlog_get_line result is a string of the caller's own
    [] OTHER -> FALSE
TraceNext == ti <= Len(T) /\ ti' = ti + 1 /\ Do(T[ti])
TraceSpec == TraceInit /\ [][TraceNext]_<<vars, ti>>
TraceAccepted ==
  LET d == TLCGet("stats").diameter IN
  IF d - 1 = Len(T) THEN TRUE ELSE Print(<<"TRACE_REJECTED_AT", d>>, FALSE)
=============================================================================
