------------------------------- MODULE RfString ------------------------------
(* Growth beyond the listed properties: librfn/string.c.  Strings are        *)
(* sequences of character codes 1..255.                                      *)
(*  strtolower / strtoupper: in place, C locale, every byte (also >= 128,    *)
(*      which must be left alone - the (unsigned char) cast the code's own   *)
(*      comment is about);                                                   *)
(*  strdup_tolower / _toupper: a fresh copy, the source untouched;           *)
(*  strdup_join(head, tail): concatenation in a fresh block;                 *)
(*  strdup_printf with a string, an int and a string: what printf prints, in a block of exactly     *)
(*      that length + 1.                                                     *)
EXTENDS Naturals, Integers, Sequences
Lower(c) == IF c >= 65 /\ c <= 90 THEN c + 32 ELSE c
Upper(c) == IF c >= 97 /\ c <= 122 THEN c - 32 ELSE c
ToLower(s) == [i \in 1..Len(s) |-> Lower(s[i])]
ToUpper(s) == [i \in 1..Len(s) |-> Upper(s[i])]
Join(a, b) == a \o b
RECURSIVE Digits(_)
Digits(n) == IF n < 10 THEN <<48 + n>> ELSE Digits(n \div 10) \o <<48 + (n % 10)>>
Dec(n) == IF n < 0 THEN <<45>> \o Digits(-n) ELSE Digits(n)
Fmt(a, n, b) == a \o <<124>> \o Dec(n) \o <<124>> \o b            \* string | int | string
(* idempotence and the round trip on letters: checked by TLC on a small alphabet (String_mc) *)
Idem(s) == ToLower(ToLower(s)) = ToLower(s) /\ ToUpper(ToUpper(s)) = ToUpper(s) /\ ToLower(ToUpper(s)) = ToLower(s)
=============================================================================
