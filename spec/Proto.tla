------------------------------- MODULE Proto -------------------------------
(* include/librfn/protothreads.h (property C08).                            *)
(*                                                                          *)
(* A protothread program is constant data: a flat control-flow graph        *)
(* (sequence of instructions, produced from the structured source form by   *)
(* tools/ptgen.py, which also emits the C function built from the real      *)
(* macros).  Exec is the semantics of ONE invocation of a protothread       *)
(* function: run from the saved resume point to the next blocking point,    *)
(* exactly as the macros' switch/case machinery does (PT_YIELD / PT_WAIT:   *)
(* label after the return; PT_WAIT_UNTIL: label before the condition;       *)
(* PT_SPAWN: PT_INIT(child) before the label, child call after it, relay    *)
(* of the child's yields and waits; PT_CALL: loop until the child exits).   *)
(* SeqRun is the same graph executed as one uncut sequential program in     *)
(* which a blocking point is just an environment step (tick + 1).  The      *)
(* property is their equivalence on every program.                          *)
EXTENDS Naturals, Integers, Sequences

\* programs: [main |-> code, kids |-> <<prog, ...>>]; the generated module ProtoProgs_<tier> defines the sequence Progs

Fuel == 4000        \* bound on interpreter steps per invocation (generated programs terminate)

RECURSIVE ProgAt(_, _)
ProgAt(P, path) == IF path = <<>> THEN P ELSE ProgAt(P.kids[Head(path)], Tail(path))
RECURSIVE Paths(_)
Paths(P) == {<<>>} \cup UNION {{<<k>> \o q : q \in Paths(P.kids[k])} : k \in 1..Len(P.kids)}

Th0 == [lc |-> 0, a |-> 0, b |-> 0]
State0(P) == [th |-> [p \in Paths(P) |-> Th0], out |-> <<>>, tick |-> 0]

Var(S, path, v) == IF v = "a" THEN S.th[path].a ELSE S.th[path].b
SetVar(S, path, v, val) == IF v = "a" THEN [S EXCEPT !.th[path].a = val] ELSE [S EXCEPT !.th[path].b = val]
Cond(S, path, ins) ==
  CASE ins.x = "lt" -> Var(S, path, ins.y) < ins.z
    [] ins.x = "eq" -> Var(S, path, ins.y) = ins.z
    [] ins.x = "ge" -> Var(S, path, ins.y) >= ins.z
    [] ins.x = "tickge" -> S.tick >= ins.z
Blocked(r) == r \in {"Y", "W"}          \* PT_YIELDED, PT_WAITING  ( < PT_EXITED )

(* ------------------------- one invocation of a protothread function ------------------------- *)
RECURSIVE Run(_, _, _, _, _, _), CallLoop(_, _, _, _)
Exec(P, path, S) == Run(P, path, IF S.th[path].lc = 0 THEN 1 ELSE S.th[path].lc, S, "Y", Fuel)   \* pt_spawn_res = 0 (= PT_YIELDED) on entry

Run(P, path, pc, S, sres, fuel) ==
  LET ins == ProgAt(P, path).main[pc]
      kid == path \o <<ins.z + 1>> IN
  IF fuel = 0 THEN [S |-> S, r |-> "FUEL"]
  ELSE CASE ins.op = "eff" -> Run(P, path, pc + 1, [S EXCEPT !.out = Append(@, ins.z)], sres, fuel - 1)
    [] ins.op = "inc" -> Run(P, path, pc + 1, SetVar(S, path, ins.y, Var(S, path, ins.y) + 1), sres, fuel - 1)
    [] ins.op = "set" -> Run(P, path, pc + 1, SetVar(S, path, ins.y, ins.z), sres, fuel - 1)
    [] ins.op = "br" -> Run(P, path, IF Cond(S, path, ins) THEN pc + 1 ELSE ins.t, S, sres, fuel - 1)
    [] ins.op = "jmp" -> Run(P, path, ins.t, S, sres, fuel - 1)
    [] ins.op = "yield" -> [S |-> [S EXCEPT !.th[path].lc = pc + 1], r |-> "Y"]       \* blocks exactly once: resume after it
    [] ins.op = "wait" -> [S |-> [S EXCEPT !.th[path].lc = pc + 1], r |-> "W"]
    [] ins.op = "wait_until" ->                                                        \* resume AT it: the condition is re-evaluated
         LET S1 == [S EXCEPT !.th[path].lc = pc] IN
         IF Cond(S1, path, ins) THEN Run(P, path, pc + 1, S1, sres, fuel - 1) ELSE [S |-> S1, r |-> "W"]
    [] ins.op = "exit" -> [S |-> S, r |-> "X"]
    [] ins.op = "exit_on" -> IF Cond(S, path, ins) THEN [S |-> S, r |-> "X"] ELSE Run(P, path, pc + 1, S, sres, fuel - 1)
    [] ins.op = "fail" -> [S |-> S, r |-> "F"]
    [] ins.op = "fail_on" -> IF Cond(S, path, ins) THEN [S |-> S, r |-> "F"] ELSE Run(P, path, pc + 1, S, sres, fuel - 1)
    [] ins.op = "spawninit" ->                                                         \* PT_INIT(child); own resume point = the child call
         Run(P, path, pc + 1, [S EXCEPT !.th[kid].lc = 0, !.th[path].lc = pc + 1], sres, fuel - 1)
    [] ins.op = "spawnrun" ->
         LET c == Exec(P, kid, S) IN
         IF c.r = "FUEL" THEN c
         ELSE IF Blocked(c.r) THEN [S |-> c.S, r |-> c.r]                              \* relay the child's yield / wait unchanged
         ELSE Run(P, path, pc + 1, c.S, c.r, fuel - 1)                                 \* child exited or failed: carry on
    [] ins.op = "failonchildfail" -> IF sres = "F" THEN [S |-> S, r |-> "F"] ELSE Run(P, path, pc + 1, S, sres, fuel - 1)
    [] ins.op = "brchildfail" -> Run(P, path, IF sres = "F" THEN ins.t ELSE pc + 1, S, sres, fuel - 1)
    [] ins.op = "call" ->
         LET c == CallLoop(P, kid, [S EXCEPT !.th[kid].lc = 0], fuel - 1) IN
         IF c.r = "FUEL" THEN c ELSE Run(P, path, pc + 1, c.S, sres, fuel - 1)
    [] ins.op = "end" -> [S |-> S, r |-> "X"]

CallLoop(P, kid, S, fuel) ==       \* while ((thread) < PT_EXITED) ;
  IF fuel = 0 THEN [S |-> S, r |-> "FUEL"]
  ELSE LET c == Exec(P, kid, S) IN IF Blocked(c.r) THEN CallLoop(P, kid, c.S, fuel - 1) ELSE c

(* all invocations until exit: the environment advances (tick + 1) between invocations *)
RECURSIVE Invocations(_, _, _)
Invocations(P, S, n) ==
  LET c == Exec(P, <<>>, S) IN
  IF ~Blocked(c.r) \/ n = 0 THEN [S |-> c.S, r |-> c.r, rets |-> <<c.r>>]
  ELSE LET rest == Invocations(P, [c.S EXCEPT !.tick = @ + 1], n - 1) IN [rest EXCEPT !.rets = <<c.r>> \o @]

(* ------------------------------ the uncut sequential program ------------------------------ *)
RECURSIVE SeqRun(_, _, _, _, _, _, _)
(* incall: inside PT_CALL a blocking point does not let the environment advance *)
Env(S, incall) == IF incall THEN S ELSE [S EXCEPT !.tick = @ + 1]
RECURSIVE WaitLoop(_, _, _, _, _)
WaitLoop(S, path, ins, incall, fuel) ==
  IF fuel = 0 \/ Cond(S, path, ins) THEN S ELSE WaitLoop(Env(S, incall), path, ins, incall, fuel - 1)
SeqRun(P, path, pc, S, sres, incall, fuel) ==
  LET ins == ProgAt(P, path).main[pc]
      kid == path \o <<ins.z + 1>> IN
  IF fuel = 0 THEN [S |-> S, r |-> "FUEL"]
  ELSE CASE ins.op = "eff" -> SeqRun(P, path, pc + 1, [S EXCEPT !.out = Append(@, ins.z)], sres, incall, fuel - 1)
    [] ins.op = "inc" -> SeqRun(P, path, pc + 1, SetVar(S, path, ins.y, Var(S, path, ins.y) + 1), sres, incall, fuel - 1)
    [] ins.op = "set" -> SeqRun(P, path, pc + 1, SetVar(S, path, ins.y, ins.z), sres, incall, fuel - 1)
    [] ins.op = "br" -> SeqRun(P, path, IF Cond(S, path, ins) THEN pc + 1 ELSE ins.t, S, sres, incall, fuel - 1)
    [] ins.op = "jmp" -> SeqRun(P, path, ins.t, S, sres, incall, fuel - 1)
    [] ins.op \in {"yield", "wait"} -> SeqRun(P, path, pc + 1, Env(S, incall), "Y", incall, fuel - 1)      \* (a resumption starts with pt_spawn_res = 0)
    [] ins.op = "wait_until" ->
         IF Cond(S, path, ins) THEN SeqRun(P, path, pc + 1, S, sres, incall, fuel - 1)
         ELSE SeqRun(P, path, pc + 1, WaitLoop(S, path, ins, incall, fuel), "Y", incall, fuel - 1)
    [] ins.op = "exit" -> [S |-> S, r |-> "X"]
    [] ins.op = "exit_on" -> IF Cond(S, path, ins) THEN [S |-> S, r |-> "X"] ELSE SeqRun(P, path, pc + 1, S, sres, incall, fuel - 1)
    [] ins.op = "fail" -> [S |-> S, r |-> "F"]
    [] ins.op = "fail_on" -> IF Cond(S, path, ins) THEN [S |-> S, r |-> "F"] ELSE SeqRun(P, path, pc + 1, S, sres, incall, fuel - 1)
    [] ins.op = "spawninit" -> SeqRun(P, path, pc + 1, S, sres, incall, fuel - 1)
    [] ins.op = "spawnrun" ->                                           \* a call of the child from its beginning
         LET c == SeqRun(P, kid, 1, S, "Y", incall, fuel - 1) IN
         IF c.r = "FUEL" THEN c ELSE SeqRun(P, path, pc + 1, c.S, c.r, incall, fuel - 1)
    [] ins.op = "failonchildfail" -> IF sres = "F" THEN [S |-> S, r |-> "F"] ELSE SeqRun(P, path, pc + 1, S, sres, incall, fuel - 1)
    [] ins.op = "brchildfail" -> SeqRun(P, path, IF sres = "F" THEN ins.t ELSE pc + 1, S, sres, incall, fuel - 1)
    [] ins.op = "call" ->
         LET c == SeqRun(P, kid, 1, S, "Y", TRUE, fuel - 1) IN
         IF c.r = "FUEL" THEN c ELSE SeqRun(P, path, pc + 1, c.S, sres, incall, fuel - 1)
    [] ins.op = "end" -> [S |-> S, r |-> "X"]

Vars(S) == [p \in DOMAIN S.th |-> <<S.th[p].a, S.th[p].b>>]
(* the property: cut at the blocking points, the invocations perform exactly the sequential program *)
Equivalent(P) ==
  LET i == Invocations(P, State0(P), 300)
      s == SeqRun(P, <<>>, 1, State0(P), "Y", FALSE, 100000) IN
  /\ i.r \in {"X", "F"} /\ s.r = i.r
  /\ i.S.out = s.S.out
  /\ Vars(i.S) = Vars(s.S)
  /\ i.S.tick = s.S.tick
  /\ \A k \in 1..(Len(i.rets) - 1) : Blocked(i.rets[k])
=============================================================================
