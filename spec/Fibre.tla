------------------------------- MODULE Fibre -------------------------------
(* librfn/fibre.c at the level of its sequential API (properties C01-C03).  *)
(*                                                                          *)
(* A scheduling pass is three kinds of step so that fibre bodies can be     *)
(* arbitrary programs:  PassBegin(t)  (everything fibre_scheduler_next does *)
(* before it calls the fibre: drain the atomic run queue in arrival order,  *)
(* requeue the fibre that yielded / reset the one that exited, expire       *)
(* timers in due order, pop the head of the run queue), then any number of  *)
(* body calls  BRun / BRunAtomic / BKill / BTimeout  made by the running    *)
(* fibre, then  PassEnd(r)  with r what the fibre returns (or "none" when   *)
(* nothing was dispatched), which also fixes the wake-up time returned.     *)
(* Between passes:  Run / RunAtomic / Kill  from outside.                   *)
EXTENDS Naturals, Integers, Sequences, FiniteSets

CONSTANTS NF,         \* fibres are 1..NF, 0 = none
          MaxT,       \* model times 0..MaxT
          AtomCap,    \* capacity of the atomic run queue (8 in fibre.c)
          MaxAtomMC,  \* state constraint only: undrained requests explored exhaustively
          MaxBody,    \* state constraint only: body calls per dispatch explored exhaustively
          BackSteps,  \* the time argument may step back by up to this many ticks between two passes (0: monotone)
          AtomicOrder \* "arrival": requests are queued in order of arrival (the property);
                      \* "reverse": what the mutual recursion handle_atomic_runq <-> fibre_run produced before the fix

Fibres == 1..NF
Nil == 0
Unbounded == -2      \* stands for now + FIBRE_UNBOUNDED_SLEEP in `ret`

VARIABLES runq, timerq, due, atomq,
          current, kstate, now,
          resume,     \* [f -> 0..2]: section of the body the next dispatch of f enters (0 = from the beginning)
          mode,       \* "idle" | "body" (a fibre is running) | "ending" (pass dispatched nothing)
          toUsed,     \* the running fibre already has an unsatisfied timeout (scope: at most one per dispatch)
          nbody,      \* body calls so far in this dispatch (bound only)
          reasons,    \* ghost: [f -> set of reasons raised since its last dispatch]
          ret,        \* value returned by the last fibre_scheduler_next (model time, or Unbounded)
          retFresh,   \* TRUE right after PassEnd, until anything else happens
          res         \* result of the last call (bool as 0/1), or the section entered for PassBegin

vars == <<runq, timerq, due, atomq, current, kstate, now, resume, mode, toUsed, nbody, reasons, ret, retFresh, res>>
MCView == <<runq, timerq, due, atomq, current, kstate, now, resume, mode, toUsed, nbody, reasons>>

Range(s) == {s[i] : i \in 1..Len(s)}
Without(s, f) == SelectSeq(s, LAMBDA x : x # f)

Init ==
  /\ runq = <<>> /\ timerq = <<>> /\ atomq = <<>>
  /\ due = [f \in Fibres |-> 0]
  /\ current = Nil /\ kstate = "yielded"          \* kernel.state is zero-initialised = FIBRE_STATE_YIELDED
  /\ now = 0
  /\ resume = [f \in Fibres |-> 0]
  /\ mode = "idle" /\ toUsed = FALSE /\ nbody = 0
  /\ reasons = [f \in Fibres |-> {}]
  /\ ret = 0 /\ retFresh = FALSE /\ res = 0

(* ---- pure helpers on <<runq, timerq, reasons>> triples ---- *)
(* fibre_run without the drain: coalesce if already queued, else cancel the timeout and append *)
\* (the ghost only distinguishes "timeout" from every other reason - run, atomic request, yield - to keep the state space small)
RunOne(q, f, why) ==
  IF f \in Range(q[1]) THEN <<q[1], q[2], [q[3] EXCEPT ![f] = @ \cup {"run"}]>>
  ELSE <<Append(q[1], f), Without(q[2], f), [q[3] EXCEPT ![f] = @ \cup {"run"}]>>

RECURSIVE RunAll(_, _, _)
RunAll(q, fs, why) == IF fs = <<>> THEN q ELSE RunAll(RunOne(q, Head(fs), why), Tail(fs), why)

Reverse(s) == [i \in 1..Len(s) |-> s[Len(s) + 1 - i]]
(* handle_atomic_runq *)
Drain(q) == RunAll(q, IF AtomicOrder = "arrival" THEN atomq ELSE Reverse(atomq), "atomic")

(* stable sorted insertion by due time: after every entry that is due no later *)
InsSorted(tq, f, d, dueF) ==
  LET k == Cardinality({i \in 1..Len(tq) : dueF[tq[i]] <= d}) IN   \* tq is sorted, so these are a prefix
  SubSeq(tq, 1, k) \o <<f>> \o SubSeq(tq, k + 1, Len(tq))

Expired(tq, t) == SelectSeq(tq, LAMBDA f : due[f] <= t)
Pending(tq, t) == SelectSeq(tq, LAMBDA f : due[f] > t)

(* ------------------------------ PassBegin(t) ------------------------------ *)
PassBegin(t) ==
  /\ mode = "idle" /\ t + BackSteps >= now /\ t <= MaxT
  /\ now' = t
  /\ LET q0 == <<runq, timerq, reasons>>
         q1 == Drain(q0)                                             \* 1. interrupt-context requests
         q2 == IF current # Nil /\ kstate = "yielded"               \* 2. the fibre that yielded last pass
                 THEN RunOne(q1, current, "yield") ELSE q1
         rs == IF current # Nil /\ kstate \in {"exited", "failed"}  \*    an exited/failed fibre restarts from its beginning
                 THEN [resume EXCEPT ![current] = 0] ELSE resume
         ex == Expired(q2[2], t)                                     \* 3. expired timeouts, in due order
         rq3 == q2[1] \o ex
         tq3 == Pending(q2[2], t)
         rn3 == [f \in Fibres |-> IF f \in Range(ex) THEN q2[3][f] \cup {"timeout"} ELSE q2[3][f]]
         nxt == IF rq3 = <<>> THEN Nil ELSE Head(rq3)                \* 4. pop the head
     IN /\ runq' = IF rq3 = <<>> THEN <<>> ELSE Tail(rq3)
        /\ timerq' = tq3
        /\ atomq' = <<>>
        /\ current' = nxt
        /\ resume' = rs
        /\ reasons' = IF nxt = Nil THEN rn3 ELSE [rn3 EXCEPT ![nxt] = {}]
        /\ mode' = IF nxt = Nil THEN "ending" ELSE "body"
        /\ res' = IF nxt = Nil THEN 0 ELSE rs[nxt]
  /\ toUsed' = FALSE /\ nbody' = 0 /\ retFresh' = FALSE
  /\ UNCHANGED <<due, kstate, ret>>

(* ------------------------- calls made by the running fibre ------------------------- *)
DoRun(f) ==
  LET q == RunOne(Drain(<<runq, timerq, reasons>>), f, "run") IN
  /\ runq' = q[1] /\ timerq' = q[2] /\ reasons' = q[3] /\ atomq' = <<>>
  /\ res' = 0

DoKill(f) ==
  LET q == Drain(<<runq, timerq, reasons>>) IN
  /\ res' = IF f \in Range(q[1]) \/ f \in Range(q[2]) THEN 1 ELSE 0
  /\ runq' = Without(q[1], f) /\ timerq' = Without(q[2], f)
  /\ reasons' = [q[3] EXCEPT ![f] = {}]
  /\ atomq' = <<>>

DoRunAtomic(f) ==
  /\ IF Len(atomq) < AtomCap THEN atomq' = Append(atomq, f) /\ res' = 1
                             ELSE atomq' = atomq /\ res' = 0
  /\ UNCHANGED <<runq, timerq, reasons>>

BodyStep == mode = "body" /\ nbody' = nbody + 1 /\ retFresh' = FALSE
            /\ UNCHANGED <<current, kstate, now, resume, mode, ret>>

BRun(f) == BodyStep /\ DoRun(f) /\ UNCHANGED <<due, toUsed>>
BKill(f) == BodyStep /\ DoKill(f) /\ UNCHANGED <<due, toUsed>>
BRunAtomic(f) == BodyStep /\ DoRunAtomic(f) /\ UNCHANGED <<due, toUsed>>

(* fibre_timeout(d) *)
BTimeout(d) ==
  /\ BodyStep /\ (~toUsed \/ d <= now)      \* scope: at most one UNSATISFIED timeout per dispatch; satisfied ones may follow it
  /\ IF d <= now
       THEN res' = 1 /\ UNCHANGED <<timerq, due, toUsed>>
       ELSE /\ res' = 0
            /\ due' = [due EXCEPT ![current] = d]
            /\ toUsed' = TRUE
            /\ timerq' = IF current \in Range(runq) THEN timerq
                         ELSE InsSorted(timerq, current, d, due)
  /\ UNCHANGED <<runq, atomq, reasons>>

(* --------------------------------- PassEnd(r) --------------------------------- *)
NextWakeup(rq, aq, tq) ==
  IF aq # <<>> \/ rq # <<>> THEN now
  ELSE IF tq = <<>> THEN Unbounded
  ELSE due[Head(tq)]

PassEnd(r) ==
  /\ \/ mode = "body" /\ r \in {"yielded", "waiting", "exited", "failed"} /\ kstate' = r
     \/ mode = "ending" /\ r = "none" /\ kstate' = kstate
  /\ ret' = IF r = "yielded" THEN now ELSE NextWakeup(runq, atomq, timerq)
  /\ mode' = "idle" /\ retFresh' = TRUE /\ res' = 0 /\ nbody' = 0
  \* a fibre that blocks resumes in its next section (0 -> 1 -> 2 -> 1 ...); exit/fail is reset by the next pass
  /\ resume' = IF r \in {"yielded", "waiting"}
                 THEN [resume EXCEPT ![current] = IF @ = 1 THEN 2 ELSE 1] ELSE resume
  /\ UNCHANGED <<runq, timerq, due, atomq, current, now, toUsed, reasons>>

(* ------------------------------- calls from outside ------------------------------- *)
Outside == mode = "idle" /\ retFresh' = FALSE
           /\ UNCHANGED <<due, current, kstate, now, resume, mode, toUsed, nbody, ret>>
Run(f) == Outside /\ DoRun(f)
Kill(f) == Outside /\ DoKill(f)
RunAtomic(f) == Outside /\ DoRunAtomic(f)

Next == \/ \E t \in 0..MaxT : PassBegin(t) \/ BTimeout(t)
        \/ \E f \in Fibres : BRun(f) \/ BKill(f) \/ BRunAtomic(f) \/ Run(f) \/ Kill(f) \/ RunAtomic(f)
        \/ \E r \in {"yielded", "waiting", "exited", "failed", "none"} : PassEnd(r)

Spec == Init /\ [][Next]_vars
Bound == Len(atomq) <= MaxAtomMC /\ nbody <= MaxBody

-----------------------------------------------------------------------------
(* C01 *)
NoDupSeq(s) == Cardinality(Range(s)) = Len(s)
TypeOK == /\ Range(runq) \subseteq Fibres /\ Range(timerq) \subseteq Fibres /\ Range(atomq) \subseteq Fibres
          /\ current \in Fibres \cup {Nil}
(* no fibre queued twice, never on both queues; the running fibre is on the run queue only if it was re-run *)
NoDup == NoDupSeq(runq) /\ NoDupSeq(timerq) /\ Range(runq) \cap Range(timerq) = {}
(* a fibre is on the run queue exactly when a reason has been raised since its last dispatch (coalescing) *)
QueuedIffReason == \A f \in Fibres : (f \in Range(runq)) <=> (reasons[f] # {})
(* fibre_self: the fibre dispatched by the latest pass, nothing if that pass was idle *)
SelfIsLast == mode = "body" => current # Nil
(* C02 *)
TimerSorted == \A i \in 1..(Len(timerq)-1) : due[timerq[i]] <= due[timerq[i+1]]
(* a sleeper is never left behind: after a pass every pending due time is in the future *)
NeverLate == mode \in {"body", "ending"} => \A f \in Range(timerq) : due[f] > now
(* ... and never early: a timeout becomes a reason only in a pass whose time has reached it (an action property: the clock
   may step back afterwards, while the fibre is still waiting its turn on the run queue) *)
NeverEarly == [][\A f \in Fibres : ("timeout" \in reasons'[f] /\ "timeout" \notin reasons[f]) => due[f] <= now']_vars
(* C03: the returned time never oversleeps *)
NoOversleep ==
  retFresh =>
    /\ (ret # now) => /\ runq = <<>> /\ atomq = <<>>
                      /\ ~(kstate = "yielded" /\ current # Nil /\ mode = "idle")
                      /\ \A f \in Range(timerq) : ret # Unbounded /\ due[f] >= ret
    /\ (ret # now /\ ret # Unbounded) => ret > now
    /\ (ret = Unbounded) => timerq = <<>>
Safety == TypeOK /\ NoDup /\ QueuedIffReason /\ SelfIsLast /\ TimerSorted /\ NeverLate /\ NoOversleep
=============================================================================
