SPECIFICATION Spec
CONSTANTS
  Max = 40
  MaxBits = 6
INVARIANTS Reflexive Symmetric TighterImpliesLooser ZeroOnlyZero NeverAcrossZero EWider
CHECK_DEADLOCK FALSE
