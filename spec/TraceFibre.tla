----------------------------- MODULE TraceFibre -----------------------------
(* Validates traces recorded from the real fibre.c by harness/fibre_drv.c.  *)
EXTENDS Fibre, Json, IOUtils, TLC
T == ndJsonDeserialize(IOEnv.TRACE)
VARIABLE ti
tvars == <<vars, ti>>

ResetA ==
  /\ runq' = <<>> /\ timerq' = <<>> /\ atomq' = <<>>
  /\ due' = [f \in Fibres |-> 0]
  /\ current' = Nil /\ kstate' = "yielded" /\ now' = 0
  /\ resume' = [f \in Fibres |-> 0]
  /\ mode' = "idle" /\ toUsed' = FALSE /\ nbody' = 0
  /\ reasons' = [f \in Fibres |-> {}]
  /\ ret' = 0 /\ retFresh' = FALSE /\ res' = 0

(* projection of the real scheduler state (fibre_verif_snapshot) against the next specification state *)
ProjOK(st) ==
  /\ st.runq = runq'
  /\ st.atomq = atomq'
  /\ st.timerq = [i \in 1..Len(timerq') |-> <<timerq'[i], due'[timerq'[i]]>>]

Do(ev) ==
  CASE ev.e = "PassBegin" -> PassBegin(ev.a[1]) /\ ev.ran = current' /\ ev.r = res'
    [] ev.e = "BRun" -> BRun(ev.a[1]) /\ ev.r = res'
    [] ev.e = "BRunAtomic" -> BRunAtomic(ev.a[1]) /\ ev.r = res'
    [] ev.e = "BKill" -> BKill(ev.a[1]) /\ ev.r = res'
    [] ev.e = "BTimeout" -> BTimeout(ev.a[1]) /\ ev.r = res'
    [] ev.e = "PassEnd" -> PassEnd(ev.a[1]) /\ ev.ret = ret'
    [] ev.e = "Run" -> Run(ev.a[1]) /\ ev.r = res'
    [] ev.e = "RunAtomic" -> RunAtomic(ev.a[1]) /\ ev.r = res'
    [] ev.e = "Kill" -> Kill(ev.a[1]) /\ ev.r = res'
    [] OTHER -> FALSE

(* A crowd of n fibres (n far beyond Fibres) driven natively; what Fibre's rules imply for the tallies:                  *)
(* A - n fibres made runnable, four of them a second time: n dispatches, none twice, then nothing left to run;           *)
(* B - everybody asleep: killing the last sleeper succeeds once; a sleeper run by hand is entered once more;            *)
(* C - everybody due: the n-1 that were not killed wake exactly once each, in due order; the killed one never runs.     *)
CrowdOK(ev) ==
  /\ ev.a_total = ev.n /\ ev.a_max = 1 /\ ev.a_extra = 0
  /\ ev.kill = <<1, 0>> /\ ev.b_entries = 2
  /\ ev.c_woke = ev.n - 1 /\ ev.c_max = 1 /\ ev.c_inorder = 1
  /\ ev.killed = <<1, 0>> /\ ev.left = <<0, 0, 0>>

TraceInit == Init /\ ti = 1
TraceNext ==
  /\ ti <= Len(T)
  /\ ti' = ti + 1
  /\ LET ev == T[ti] IN
     IF ev.e = "Reset" THEN ResetA
     ELSE IF ev.e = "Crowd" THEN CrowdOK(ev) /\ ResetA
     ELSE /\ Do(ev)
          /\ ev.self = current'          \* fibre_self()
          /\ ProjOK(ev.st)
TraceSpec == TraceInit /\ [][TraceNext]_tvars
TraceAccepted ==
  LET d == TLCGet("stats").diameter IN
  IF d - 1 = Len(T) THEN TRUE ELSE Print(<<"TRACE_REJECTED_AT", d>>, FALSE)
=============================================================================
