SPECIFICATION TraceSpec
CONSTANTS
  U = 1000000
  K = 0
  MaxDt = 0
  MaxN = 0
  MaxW = 0
POSTCONDITION TraceAccepted
CHECK_DEADLOCK FALSE
