INIT Init
NEXT Next
CONSTANTS
  MaxNodes = 8
  Modes = {"in", "pre", "post", "free", "list"}
INVARIANT Safety
CHECK_DEADLOCK FALSE
