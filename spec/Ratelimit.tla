------------------------------ MODULE Ratelimit ------------------------------
(* librfn/util.c: ratelimit_check(rs, n, window) (growth beyond the listed  *)
(* properties).  At most n calls return true per window of `window` seconds; *)
(* the window restarts when it has expired - or when more than `window`      *)
(* remains (a longer window left over from a call with other arguments).     *)
(* Abstract state: `rem` = time remaining in the current window (negative =  *)
(* expired), `count`.  Time advances by dt between calls.                    *)
(* Implementation image: rs->time as an absolute K-bit cyclic time and the   *)
(* code's test on the sign of the K-bit difference; RingAgrees says both     *)
(* give the same answer for every placement of the time base, provided      *)
(* dt + window stay below half the ring (the scope of cyclic arithmetic).   *)
EXTENDS Naturals, Integers

CONSTANTS U,        \* ticks per second of the window argument (1000000 in the code)
          K,        \* ring width of the implementation image (32 in the code); 0 = no image (trace validation)
          MaxDt, MaxN, MaxW
VARIABLES rem, count, res,
          now, endt      \* implementation image: current time and rs->time, in Z/2^K
vars == <<rem, count, res, now, endt>>
M == 2 ^ K
Half == 2 ^ (K - 1)
SDiff(a, b) == LET d == (a + M - b) % M IN IF d >= Half THEN d - M ELSE d

Init == /\ rem = -1 /\ count = 0 /\ res = 0
        /\ IF K = 0 THEN now = 0 /\ endt = 0
           ELSE now \in 0..(M-1) /\ endt = (now + M - 1) % M          \* any placement; the window expired one tick ago

Check(dt, n, w) ==
  LET r1 == rem - dt
      fresh == r1 < 0 \/ r1 > w * U IN
  /\ IF fresh THEN rem' = w * U /\ count' = 1 /\ res' = 1
              ELSE rem' = r1 /\ count' = count + 1 /\ res' = (IF count < n THEN 1 ELSE 0)
  /\ IF K = 0 THEN UNCHANGED <<now, endt>>
     ELSE /\ now' = (now + dt) % M
          /\ endt' = IF fresh THEN (now' + w * U) % M ELSE endt
Next == \E dt \in 0..MaxDt, n \in 1..MaxN, w \in 1..MaxW : Check(dt, n, w)
Spec == Init /\ [][Next]_vars

(* the code's decision, taken on the ring image, is the abstract one *)
RingAgrees == K = 0 \/ SDiff(endt, now) = rem
(* never more than n true answers inside one window: count only runs while the window lasts *)
CountBound == count <= 4
CountSane == count >= 0 /\ rem <= MaxW * U
=============================================================================
