INIT Init
NEXT Next
CONSTANTS
  U = 2
  K = 6
  MaxDt = 20
  MaxN = 2
  MaxW = 3
INVARIANTS RingAgrees CountSane
CONSTRAINT CountBound
