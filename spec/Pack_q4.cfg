INIT Init
NEXT Next
CONSTANTS
  MaxSize = 5
  V16 <- V16mc
  V32 <- V32mc
  MaxN = 2
  MaxOps = 4
VIEW MCView
CONSTRAINT Bound
INVARIANTS TouchedInside RoundTrip16 PrefixOfLarger
PROPERTIES Sticky AllOrNothing
CHECK_DEADLOCK FALSE
