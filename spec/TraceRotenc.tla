----------------------------- MODULE TraceRotenc -----------------------------
EXTENDS Rotenc, Sequences, Json, IOUtils, TLC
T == ndJsonDeserialize(IOEnv.TRACE)
VARIABLE ti
TraceInit == Init /\ ti = 1
TraceNext ==
  /\ ti <= Len(T)
  /\ ti' = ti + 1
  /\ LET ev == T[ti] IN
     IF ev.e = "Reset" THEN last' = 0 /\ pos' = 0 /\ latched' = 0 /\ clean' = TRUE
     ELSE /\ Decode(ev.s)
          /\ (ev.q = 1 \/ (/\ ev.c = ((latched' \div 4) % CntMod)          \* rotenc_count   (q = 1: nobody read after this decode)
                           /\ ev.c14 = ((latched' \div 4) % C14Mod)))     \* rotenc_count14
TraceSpec == TraceInit /\ [][TraceNext]_<<vars, ti>>
TraceAccepted ==
  LET d == TLCGet("stats").diameter IN
  IF d - 1 = Len(T) THEN TRUE ELSE Print(<<"TRACE_REJECTED_AT", d>>, FALSE)
=============================================================================
