INIT Init
NEXT Next
CONSTANTS
  BufLen = 3
  StartIdx = 2
  ProdProg <- PP_B
  ConsProg <- CP_B
  Discipline = "threads"
VIEW MCView
INVARIANT Safety
PROPERTIES NoOverwriteUnread PutFailJustified GetFailJustified EmptyFalseJustified
CHECK_DEADLOCK FALSE
