------------------------------ MODULE TraceWav ------------------------------
(* Each event is one case run on the real wavheader.c by harness/wav_drv.c: *)
(* its inputs and everything observed.  The specification says what the     *)
(* observations must be (C13: Init events, C14 + decode-first: Decode).     *)
EXTENDS WavHeader, Json, IOUtils, TLC
T == ndJsonDeserialize(IOEnv.TRACE)
VARIABLE ti
CONSTANT Mode      \* "C13": round-trip obligations only; "C14": return-value contract and fault freedom only

Hdr(j) == [chunk_id |-> j.chunk_id, chunk_size |-> j.chunk_size, format |-> j.format, fmt_chunk_id |-> j.fmt_chunk_id,
           fmt_chunk_size |-> j.fmt_chunk_size, audio_format |-> j.audio_format, num_channels |-> j.num_channels,
           sample_rate |-> j.sample_rate, byte_rate |-> j.byte_rate, block_align |-> j.block_align,
           bits_per_sample |-> j.bits_per_sample, cb_size |-> j.cb_size, valid_bits_per_sample |-> j.valid_bits_per_sample,
           channel_mask |-> j.channel_mask, sub_format |-> j.sub_format, fact_chunk_id |-> j.fact_chunk_id,
           fact_chunk_size |-> j.fact_chunk_size, sample_length |-> j.sample_length, data_chunk_id |-> j.data_chunk_id,
           data_chunk_size |-> j.data_chunk_size]

(* C13: header made by init + set_num_frames, whatever the structure held before *)
InitOK(ev) ==
  LET h0 == InitHeader(ev.rate, ev.ch, ev.f)
      h == SetFrames(IF ev.twice = 1 THEN SetFrames(h0, ev.frames0) ELSE h0, ev.frames)
      bytes == EncodeBytes(h) IN
  /\ Hdr(ev.h) = h                       \* every field, including the ones init does not mention (zero)
  /\ ev.val = 0                          \* validates
  /\ ev.enclen = Len(bytes) /\ ev.enc = bytes
  /\ ev.declen = ev.enclen /\ Hdr(ev.dec) = h      \* encode then decode: identical structure, same length
  /\ ev.ts = 1
  \* size fields describe the file: RIFF size = bytes after the first 8 in a file with exactly the declared data
  /\ h.chunk_size = U32(Add(Sub(FromNat(Len(bytes), 4), <<8>>), h.data_chunk_size))
  /\ h.data_chunk_size = U32(Mul(ev.frames, U16(h.block_align)))
  /\ h.block_align = ev.ch * BytesPerSample(ev.f) /\ h.bits_per_sample = 8 * BytesPerSample(ev.f)
  /\ h.byte_rate = U32(Mul(ev.rate, U16(h.block_align)))

(* a byte of an extension the codec skips (cb_size other than 22): re-encoded as zero *)
IgnoredByte(b, sz, i) ==
  LET pr == Parse(b, sz) IN
  /\ HasExt(pr.h) /\ pr.h.cb_size # 22 /\ Lt(pr.h.fmt_chunk_size, FromNat(Big, 4))
  /\ i > 38 /\ i <= 38 + ToNat(pr.h.fmt_chunk_size) - 18

(* C14 (+ the decode-first half of C13) *)
DecodeOK(ev) ==
  LET pr == Parse(ev.b, ev.sz) IN
  /\ ev.ro = 1                                                  \* decoding reads: the caller's bytes are unchanged afterwards
  /\ Mode = "C14" =>
       /\ DecodeRetOK(ev.b, ev.sz, ev.ret)
       /\ ev.ts = 1                                            \* tostring terminated without a signal
       /\ ev.fmt = GetFormat(Hdr(ev.h))                        \* get_format total
       /\ ev.val \in {0, EINVAL} /\ (ev.val = 0 => Validate(Hdr(ev.h)) = 0)
  /\ (Mode = "C13" /\ ev.ret >= MinSize /\ ev.ret <= ev.sz) =>      \* accepted (whatever length the implementation says it consumed):
        /\ ev.relen = ev.ret                                          \* re-encoding gives back exactly that many bytes ...
        /\ \A i \in 1..ev.ret : ev.re[i] = ev.b[i] \/ IgnoredByte(ev.b, ev.sz, i)   \* ... the bytes that were decoded ...
        /\ (ev.ret = pr.consumed =>                                   \* ... and, where the length is the header's, the structure and the bytes
              /\ Hdr(ev.h) = pr.h
              /\ ev.re = Normalise(ev.b, ev.sz))

TraceInit == ti = 1
TraceNext ==
  /\ ti <= Len(T)
  /\ ti' = ti + 1
  /\ LET ev == T[ti] IN
     CASE ev.e = "Init" -> InitOK(ev)
       [] ev.e = "Decode" -> DecodeOK(ev)
       [] OTHER -> FALSE
TraceSpec == TraceInit /\ [][TraceNext]_ti
TraceAccepted ==
  LET d == TLCGet("stats").diameter IN
  IF d - 1 = Len(T) THEN TRUE ELSE Print(<<"TRACE_REJECTED_AT", d>>, FALSE)
=============================================================================
