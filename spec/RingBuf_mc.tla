---------------------------- MODULE RingBuf_mc ----------------------------
(* bounded configurations of RingBuf: programs are constants *)
EXTENDS RingBuf
Put(d) == [k |-> "put", d |-> d]
PutC(d) == [k |-> "putchar", d |-> d]
PP_A == <<Put(1), PutC(128), Put(255)>>
CP_A == <<"get", "empty", "get", "get">>
PP_B == <<Put(255), Put(0), Put(127), Put(128)>>
CP_B == <<"get", "get", "empty", "get", "get">>
PP_C == <<PutC(1), PutC(128), PutC(255), PutC(0), Put(127)>>
CP_C == <<"get", "get", "get", "empty", "get", "get", "get">>
PP_D == <<Put(1), Put(2), Put(3), Put(4), Put(5), Put(6)>>
CP_D == <<"get", "empty", "get", "get", "get", "empty", "get", "get">>
PEmp == [k |-> "empty", d |-> 0]
PP_E == <<Put(7), PEmp, PutC(9), PEmp, Put(11)>>
CP_E == <<"get", "empty", "get", "get">>
PP_W == <<Put(3), Put(4), PEmp>>
CP_W == <<"wait", "get", "empty", "wait", "get">>
=============================================================================
