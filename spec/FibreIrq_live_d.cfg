SPECIFICATION FairSpec
CONSTANTS
  MainProg <- MP4
  IsrProg <- IP_D
  AQDepth = 8
  EQDepth = 2
  SPeriod = 2
  Discipline = "threads"
  MaxNest = 2
  LoopForever = TRUE
  FastPathChecksAtomicQ = TRUE
  Sleeper = TRUE
  SRun = FALSE
INVARIANT Safety
PROPERTIES AcceptedLeadsToDispatch SentLeadsToSeen
CHECK_DEADLOCK FALSE
