------------------------------ MODULE RingBufHB ------------------------------
(* RingBuf composed with the C11 happens-before bookkeeping (see MessageQHB). *)
EXTENDS RingBuf_mc, TLC
CONSTANTS NCtx, Relaxed
VARIABLE hb
INSTANCE C11HB
MO(op, v) == IF <<op, v>> \in Relaxed THEN 0 ELSE 5
A(op, v) == [k |-> "A", op |-> op, v |-> v, i |-> 0, mo |-> MO(op, v), x |-> 0]
W(v, i) == [k |-> "W", op |-> "write", v |-> v, i |-> i, mo |-> 0, x |-> 0]
R(v, i) == [k |-> "R", op |-> "read", v |-> v, i |-> i, mo |-> 0, x |-> 0]
Events(c) ==
  IF c = P THEN
    CASE pcP = "PutLoadW" -> <<A("load", "writei")>>
      [] pcP = "PutLoadR" -> <<A("load", "readi")>>
      [] pcP = "PutStore" -> <<W("ring", lw)>>
      [] pcP = "PutPub" -> <<A("store", "writei")>>
      [] OTHER -> <<>>
  ELSE
    CASE pcC \in {"GetLoadR", "EmptyLoadR"} -> <<A("load", "readi")>>
      [] pcC \in {"GetLoadW", "EmptyLoadW"} -> <<A("load", "writei")>>
      [] pcC = "GetRead" -> <<R("ring", lr)>>
      [] pcC = "GetPub" -> <<A("store", "readi")>>
      [] OTHER -> <<>>
InitHB == Init /\ hb = HB0
StepHB(c) == Step(c) /\ hb' = ApplyAll(hb, c, Events(c), 1)
NextHB == StepHB(0) \/ StepHB(1)
NoRace == hb.race = ""
ViewHB == <<MCView, hb>>
None == {}
W_pub == {<<"store", "writei">>}
W_ldw == {<<"load", "writei">>}
W_rpub == {<<"store", "readi">>}
W_ldr == {<<"load", "readi">>}
=============================================================================
