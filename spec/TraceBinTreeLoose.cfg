SPECIFICATION TraceSpec
CONSTANTS
  MaxNodes = 320
CONSTRAINT Furthest
POSTCONDITION Report
CHECK_DEADLOCK FALSE
