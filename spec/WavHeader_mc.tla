---------------------------- MODULE WavHeader_mc ----------------------------
(* Design-level check of the WavHeader operators over a bounded domain: one  *)
(* initial state per (format, channels, rate, frames) tuple, no transitions. *)
EXTENDS WavHeader
VARIABLES f, ch, rate, frames
vars == <<f, ch, rate, frames>>
Init == /\ f \in 0..2 /\ ch \in {1, 2, 6, 255}
        /\ rate \in {FromNat(1, 4), FromNat(8000, 4), FromNat(44100, 4), FromNat(192000, 4)}
        /\ frames \in {FromNat(0, 4), FromNat(1, 4), FromNat(1000, 4), FromNat(65536, 4), <<0, 0, 64, 0>>}
Next == UNCHANGED vars
H == SetFrames(InitHeader(rate, ch, f), frames)
B == EncodeBytes(H)
Validates == Validate(H) = 0
RoundTripStruct == Parse(B, Len(B)).h = H /\ Parse(B, Len(B)).consumed = Len(B)
SizesConsistent == H.chunk_size = U32(Add(Sub(FromNat(Len(B), 4), <<8>>), H.data_chunk_size))
NoTruncatedSuccess == \A k \in 0..(Len(B)-1) : Parse(SubSeq(B, 1, k), k).consumed > k
RoundTripBytes == Normalise(B, Len(B)) = B
FormatBack == GetFormat(H) = f
=============================================================================
