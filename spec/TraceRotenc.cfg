SPECIFICATION TraceSpec
CONSTANTS
  PosMod = 65536
  CntMod = 256
  C14Mod = 16384
INVARIANT Safety
POSTCONDITION TraceAccepted
CHECK_DEADLOCK FALSE
