--------------------------- MODULE TraceMessageQ ---------------------------
(* Validates traces recorded from the real messageq.c running under the     *)
(* vrt interleaving runtime: every step is one atomic operation of one      *)
(* context; operation, variable, the API results that became visible in     *)
(* the step and the shared variables after it must be what MessageQ allows. *)
EXTENDS MessageQ, Json, IOUtils, TLC

T == ndJsonDeserialize(IOEnv.TRACE)

VARIABLE ti
tvars == <<vars, ti>>

ToSet(s) == {s[i] : i \in 1..Len(s)}

ResetA(g) ==
  LET s0 == Start(g) IN
  /\ geo' = [depth |-> g.depth, ns |-> g.ns, mp |-> g.mp, rt |-> g.rt]
  /\ numFree' = s0.numFree /\ sendp' = s0.sendp /\ flags' = s0.flags /\ receivep' = s0.receivep
  /\ pc' = s0.pc /\ k' = s0.k /\ sp' = s0.sp /\ slot' = s0.slot
  /\ owner' = s0.owner /\ pay' = s0.pay /\ obs' = s0.obs
  /\ stack' = <<>> /\ claimLog' = <<>> /\ recvLog' = <<>>

TraceInit == Init /\ ti = 1

TraceNext ==
  /\ ti <= Len(T)
  /\ ti' = ti + 1
  /\ LET ev == T[ti] IN
     IF ev.e = "Reset" THEN ResetA(ev.g)
     ELSE /\ ev.e = "S"
          /\ ev.c \in Ctx
          /\ Step(ev.c)
          /\ obs' = [c |-> ev.c, op |-> ev.op, var |-> ev.var, calls |-> ev.calls]
          /\ numFree' = ev.st.nf
          /\ sendp' = ev.st.sp
          /\ receivep' = ev.st.rp
          /\ flags' = ToSet(ev.st.fl)
          \* exclusive ownership, seen from the memory side: every plain access to a message buffer made in this step
          \* (they all follow the step's atomic operation) is made by the context that holds the buffer after it
          /\ \A j \in 1..Len(ev.hb) : (ev.hb[j].k \in {"R", "W"} /\ ev.hb[j].v = "slot") => slot'[ev.c] = ev.hb[j].i

TraceSpec == TraceInit /\ [][TraceNext]_tvars

TraceAccepted ==
  LET d == TLCGet("stats").diameter IN
  IF d - 1 = Len(T) THEN TRUE ELSE Print(<<"TRACE_REJECTED_AT", d>>, FALSE)
=============================================================================
