------------------------- MODULE TraceBinTreeLoose -------------------------
(* Second opinion on a trace that TraceBinTree rejected.                     *)
(*                                                                          *)
(* TraceBinTree compares, after every bintree_next, the complete link image *)
(* (temporary Morris threads in the right pointers, the tag bit of the left *)
(* pointers) with BinTree.tla's image of the code's own algorithm.  An      *)
(* implementation that threads or marks differently, or frees by pointer    *)
(* reversal, is rejected there although property C11 says nothing about the *)
(* links in mid-iteration.  This module states what C11 does say, on the    *)
(* recorded observations alone:                                             *)
(*   in / pre / post / list : the nodes returned are exactly the recursive  *)
(*       traversal's, in its order, then NULL; at the step that returns     *)
(*       NULL every link of every node has its original value, no tag set;  *)
(*   free : every node is handed to the deallocator exactly once, after     *)
(*       both its children (any such order), nothing is left at the end;    *)
(*   bintree_free_left / _right : the same for the subtree, the parent's    *)
(*       link is cleared and every surviving link is untouched.             *)
(* (Reads of deallocated nodes are observed by ASan in the driver, not      *)
(* here.)  Deterministic: one behaviour, register 42 holds the furthest     *)
(* line reached.                                                            *)
EXTENDS Naturals, Integers, Sequences, FiniteSets, Json, IOUtils, TLC

CONSTANT MaxNodes
T == ndJsonDeserialize(IOEnv.TRACE)

VARIABLES ti, n, oL, oR, isl, mode, out, gone, done
vars == <<ti, n, oL, oR, isl, mode, out, gone, done>>

PadF(a) == [i \in 1..MaxNodes |-> IF i <= Len(a) THEN a[i] ELSE 0]
F0 == [i \in 1..MaxNodes |-> 0]
Root == IF n = 0 THEN 0 ELSE 1

RECURSIVE InOrder(_, _, _), PreOrder(_, _, _), PostOrder(_, _, _), ListOrder(_, _, _, _)
InOrder(L, R, t) == IF t = 0 THEN <<>> ELSE InOrder(L, R, L[t]) \o <<t>> \o InOrder(L, R, R[t])
PreOrder(L, R, t) == IF t = 0 THEN <<>> ELSE <<t>> \o PreOrder(L, R, L[t]) \o PreOrder(L, R, R[t])
PostOrder(L, R, t) == IF t = 0 THEN <<>> ELSE PostOrder(L, R, L[t]) \o PostOrder(L, R, R[t]) \o <<t>>
ListOrder(L, R, s, t) == IF t = 0 THEN <<>> ELSE IF s[t] THEN ListOrder(L, R, s, L[t]) \o ListOrder(L, R, s, R[t]) ELSE <<t>>
Expected == CASE mode = "in" -> InOrder(oL, oR, Root)
              [] mode = "pre" -> PreOrder(oL, oR, Root)
              [] mode = "post" -> PostOrder(oL, oR, Root)
              [] mode = "list" -> ListOrder(oL, oR, isl, Root)
              [] OTHER -> <<>>

TraceInit ==
  /\ ti = 1 /\ n = 0 /\ oL = F0 /\ oR = F0 /\ isl = [i \in 1..MaxNodes |-> FALSE]
  /\ mode = "in" /\ out = <<>> /\ gone = {} /\ done = FALSE
  /\ TLCSet(42, 0)

ResetA(ev) ==
  /\ n' = ev.n /\ oL' = PadF(ev.left) /\ oR' = PadF(ev.right)
  /\ isl' = [i \in 1..MaxNodes |-> i <= Len(ev.isl) /\ ev.isl[i] = 1]
  /\ mode' = ev.mode /\ out' = <<>> /\ gone' = {} /\ done' = FALSE

Restored(ev) == \A i \in 1..n : ev.left[i] = oL[i] /\ ev.right[i] = oR[i] /\ ev.tag[i] = 0 /\ ev.freed[i] = 0

IterStep(ev) ==
  IF ev.ret # 0
    THEN /\ ~done /\ ev.ret \in 1..n
         /\ Len(out) < Len(Expected) /\ Expected[Len(out) + 1] = ev.ret         \* the next node of the recursive traversal
         /\ out' = Append(out, ev.ret) /\ UNCHANGED <<gone, done>>
    ELSE /\ out = Expected                                                       \* NULL only after the last one ...
         /\ Restored(ev)                                                         \* ... and then the tree is as it was
         /\ done' = TRUE /\ UNCHANGED <<out, gone>>

Kids(i) == {oL[i], oR[i]} \ {0}
FreeStep(ev) ==
  IF ev.ret # 0
    THEN /\ ev.ret \in 1..n /\ ev.ret \notin gone                               \* exactly once
         /\ Kids(ev.ret) \subseteq gone                                          \* children before parents
         /\ \A i \in 1..n : (ev.freed[i] = 1) => (i \in gone)                    \* nothing else has disappeared
         /\ gone' = gone \cup {ev.ret} /\ out' = Append(out, ev.ret) /\ UNCHANGED done
    ELSE /\ gone = 1..n /\ done' = TRUE /\ UNCHANGED <<out, gone>>

FreeSubOK(ev) ==
  LET Lf == PadF(ev.left)  Rf == PadF(ev.right)
      sub == IF ev.side = "left" THEN Lf[1] ELSE Rf[1]
      want == {PostOrder(Lf, Rf, sub)[i] : i \in 1..Len(PostOrder(Lf, Rf, sub))}
      pos(x) == CHOOSE i \in 1..Len(ev.out) : ev.out[i] = x IN
  /\ Len(ev.out) = Cardinality(want) /\ {ev.out[i] : i \in 1..Len(ev.out)} = want
  /\ \A x \in want : \A c \in ({Lf[x], Rf[x]} \ {0}) : pos(c) < pos(x)
  /\ \A i \in 1..ev.n : IF i \in want THEN ev.freed[i] = 1
        ELSE /\ ev.freed[i] = 0
             /\ ev.aleft[i] = (IF i = 1 /\ ev.side = "left" THEN 0 ELSE Lf[i])
             /\ ev.aright[i] = (IF i = 1 /\ ev.side = "right" THEN 0 ELSE Rf[i])

TraceNext ==
  /\ ti <= Len(T) /\ ti' = ti + 1
  /\ LET ev == T[ti] IN
     CASE ev.e = "Reset" -> ResetA(ev)
       [] ev.e = "Step" -> (IF mode = "free" THEN FreeStep(ev) ELSE IterStep(ev)) /\ UNCHANGED <<n, oL, oR, isl, mode>>
       [] ev.e = "Complete" -> ~done /\ mode # "free" /\ Restored(ev) /\ out' = Expected /\ done' = TRUE /\ UNCHANGED <<n, oL, oR, isl, mode, gone>>
       [] ev.e = "FreeSub" -> FreeSubOK(ev) /\ UNCHANGED <<n, oL, oR, isl, mode, out, gone, done>>
       [] ev.e = "Deep" -> ev.iter = ev.n /\ ev.freed = ev.n /\ ev.ok = 1 /\ UNCHANGED <<n, oL, oR, isl, mode, out, gone, done>>
       [] OTHER -> FALSE
TraceSpec == TraceInit /\ [][TraceNext]_vars

Furthest == TLCSet(42, IF TLCGet(42) < ti THEN ti ELSE TLCGet(42))     \* state constraint, always TRUE
Report == IF TLCGet(42) > Len(T) THEN PrintT("LOOSE_ACCEPTED") ELSE PrintT(<<"LOOSE_FURTHEST_EVENT", TLCGet(42)>>)
=============================================================================
