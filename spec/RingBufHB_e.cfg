INIT InitHB
NEXT NextHB
CONSTANTS
  BufLen = 3
  StartIdx = 1
  ProdProg <- PP_C
  ConsProg <- CP_C
  Discipline = "threads"
  NCtx = 2
  Relaxed <- None
VIEW ViewHB
INVARIANTS Safety NoRace
CHECK_DEADLOCK FALSE
