INIT Init
NEXT Next
CONSTANTS
  MaxLen = 5
  Alphabet = {48, 57, 97, 70, 120, 58, 32, 10, 103}
  MaxBytes = 34
INVARIANTS RoundTrip DumpShape ParserSafe
