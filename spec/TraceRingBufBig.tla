---------------------------- MODULE TraceRingBufBig ----------------------------
(* Validates the huge-ring scenarios of harness/rb_drv.c ("Huge"): indices placed next to the end of rings of 2^31 bytes    *)
(* and more, then puts / gets / empties; after every call the result and both indices must be what RingBufBig says.        *)
EXTENDS RingBufBig, Json, IOUtils, TLC
T == ndJsonDeserialize(IOEnv.TRACE)
VARIABLES ti
NoLens == {}
TraceInit == len = <<0, 2>> /\ r = Zero /\ w = Zero /\ unk = Zero /\ known = <<>> /\ ret = 0 /\ nops = 0 /\ ti = 1
TraceNext ==
  /\ ti <= Len(T) /\ ti' = ti + 1
  /\ LET ev == T[ti] IN
     CASE ev.e = "BPlace" -> Place(ev.len, ev.r, ev.w, ev.pre)
       [] ev.e = "BPut" -> Put(ev.d) /\ ev.ok = ret' /\ ev.r = r' /\ ev.w = w' /\ ev.oob = 0
       [] ev.e = "BGet" -> /\ Get /\ ev.r = r' /\ ev.w = w' /\ ev.oob = 0
                           /\ IF ret' = -2 THEN ev.v \in 0..255 ELSE ev.v = ret'      \* -2: a byte of unknown value
       [] ev.e = "BEmpty" -> Empty /\ ev.v = ret' /\ ev.r = r' /\ ev.w = w'
       [] OTHER -> FALSE
TraceSpec == TraceInit /\ [][TraceNext]_<<vars, ti>>
TraceAccepted ==
  LET d == TLCGet("stats").diameter IN
  IF d - 1 = Len(T) THEN TRUE ELSE Print(<<"TRACE_REJECTED_AT", d>>, FALSE)
=============================================================================
