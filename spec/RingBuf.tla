------------------------------ MODULE RingBuf ------------------------------
(* librfn/ringbuf.c at the grain of individual atomic operations and of the   *)
(* plain accesses to the ring storage: one                                   *)
(* producer (context 1) running a program of ringbuf_put / ringbuf_putchar   *)
(* calls, one consumer (context 0) running a program of ringbuf_get /        *)
(* ringbuf_empty calls.  One action = one atomic load/store plus the plain   *)
(* code up to the next one (harness/vrt.c preempts the real code there).     *)
(* Disciplines as in MessageQ: "threads" (free preemption) and "irq"         *)
(* (run-to-completion preemption, either side may interrupt the other).      *)
EXTENDS Naturals, Integers, Sequences, FiniteSets

CONSTANTS BufLen,      \* buf_len >= 2
          StartIdx,    \* initial value of readi = writei
          ProdProg,    \* sequence of [k |-> "put"|"putchar"|"empty", d |-> byte]  (ringbuf_empty is a role-neutral query: "was the ring idle?")
          ConsProg,    \* sequence of "get" | "empty" | "wait"  (wait: the polling loop  while (ringbuf_empty(rb)) ;  )
          Discipline

VARIABLES geo,                 \* [len, start, pp, cp] - constant during an execution
          readi, writei, mem,
          pcP, iP, lw, nw,     \* producer: pc, index of current call, loaded writei, incremented index
          pcC, iC, lr,         \* consumer: pc, index of current call, loaded readi
          stack,
          putSeq, gotSeq,      \* ghost: bytes published / bytes returned by successful gets
          obs

vars == <<geo, readi, writei, mem, pcP, iP, lw, nw, pcC, iC, lr, stack, putSeq, gotSeq, obs>>
MCView == <<geo, readi, writei, mem, pcP, iP, lw, nw, pcC, iC, lr, stack, putSeq, gotSeq>>

P == 1
C == 0
Call(n, r) == [n |-> n, r |-> r]
Inc(i) == IF i + 1 >= geo.len THEN i + 1 - geo.len ELSE i + 1
Occ == (writei + geo.len - readi) % geo.len      \* unread bytes

PcOfP(g, i) == IF i > Len(g.pp) THEN "Done" ELSE IF g.pp[i].k = "empty" THEN "PEmptyLoadR" ELSE "PutLoadW"
PcOfC(g, i) == IF i > Len(g.cp) THEN "Done" ELSE IF g.cp[i] = "get" THEN "GetLoadR" ELSE IF g.cp[i] = "wait" THEN "WaitLoadR" ELSE "EmptyLoadR"

Start(g) ==
  [readi |-> g.start, writei |-> g.start, mem |-> [i \in 0..(g.len-1) |-> 0],
   pcP |-> PcOfP(g, 1), iP |-> 1, lw |-> 0, nw |-> 0,
   pcC |-> PcOfC(g, 1), iC |-> 1, lr |-> 0,
   obs |-> [c |-> -1, op |-> "", var |-> "", calls |-> <<>>]]

Geo0 == [len |-> BufLen, start |-> StartIdx, pp |-> ProdProg, cp |-> ConsProg]

Init ==
  /\ geo = Geo0
  /\ LET s0 == Start(Geo0) IN
     /\ readi = s0.readi /\ writei = s0.writei /\ mem = s0.mem
     /\ pcP = s0.pcP /\ iP = s0.iP /\ lw = s0.lw /\ nw = s0.nw
     /\ pcC = s0.pcC /\ iC = s0.iC /\ lr = s0.lr /\ obs = s0.obs
  /\ stack = <<>> /\ putSeq = <<>> /\ gotSeq = <<>>

PcOf(c) == IF c = P THEN pcP ELSE pcC
InStack(c) == \E i \in 1..Len(stack) : stack[i] = c
Runnable(c) ==
  /\ PcOf(c) # "Done"
  /\ \/ Discipline = "threads"
     \/ /\ Discipline = "irq"
        /\ \/ (stack # <<>> /\ stack[Len(stack)] = c)
           \/ ~InStack(c)
Sched(c, newpc) ==
  /\ UNCHANGED geo
  /\ IF Discipline = "threads" THEN stack' = stack
     ELSE LET st1 == IF InStack(c) THEN stack ELSE Append(stack, c) IN
          stack' = IF newpc = "Done" THEN SubSeq(st1, 1, Len(st1) - 1) ELSE st1
Obs(c, op, var, calls) == obs' = [c |-> c, op |-> op, var |-> var, calls |-> calls]

(* ------------------------------- producer ------------------------------- *)
CurP == geo.pp[iP]

PutLoadW ==
  /\ pcP = "PutLoadW" /\ Runnable(P)
  /\ lw' = writei /\ nw' = Inc(writei)
  /\ pcP' = "PutLoadR"
  /\ Sched(P, "x") /\ Obs(P, "load", "writei", <<>>)
  /\ UNCHANGED <<readi, writei, mem, iP, pcC, iC, lr, putSeq, gotSeq>>

(* load readi; full -> the call fails (putchar: retry), else store the byte (plain) *)
PutLoadR ==
  /\ pcP = "PutLoadR" /\ Runnable(P)
  /\ IF nw = readi
       THEN /\ (IF CurP.k = "putchar"
                THEN /\ pcP' = "PutLoadW" /\ iP' = iP       \* ringbuf_putchar retries inside librfn
                     /\ Sched(P, "x") /\ Obs(P, "load", "readi", <<>>)
                ELSE /\ iP' = iP + 1 /\ pcP' = PcOfP(geo, iP + 1)
                     /\ Sched(P, PcOfP(geo, iP + 1)) /\ Obs(P, "load", "readi", <<Call("put", 0)>>))
            /\ mem' = mem
       ELSE /\ mem' = mem
            /\ pcP' = "PutStore" /\ iP' = iP
            /\ Sched(P, "x") /\ Obs(P, "load", "readi", <<>>)
  /\ UNCHANGED <<readi, writei, lw, nw, pcC, iC, lr, putSeq, gotSeq>>

(* the plain store of the byte into the ring (a preemption point of its own) *)
PutStore ==
  /\ pcP = "PutStore" /\ Runnable(P)
  /\ mem' = [mem EXCEPT ![lw] = CurP.d]
  /\ pcP' = "PutPub"
  /\ Sched(P, "x") /\ Obs(P, "write", "ring", <<>>)
  /\ UNCHANGED <<readi, writei, iP, lw, nw, pcC, iC, lr, putSeq, gotSeq>>

PutPub ==
  /\ pcP = "PutPub" /\ Runnable(P)
  /\ writei' = nw
  /\ putSeq' = Append(putSeq, CurP.d)
  /\ iP' = iP + 1 /\ pcP' = PcOfP(geo, iP + 1)
  /\ Sched(P, PcOfP(geo, iP + 1)) /\ Obs(P, "store", "writei", <<Call("put", 1)>>)
  /\ UNCHANGED <<readi, mem, lw, nw, pcC, iC, lr, gotSeq>>

(* ringbuf_empty called by the producer: the same two loads (nw holds the loaded readi) *)
PEmptyLoadR ==
  /\ pcP = "PEmptyLoadR" /\ Runnable(P)
  /\ nw' = readi
  /\ pcP' = "PEmptyLoadW"
  /\ Sched(P, "x") /\ Obs(P, "load", "readi", <<>>)
  /\ UNCHANGED <<readi, writei, mem, iP, lw, pcC, iC, lr, putSeq, gotSeq>>

PEmptyLoadW ==
  /\ pcP = "PEmptyLoadW" /\ Runnable(P)
  /\ iP' = iP + 1 /\ pcP' = PcOfP(geo, iP + 1)
  /\ Sched(P, PcOfP(geo, iP + 1)) /\ Obs(P, "load", "writei", <<Call("empty", IF nw = writei THEN 1 ELSE 0)>>)
  /\ UNCHANGED <<readi, writei, mem, lw, nw, pcC, iC, lr, putSeq, gotSeq>>

(* ------------------------------- consumer ------------------------------- *)
GetLoadR ==
  /\ pcC = "GetLoadR" /\ Runnable(C)
  /\ lr' = readi
  /\ pcC' = "GetLoadW"
  /\ Sched(C, "x") /\ Obs(C, "load", "readi", <<>>)
  /\ UNCHANGED <<readi, writei, mem, pcP, iP, lw, nw, iC, putSeq, gotSeq>>

(* load writei; empty -> -1, else read the byte (plain) *)
GetLoadW ==
  /\ pcC = "GetLoadW" /\ Runnable(C)
  /\ IF lr = writei
       THEN /\ iC' = iC + 1 /\ pcC' = PcOfC(geo, iC + 1)
            /\ Sched(C, PcOfC(geo, iC + 1)) /\ Obs(C, "load", "writei", <<Call("get", -1)>>)
            /\ gotSeq' = gotSeq
       ELSE /\ pcC' = "GetRead" /\ iC' = iC
            /\ gotSeq' = gotSeq
            /\ Sched(C, "x") /\ Obs(C, "load", "writei", <<>>)
  /\ UNCHANGED <<readi, writei, mem, pcP, iP, lw, nw, lr, putSeq>>

(* the plain load of the byte from the ring (a preemption point of its own) *)
GetRead ==
  /\ pcC = "GetRead" /\ Runnable(C)
  /\ gotSeq' = Append(gotSeq, mem[lr])
  /\ pcC' = "GetPub"
  /\ Sched(C, "x") /\ Obs(C, "read", "ring", <<>>)
  /\ UNCHANGED <<readi, writei, mem, pcP, iP, lw, nw, iC, lr, putSeq>>

GetPub ==
  /\ pcC = "GetPub" /\ Runnable(C)
  /\ readi' = Inc(lr)
  /\ iC' = iC + 1 /\ pcC' = PcOfC(geo, iC + 1)
  /\ Sched(C, PcOfC(geo, iC + 1)) /\ Obs(C, "store", "readi", <<Call("get", gotSeq[Len(gotSeq)])>>)
  /\ UNCHANGED <<writei, mem, pcP, iP, lw, nw, lr, putSeq, gotSeq>>

EmptyLoadR ==
  /\ pcC = "EmptyLoadR" /\ Runnable(C)
  /\ lr' = readi
  /\ pcC' = "EmptyLoadW"
  /\ Sched(C, "x") /\ Obs(C, "load", "readi", <<>>)
  /\ UNCHANGED <<readi, writei, mem, pcP, iP, lw, nw, iC, putSeq, gotSeq>>

EmptyLoadW ==
  /\ pcC = "EmptyLoadW" /\ Runnable(C)
  /\ iC' = iC + 1 /\ pcC' = PcOfC(geo, iC + 1)
  /\ Sched(C, PcOfC(geo, iC + 1)) /\ Obs(C, "load", "writei", <<Call("empty", IF lr = writei THEN 1 ELSE 0)>>)
  /\ UNCHANGED <<readi, writei, mem, pcP, iP, lw, nw, lr, putSeq, gotSeq>>

(* the consumer polls: ringbuf_empty again and again until it says "not empty" (each round is two loads) *)
WaitLoadR ==
  /\ pcC = "WaitLoadR" /\ Runnable(C)
  /\ lr' = readi
  /\ pcC' = "WaitLoadW"
  /\ Sched(C, "x") /\ Obs(C, "load", "readi", <<>>)
  /\ UNCHANGED <<readi, writei, mem, pcP, iP, lw, nw, iC, putSeq, gotSeq>>

WaitLoadW ==
  /\ pcC = "WaitLoadW" /\ Runnable(C)
  /\ IF lr = writei
       THEN /\ iC' = iC /\ pcC' = "WaitLoadR"                       \* still empty: once more round the loop
            /\ Sched(C, "x") /\ Obs(C, "load", "writei", <<>>)
       ELSE /\ iC' = iC + 1 /\ pcC' = PcOfC(geo, iC + 1)
            /\ Sched(C, PcOfC(geo, iC + 1)) /\ Obs(C, "load", "writei", <<Call("wait", 0)>>)
  /\ UNCHANGED <<readi, writei, mem, pcP, iP, lw, nw, lr, putSeq, gotSeq>>

PStep == PutLoadW \/ PutLoadR \/ PutStore \/ PutPub \/ PEmptyLoadR \/ PEmptyLoadW
CStep == GetLoadR \/ GetLoadW \/ GetRead \/ GetPub \/ EmptyLoadR \/ EmptyLoadW \/ WaitLoadR \/ WaitLoadW
Step(c) == IF c = P THEN PStep ELSE CStep
Next == PStep \/ CStep
Spec == Init /\ [][Next]_vars

-----------------------------------------------------------------------------
(* Properties (C05) *)
IsPrefix(a, b) == Len(a) <= Len(b) /\ \A i \in 1..Len(a) : a[i] = b[i]

PEmptyJustified == [][(pcP = "PEmptyLoadW" /\ nw = writei) => Occ = 0]_vars     \* the producer's own view: "empty" only if it was
TypeOK == readi \in 0..(geo.len-1) /\ writei \in 0..(geo.len-1) /\ lw \in 0..(geo.len-1) /\ lr \in 0..(geo.len-1)

(* the bytes returned are exactly the bytes published, in order, nothing lost or duplicated *)
FifoExact == /\ IsPrefix(gotSeq, putSeq)
             /\ \A b \in 1..Len(gotSeq) : gotSeq[b] \in 0..255

(* what is published but not yet returned is exactly what sits in the unread window *)
Window ==
  LET got == IF pcC = "GetPub" THEN Len(gotSeq) - 1 ELSE Len(gotSeq) IN   \* a byte read but readi not yet advanced is still "in"
  /\ Len(putSeq) - got = Occ
  /\ \A j \in 1..Occ : mem[(readi + j - 1) % geo.len] = putSeq[got + j]

(* the producer never stores into the unread window *)
NoOverwriteUnread ==
  [][(pcP = "PutStore" /\ pcP' = "PutPub") => \A j \in 0..(Occ-1) : (readi + j) % geo.len # lw]_vars

(* put fails only when len-1 bytes were unread at the instant it looked *)
PutFailJustified == [][(pcP = "PutLoadR" /\ nw = readi) => Occ = geo.len - 1]_vars
(* get returns -1 / empty returns true only when the buffer was empty at the instant it looked *)
GetFailJustified == [][((pcC = "GetLoadW" \/ pcC = "EmptyLoadW") /\ lr = writei) => Occ = 0]_vars
EmptyFalseJustified == [][((pcC = "EmptyLoadW" \/ pcC = "WaitLoadW") /\ lr # writei) => Occ > 0]_vars
WaitEndsWithData == [][(pcC = "WaitLoadW" /\ iC' # iC) => Occ > 0]_vars      \* the polling loop is left only when there is something to get

Safety == TypeOK /\ FifoExact /\ Window
=============================================================================
