SPECIFICATION Spec
CONSTANTS
  Cap = 6
  MaxD = 9
  MaxW = 4
  Unbounded = 1000
  Thresh = 3
  CapMode = "min"
  OnSignal = "return"
CONSTRAINT Bound
INVARIANTS NoOversleep CapRespected WakeNotSleptOn
