SPECIFICATION TraceSpec
CONSTANTS
  NNodes = 320
  NLists = 1
  MaxOps = 0
INVARIANTS TypeOK Refines TailValid FreeNodesUnlinked NoDup IterOK
POSTCONDITION TraceAccepted
CHECK_DEADLOCK FALSE
