SPECIFICATION TraceSpec
CONSTANT NCtx = 8
INVARIANT NoRace
POSTCONDITION TraceAccepted
CHECK_DEADLOCK FALSE
