SPECIFICATION TraceSpec
CONSTANT NCtx = 16
INVARIANT NoRace
POSTCONDITION TraceAccepted
CHECK_DEADLOCK FALSE
