INIT InitSim
NEXT Next
CONSTANTS
  MaxSize = 6
  V16 <- V16mc
  V32 <- V32mc
  MaxN = 3
  MaxOps = 12
VIEW MCView
CONSTRAINT Bound
INVARIANTS TouchedInside RoundTrip16
PROPERTIES Sticky AllOrNothing
CHECK_DEADLOCK FALSE
