------------------------------ MODULE TracePack ------------------------------
EXTENDS Pack, Json, IOUtils, TLC
T == ndJsonDeserialize(IOEnv.TRACE)
VARIABLE ti
tvars == <<vars, ti>>
NoV == {}

ResetA(sz) == /\ size' = sz /\ buf' = [i \in 1..sz |-> Pattern(i)] /\ p' = 0 /\ touched' = {} /\ nops' = 0 /\ res' = <<>>

Signed8(b) == IF b >= 128 THEN b - 256 ELSE b
Do(ev) ==
  CASE ev.e = "PackBytes" -> PackBytes(ev.a[1], ev.a[2])
    [] ev.e = "PackBytesV" -> PackBytesV(ev.a[1])
    [] ev.e = "PackS16le" -> Len(ev.a[1]) = 2 /\ PackS16le(ev.a[1])
    [] ev.e = "PackU16le" -> Len(ev.a[1]) = 2 /\ PackU16le(ev.a[1])
    [] ev.e = "PackU16be" -> Len(ev.a[1]) = 2 /\ PackU16be(ev.a[1])
    [] ev.e = "PackS32le" -> Len(ev.a[1]) = 4 /\ PackS32le(ev.a[1])
    [] ev.e = "PackU32le" -> Len(ev.a[1]) = 4 /\ PackU32le(ev.a[1])
    [] ev.e = "UnpackBytes" -> UnpackBytes(ev.a[1], ev.a[2])
    [] ev.e = "UnpackChar" -> UnpackChar
    [] ev.e = "UnpackS8" -> UnpackS8 /\ ev.sv = Signed8(res'[1])
    [] ev.e = "UnpackU8" -> UnpackU8 /\ ev.sv = res'[1]
    [] ev.e = "UnpackU16le" -> UnpackU16le /\ ev.sv = res'[1] * 256 + res'[2]
    [] ev.e = "UnpackU32le" -> UnpackU32le
    [] ev.e = "Rewind" -> Rewind
    [] OTHER -> FALSE

TraceInit == Init /\ size = 0 /\ ti = 1
TraceNext ==
  /\ ti <= Len(T)
  /\ ti' = ti + 1
  /\ LET ev == T[ti] IN
     IF ev.e = "Reset" THEN ResetA(ev.size)
     ELSE /\ Do(ev)
          /\ ev.r = res'                 \* unpacked value / array contents
          /\ ev.p = p'                   \* rf_pack_consumed
          /\ ev.rem = size - p'          \* rf_pack_remaining (negative after overflow)
          /\ ev.buf = buf'               \* buffer image
          /\ ev.g = 1                    \* guard bytes on both sides untouched
TraceSpec == TraceInit /\ [][TraceNext]_tvars
TraceAccepted ==
  LET d == TLCGet("stats").diameter IN
  IF d - 1 = Len(T) THEN TRUE ELSE Print(<<"TRACE_REJECTED_AT", d>>, FALSE)
=============================================================================
