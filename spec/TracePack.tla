------------------------------ MODULE TracePack ------------------------------
EXTENDS Pack, Json, IOUtils, TLC
T == ndJsonDeserialize(IOEnv.TRACE)
VARIABLES ti,
          big      \* TRUE: the real buffer is far larger than the modelled window `size` (see Pack!PrefixOfLarger)
tvars == <<vars, ti, big>>
NoV == {}

ResetA(sz) == /\ size' = sz /\ buf' = [i \in 1..sz |-> Pattern(i)] /\ p' = 0 /\ touched' = {} /\ nops' = 0 /\ res' = <<>>

Signed8(b) == IF b >= 128 THEN b - 256 ELSE b
Do(ev) ==
  CASE ev.e = "PackBytes" -> PackBytes(ev.a[1], ev.a[2])
    [] ev.e = "PackBytesV" -> PackBytesV(ev.a[1])
    [] ev.e = "PackS16le" -> Len(ev.a[1]) = 2 /\ PackS16le(ev.a[1])
    [] ev.e = "PackU16le" -> Len(ev.a[1]) = 2 /\ PackU16le(ev.a[1])
    [] ev.e = "PackU16be" -> Len(ev.a[1]) = 2 /\ PackU16be(ev.a[1])
    [] ev.e = "PackS32le" -> Len(ev.a[1]) = 4 /\ PackS32le(ev.a[1])
    [] ev.e = "PackU32le" -> Len(ev.a[1]) = 4 /\ PackU32le(ev.a[1])
    [] ev.e = "UnpackBytes" -> UnpackBytes(ev.a[1], ev.a[2])
    [] ev.e = "UnpackChar" -> UnpackChar
    [] ev.e = "UnpackS8" -> UnpackS8 /\ ev.sv = Signed8(res'[1])
    [] ev.e = "UnpackU8" -> UnpackU8 /\ ev.sv = res'[1]
    [] ev.e = "UnpackU16le" -> UnpackU16le /\ ev.sv = res'[1] * 256 + res'[2]
    [] ev.e = "UnpackU32le" -> UnpackU32le
    [] ev.e = "Rewind" -> Rewind
    [] ev.e = "Flip" -> Flip
    [] ev.e = "PackWire" -> PackWire(ev.a[1])
    [] ev.e = "UnpackWire" -> UnpackWire(ev.a[1], ev.a[2])
    [] OTHER -> FALSE

TraceInit == Init /\ size = 0 /\ ti = 1 /\ big = FALSE
TraceNext ==
  /\ ti <= Len(T)
  /\ ti' = ti + 1
  /\ LET ev == T[ti] IN
     IF ev.e = "Reset" THEN ResetA(ev.size) /\ big' = FALSE
     ELSE IF ev.e = "ResetBig" THEN ResetA(ev.window) /\ big' = TRUE       \* real size 2^31 + ev.extra, modelled window ev.window
     ELSE /\ Do(ev) /\ UNCHANGED big
          /\ ev.r = res'                 \* unpacked value / array contents
          /\ ev.p = p'                   \* rf_pack_consumed
          /\ IF big THEN p' <= size'      \* the window abstraction is only valid while everything requested lies inside it
                    ELSE ev.rem = size' - p'         \* rf_pack_remaining (negative after overflow)
          /\ ev.buf = buf'               \* buffer image
          /\ ev.g = 1                    \* guard bytes on both sides untouched
TraceSpec == TraceInit /\ [][TraceNext]_tvars
TraceAccepted ==
  LET d == TLCGet("stats").diameter IN
  IF d - 1 = Len(T) THEN TRUE ELSE Print(<<"TRACE_REJECTED_AT", d>>, FALSE)
=============================================================================
