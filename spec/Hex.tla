-------------------------------- MODULE Hex --------------------------------
(* librfn/hex.c (property C18).  Strings are sequences of character codes   *)
(* 1..255 with the terminating NUL implicit at index Len+1.                 *)
EXTENDS Naturals, Integers, Sequences, FiniteSets

NL == 10
Colon == 58
IsSpace(c) == c \in {9, 10, 11, 12, 13, 32}
IsHex(c) == (c >= 48 /\ c <= 57) \/ (c >= 97 /\ c <= 102) \/ (c >= 65 /\ c <= 70)
Nibble(c) == IF c <= 57 THEN c - 48 ELSE IF c >= 97 THEN c - 97 + 10 ELSE c - 65 + 10
HexChar(n) == IF n < 10 THEN 48 + n ELSE 97 + n - 10

(* ------------------------------ hex_dump_to_file ------------------------------ *)
RECURSIVE DumpFrom(_, _)
DumpFrom(b, i) ==
  IF i > Len(b) THEN <<>>
  ELSE <<HexChar(b[i] \div 16), HexChar(b[i] % 16)>>
       \o (IF i % 16 = 0 \/ i = Len(b) THEN <<NL>> ELSE <<>>)      \* newline after every 16 pairs and after a final partial line
       \o DumpFrom(b, i + 1)
Dump(b) == DumpFrom(b, 1)

(* -------------------------------- hex_get_byte -------------------------------- *)
At(s, i) == IF i >= 1 /\ i <= Len(s) THEN s[i] ELSE 0           \* index Len+1 is the NUL; anything beyond must never be asked for
FirstAt(s, i, c) ==    \* strchr: least j >= i with s[j] = c, or 0  (written without recursion: strings can be 64 Ki long)
  IF \A j \in i..Len(s) : s[j] # c THEN 0
  ELSE CHOOSE j \in i..Len(s) : s[j] = c /\ \A k \in i..(j - 1) : s[k] # c
FirstNonBlank(s, i) ==  \* least j >= i where s[j] is not a blank other than newline; the terminating NUL (index Len+1) always qualifies
  CHOOSE j \in i..(Len(s) + 1) : (~IsSpace(At(s, j)) \/ At(s, j) = NL) /\ \A k \in i..(j - 1) : IsSpace(At(s, k)) /\ At(s, k) # NL

(* each function returns [ret, cur, hi]: the value returned, the new *p (0 = NULL, else 1-based index), and the highest index read *)
Max(a, b) == IF a > b THEN a ELSE b
RECURSIVE FromLine(_, _, _), Skip(_, _, _), Body(_, _, _)
FromLine(s, i, hi) ==       \* label next_line with s non-NULL: skip to just after the next ':' anywhere in the rest of the string
  LET q == FirstAt(s, i, Colon) IN
  Skip(s, IF q # 0 THEN q + 1 ELSE i, Max(hi, IF q # 0 THEN q ELSE Len(s) + 1))
Skip(s, i, hi) ==
  LET j == FirstNonBlank(s, i) IN
  IF At(s, j) = NL THEN FromLine(s, j + 1, Max(hi, j)) ELSE Body(s, j, Max(hi, j))
Body(s, i, hi) ==
  LET pre == At(s, i) = 48 /\ At(s, i + 1) = 120                 \* "0x": s[1] is only looked at when s[0] = '0'
      hi1 == IF At(s, i) = 48 THEN Max(hi, i + 1) ELSE hi
      j == IF pre THEN i + 2 ELSE i
      ok == IsHex(At(s, j)) /\ IsHex(At(s, j + 1))
      hi2 == Max(hi1, IF IsHex(At(s, j)) THEN j + 1 ELSE j)
  IN IF ok THEN [ret |-> 16 * Nibble(At(s, j)) + Nibble(At(s, j + 1)), cur |-> j + 2, hi |-> hi2]
     ELSE LET nl == FirstAt(s, j, NL) IN
          IF nl = 0 THEN [ret |-> -1, cur |-> 0, hi |-> Max(hi2, Len(s) + 1)]
          ELSE FromLine(s, nl + 1, Max(hi2, nl))

First(s) == FromLine(s, 1, 0)                                      \* hex_get_byte(s, &p)
Again(s, cur) == IF cur = 0 THEN [ret |-> -1, cur |-> 0, hi |-> 0] ELSE Skip(s, cur, 0)   \* hex_get_byte(NULL, &p)

(* all values returned by repeated calls, ending with the first -1 *)
RECURSIVE Rest(_, _)
Rest(s, r) == IF r.ret = -1 THEN <<-1>> ELSE <<r.ret>> \o Rest(s, Again(s, r.cur))
ParseAll(s) == Rest(s, First(s))
RECURSIVE RestHi(_, _)
RestHi(s, r) == IF r.ret = -1 THEN r.hi ELSE Max(r.hi, RestHi(s, Again(s, r.cur)))
HighestRead(s) == RestHi(s, First(s))
=============================================================================
