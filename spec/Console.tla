------------------------------ MODULE Console ------------------------------
(* librfn/console.c (property C15): line editor, tokeniser, command table   *)
(* and dispatch.  Characters are codes; the line buffer is the sequence of  *)
(* characters stored before the cursor (BufCap = 80 bytes in the code, the  *)
(* last one always NUL).  A dispatch is recorded as [name, argc, argv]      *)
(* where name is the registered command that ran ("" = none: unknown or     *)
(* empty line) and argv four strings (sequences of codes).                  *)
(* Named deviation TokenizeKeepsLeadingBlank: column 0 always starts        *)
(* argv[0], so a line that begins with a blank names no command.            *)
EXTENDS Naturals, Integers, Sequences, FiniteSets

CONSTANTS BufCap,      \* 80
          TableCap,    \* 32 slots including the unnamed sentinel
          Alphabet,    \* characters the bounded model feeds
          NamePool,    \* names the bounded model registers (sequences of codes)
          MaxChars     \* state constraint

NL == 10
BS == 8
CtrlC == 3
IsSpace(c) == c \in {9, 10, 11, 12, 13, 32}
Quotes == {39, 34}

VARIABLES line,        \* characters stored so far (the edited line)
          table,       \* registered command names, sorted, without the sentinel
          disp,        \* dispatch caused by the last character (<<>> if none)
          regret,      \* result of the last console_register
          nchars
vars == <<line, table, disp, regret, nchars>>
MCView == <<line, table, nchars>>

Builtins == <<<<101, 99, 104, 111>>, <<104, 101, 108, 112>>>>       \* "echo", "help"
Init == line = <<>> /\ table = Builtins /\ disp = <<>> /\ regret = 0 /\ nchars = 0

(* ------------------------------- do_tokenize ------------------------------- *)
(* one pass over the buffer, i = 2..len (1-based), mutating it in place: st = [b, q, argc, starts, stop] *)
RECURSIVE TokLoop(_, _, _)
TokLoop(st, i, len) ==
  IF i > len \/ st.stop THEN st
  ELSE LET c == st.b[i] IN
    IF IsSpace(c) /\ st.q = 0 THEN TokLoop([st EXCEPT !.b[i] = 0], i + 1, len)
    ELSE IF c = st.q THEN TokLoop([st EXCEPT !.b[i] = 0, !.q = 0], i + 1, len)
    ELSE IF st.b[i - 1] = 0 THEN
           (IF c \in Quotes THEN TokLoop([st EXCEPT !.b[i] = 0, !.q = c], i + 1, len)
            ELSE LET s1 == [st EXCEPT !.starts = Append(@, i), !.argc = @ + 1] IN
                 TokLoop([s1 EXCEPT !.stop = (s1.argc >= 4)], i + 1, len))
    ELSE TokLoop(st, i + 1, len)
(* the NUL-terminated string that starts at index s of the mutated buffer b *)
RECURSIVE StrAt(_, _)
StrAt(b, s) == IF s > Len(b) \/ b[s] = 0 THEN <<>> ELSE <<b[s]>> \o StrAt(b, s + 1)
Tokenize(l) ==
  LET st == TokLoop([b |-> l, q |-> 0, argc |-> 1, starts |-> <<1>>, stop |-> FALSE], 2, Len(l)) IN
  [argc |-> st.argc,
   argv |-> [k \in 1..4 |-> IF k <= st.argc THEN StrAt(st.b, st.starts[k]) ELSE <<>>],      \* padding: empty strings
   starts |-> st.starts, b |-> st.b]

(* ------------------------------- find_command ------------------------------- *)
Find(name) == IF \E i \in 1..Len(table) : table[i] = name THEN name ELSE <<>>      \* exact match, else the unnamed sentinel

Execute(l) == LET t == Tokenize(l) IN <<[name |-> Find(t.argv[1]), argc |-> t.argc, argv |-> t.argv]>>

(* ------------------------------- console output ------------------------------- *)
(* What one input character makes the console print, up to wording: [kind, text, prompt].  kind "exact": the text is      *)
(* semantic (echo's arguments, the erase sequence) and must match; "nonempty" / "empty": a message whose wording is the  *)
(* code's business must / must not appear; prompt: a fresh prompt follows.                                               *)
RECURSIVE EchoArgs(_, _, _)
EchoArgs(argv, k, argc) == IF k > argc THEN <<10>> ELSE <<32>> \o argv[k] \o EchoArgs(argv, k + 1, argc)
CmdOutput(d) ==
  CASE d.name = Builtins[1] -> [kind |-> "exact", text |-> EchoArgs(d.argv, 2, d.argc)]           \* echo
    [] d.name = Builtins[2] -> [kind |-> "nonempty", text |-> <<>>]                                \* help lists the commands
    [] d.name = <<>> -> [kind |-> IF d.argv[1] # <<>> THEN "nonempty" ELSE "empty", text |-> <<>>]  \* unknown: a complaint; empty line: silence
    [] OTHER -> [kind |-> IF d.name[1] = 99 THEN "nonempty" ELSE "empty", text |-> <<>>]           \* the drivers' commands: those named c... fail ("Command failed")
OutF(l, c) ==
  IF c = NL \/ Len(l) >= BufCap - 1 THEN [kind |-> CmdOutput(Execute(l)[1]).kind, text |-> CmdOutput(Execute(l)[1]).text, prompt |-> TRUE]
  ELSE IF c = BS THEN [kind |-> "exact", text |-> (IF l = <<>> THEN <<32>> ELSE <<32, 8>>), prompt |-> FALSE]
  ELSE IF c = CtrlC THEN [kind |-> "exact", text |-> <<10>>, prompt |-> TRUE]
  ELSE [kind |-> "empty", text |-> <<>>, prompt |-> FALSE]

(* -------------------------------- console_run -------------------------------- *)
(* effect of one character on the line: [line, disp] *)
CharF(l, c) ==
  IF c = NL \/ Len(l) >= BufCap - 1
    THEN [line |-> <<>>, disp |-> Execute(l)]                   \* newline, or the buffer is full (that character is dropped)
  ELSE IF c = BS
    THEN [line |-> (IF l = <<>> THEN <<>> ELSE SubSeq(l, 1, Len(l) - 1)), disp |-> <<>>]
  ELSE IF c = CtrlC
    THEN [line |-> <<>>, disp |-> <<>>]
  ELSE [line |-> Append(l, c), disp |-> <<>>]
Char(c) ==
  /\ nchars' = nchars + 1 /\ regret' = regret /\ table' = table
  /\ line' = CharF(line, c).line /\ disp' = CharF(line, c).disp

(* ------------------------------ console_register ------------------------------ *)
RECURSIVE StrLess(_, _)
StrLess(a, b) ==   \* strcmp(a, b) < 0
  IF a = <<>> THEN b # <<>> ELSE IF b = <<>> THEN FALSE
  ELSE IF a[1] # b[1] THEN a[1] < b[1] ELSE StrLess(Tail(a), Tail(b))
InsertPos(name) == IF \E i \in 1..Len(table) : StrLess(name, table[i])
                     THEN CHOOSE i \in 1..Len(table) : StrLess(name, table[i]) /\ \A j \in 1..(i-1) : ~StrLess(name, table[j])
                     ELSE Len(table) + 1
Register(name) ==
  /\ IF Len(table) + 1 >= TableCap
       THEN regret' = -1 /\ table' = table                      \* full: fails cleanly, nothing changes
       ELSE regret' = 0 /\ table' = SubSeq(table, 1, InsertPos(name) - 1) \o <<name>> \o SubSeq(table, InsertPos(name), Len(table))
  /\ disp' = <<>> /\ UNCHANGED <<line, nchars>>

Next == (\E c \in Alphabet : Char(c)) \/ (\E nm \in NamePool : Register(nm))
Spec == Init /\ [][Next]_vars
Bound == nchars < MaxChars /\ Len(table) < 6

-----------------------------------------------------------------------------
WritesInsideLine == Len(line) <= BufCap - 1
Sorted == \A i \in 1..(Len(table) - 1) : ~StrLess(table[i + 1], table[i])
DispatchShape == disp # <<>> =>
  /\ disp[1].argc \in 1..4
  /\ \A k \in 1..4 : \A j \in 1..Len(disp[1].argv[k]) : disp[1].argv[k][j] # 0
  /\ (disp[1].name # <<>> => disp[1].name = disp[1].argv[1] /\ \E i \in 1..Len(table) : table[i] = disp[1].name)
Safety == WritesInsideLine /\ Sorted /\ DispatchShape /\ Len(table) + 1 <= TableCap
=============================================================================
