INIT InitHB
NEXT NextHB
CONSTANTS
  BufLen = 4
  StartIdx = 3
  ProdProg <- PP_D
  ConsProg <- CP_D
  Discipline = "threads"
  NCtx = 2
  Relaxed <- None
VIEW ViewHB
INVARIANTS Safety NoRace
CHECK_DEADLOCK FALSE
