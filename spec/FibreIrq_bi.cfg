INIT Init
NEXT Next
CONSTANTS
  MainProg <- MP4
  IsrProg <- IP_B
  AQDepth = 8
  EQDepth = 2
  SPeriod = 2
  Discipline = "irq"
  MaxNest = 2
  LoopForever = FALSE
  FastPathChecksAtomicQ = TRUE
  Sleeper = TRUE
  SRun = FALSE
VIEW MCView
INVARIANT Safety
PROPERTY RetSeesCompleted
CHECK_DEADLOCK FALSE
