------------------------------ MODULE MainLoop ------------------------------
(* librfn/posix/fibre_posix.c: fibre_scheduler_main_loop, the consumer of    *)
(* the value fibre_scheduler_next returns (property C03, last sentence: "a   *)
(* main loop that sleeps until the returned time never delays a runnable     *)
(* fibre or a pending timeout").  One action = one iteration of the loop:    *)
(*     t0 = time_now();  ret = fibre_scheduler_next(t0)   -- takes w ticks   *)
(*     t1 = time_now();  interval = cyclecmp32(ret, t1)                      *)
(*     if the (capped) interval is positive: usleep(it)                      *)
(* The scheduler is an oracle here (C01-C03 say what it returns): it returns *)
(* t0 (something is runnable), t0 + d (earliest due time), or t0 + Unbounded.*)
(* SleepArg is the loop's own arithmetic: the interval, capped at Cap so     *)
(* that a wake-up from outside the scheduler's knowledge is noticed.         *)
EXTENDS Naturals, Integers

CONSTANTS Cap,        \* 50000 in the code
          MaxD, MaxW, \* bounded model: due-time distances 0..MaxD (and Unbounded), work 0..MaxW
          Unbounded,
          Thresh,     \* pre-fix only: intervals below it were slept exactly (1000 in the code)
          CapMode,    \* "min": sleep min(interval, Cap)  (the code after the fix);  "prefix": the code before it
          OnSignal    \* "return": a sleep cut short by a signal is over (usleep: EINTR);  "resume": the remainder is slept as well
VARIABLES now,        \* the clock when the iteration starts
          t1, ret, slept, iters,
          wokenAt     \* the time at which a signal handler posted a wake-up while the loop slept (-1: none in this iteration)
vars == <<now, t1, ret, slept, iters, wokenAt>>

SleepArg(i) == IF CapMode = "min" THEN (IF i < Cap THEN i ELSE Cap)
               ELSE (IF i < Thresh THEN i ELSE Cap)          \* pre-fix: every interval of 1 ms or more became a 50 ms nap
Init == now = 0 /\ t1 = 0 /\ ret = 0 /\ slept = 0 /\ iters = 0 /\ wokenAt = -1
(* On POSIX the interrupt context of fibre_run_atomic / fibre_eventq_send is a signal handler.  A signal that arrives k     *)
(* ticks into the sleep runs the handler (which posts a wake-up the scheduler did not know of when it computed ret); the    *)
(* sleeping primitive then reports the interruption, and the loop is back in fibre_scheduler_next at once.                  *)
IterSignal(d, w, k) ==
  LET r == now + d
      after == now + w
      arg == SleepArg(r - after) IN
  /\ arg > 0 /\ k \in 0..(arg - 1)
  /\ ret' = r /\ t1' = after
  /\ wokenAt' = after + k
  /\ slept' = IF OnSignal = "return" THEN k ELSE arg
  /\ now' = after + slept'
  /\ iters' = iters + 1
Iter(d, w) ==
  LET r == now + d
      after == now + w
      arg == SleepArg(r - after) IN
  /\ ret' = r /\ t1' = after
  /\ slept' = IF arg > 0 THEN arg ELSE 0
  /\ now' = after + slept'
  /\ iters' = iters + 1 /\ wokenAt' = -1
Next == \E d \in (0..MaxD) \cup {Unbounded}, w \in 0..MaxW : Iter(d, w) \/ \E k \in 0..Cap : IterSignal(d, w, k)
Spec == Init /\ [][Next]_vars
Bound == iters < 3

(* the loop is back in fibre_scheduler_next no later than the returned time - or at once, if that time has already passed *)
NoOversleep == now <= (IF ret > t1 THEN ret ELSE t1)
(* a wake-up posted from a signal handler during the sleep is not slept on: the next pass starts when it was posted *)
WakeNotSleptOn == wokenAt # -1 => now = wokenAt
(* and it never naps for longer than the cap *)
CapRespected == slept <= Cap
=============================================================================
