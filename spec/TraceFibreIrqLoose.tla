------------------------- MODULE TraceFibreIrqLoose -------------------------
(* Second opinion on a trace that TraceFibreIrq rejected (rationale: see    *)
(* TraceMessageQLoose).  TraceFibreIrq binds every recorded atomic          *)
(* operation of the main loop and of the interrupt-context callers to one   *)
(* action of FibreIrq and compares the scheduler's queues and both message  *)
(* queues' words after every step.  This module keeps FibreIrq's actions    *)
(* but aligns them freely with the recorded steps and compares RESULTS      *)
(* only: what every pass of fibre_scheduler_next returned and which fibre   *)
(* it ran, the events the handler fibre saw (in order), and what            *)
(* fibre_run_atomic / fibre_eventq_claim / fibre_eventq_send returned to    *)
(* the interrupt-context callers, in the recorded real-time order.          *)
(*                                                                          *)
(* Alignment: a recorded step of context c stands for 0..MaxSilent actions  *)
(* of c (Silent), whatever shared object the recorded operation touched (an *)
(* implementation may test the queues in another order, or not at all where *)
(* the answer cannot matter); the results the                               *)
(* recorded step reports must be the oldest results the specification's c   *)
(* has produced and not yet reported; c may not start its next call while   *)
(* results are outstanding; a step that produces results is only taken if   *)
(* they are the results c reports next (look-ahead).  An action of c is     *)
(* only ever taken at a recorded step of c, so real-time order is kept.     *)
(* Discipline "threads" (a superset of the interrupt discipline).           *)
EXTENDS FibreIrq, Json, IOUtils, TLC

T == ndJsonDeserialize(IOEnv.TRACE)
NoProg == <<>>
OnePass == <<0>>
MaxSilent == 3

VARIABLES ti, nsil, rep
tvars == <<vars, ti, nsil, rep>>

ResetA(ev) ==
  LET g == [main |-> ev.main, isr |-> ev.isr, eqd |-> ev.eqdepth, period |-> ev.period, sleeper |-> (ev.sleeper = 1),
            eqstart |-> ev.eqstart, aqstart |-> ev.aqstart, srun |-> (ev.srun = 1)] IN
  /\ cfg' = g /\ m' = Start(g).m /\ aq' = Start(g).aq /\ eq' = Start(g).eq /\ isr' = Start(g).isr
  /\ taint' = {} /\ stack' = <<>> /\ acc' = {} /\ claimed' = <<>> /\ sentOk' = {} /\ seen' = <<>>
  /\ obs' = [c |-> -1, op |-> "", var |-> "", calls |-> <<>>]
  /\ rep' = [c \in 0..Len(ev.isr) |-> <<>>]

TraceInit == Init /\ ti = 1 /\ nsil = 0 /\ rep = [c \in 0..Len(IsrProg) |-> <<>>] /\ TLCSet(42, 0)

QueueOf(v) == IF v \in {"aq_num_free", "aq_sendp", "aq_flags", "aq_slot", "aq_receivep"} THEN "aq"
              ELSE IF v \in {"eq_num_free", "eq_sendp", "eq_flags", "eq_slot", "eq_receivep"} THEN "eq"
              ELSE v

(* the next results context c reports in this execution (0: none before the execution ends) *)
RECURSIVE FindRep(_, _)
FindRep(c, j) == IF j > Len(T) \/ T[j].e = "Reset" THEN 0
                 ELSE IF T[j].e = "S" /\ T[j].c = c /\ T[j].calls # <<>> THEN j ELSE FindRep(c, j + 1)
SameCalls(a, b, n) == \A i \in 1..n : a[i].n = b[i].n /\ a[i].r = b[i].r
WillReport(c, calls) ==
  IF calls = <<>> THEN TRUE
  ELSE LET j == FindRep(c, ti) IN
       IF j = 0 THEN TRUE
       ELSE LET n == IF Len(calls) < Len(T[j].calls) THEN Len(calls) ELSE Len(T[j].calls) IN SameCalls(calls, T[j].calls, n)

Silent ==
  /\ ti <= Len(T) /\ T[ti].e = "S" /\ T[ti].c \in 0..Len(cfg.isr) /\ nsil < MaxSilent
  /\ rep[T[ti].c] = <<>>
  /\ Step(T[ti].c)
  /\ WillReport(T[ti].c, obs'.calls)
  /\ rep' = [rep EXCEPT ![T[ti].c] = obs'.calls]
  /\ nsil' = nsil + 1 /\ ti' = ti

Consume ==
  /\ ti <= Len(T) /\ ti' = ti + 1 /\ nsil' = 0
  /\ LET ev == T[ti] IN
     CASE ev.e = "Reset" -> ResetA(ev)
       [] ev.e = "BadStep" -> UNCHANGED <<vars, rep>>
       [] ev.e = "S" -> /\ ev.c \in 0..Len(cfg.isr)
                        /\ Len(ev.calls) <= Len(rep[ev.c])
                        /\ SameCalls(ev.calls, rep[ev.c], Len(ev.calls))
                        /\ rep' = [rep EXCEPT ![ev.c] = SubSeq(@, Len(ev.calls) + 1, Len(@))]
                        /\ UNCHANGED vars
       [] OTHER -> FALSE

TraceNext == Silent \/ Consume
TraceSpec == TraceInit /\ [][TraceNext]_tvars

Furthest == TLCSet(42, IF TLCGet(42) < ti THEN ti ELSE TLCGet(42))
Report == IF TLCGet(42) > Len(T) THEN PrintT("LOOSE_ACCEPTED") ELSE PrintT(<<"LOOSE_FURTHEST_EVENT", TLCGet(42)>>)
=============================================================================
