INIT Init
NEXT Next
INVARIANTS CartaIsParkMiller InRange
