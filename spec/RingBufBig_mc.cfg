SPECIFICATION Spec
CONSTANTS
  H = 4
  Lens <- McLens
  MaxOps = 12
CONSTRAINT Bound
INVARIANT Safety
