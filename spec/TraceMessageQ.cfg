SPECIFICATION TraceSpec
CONSTANTS
  Depth = 1
  NSenders = 1
  MsgsPer = 1
  RecvTries = 1
  Discipline = "threads"
  MaxNest = 3
  CounterMod = 256
  CounterSigned = TRUE
INVARIANT Safety
PROPERTIES ExclusiveOwnership FailJustified
POSTCONDITION TraceAccepted
CHECK_DEADLOCK FALSE
