------------------------------- MODULE Fuzz_mc -------------------------------
(* what a user of an approximate comparison relies on; checked by TLC on -Max..Max *)
EXTENDS Fuzz
CONSTANT Max, MaxBits
VARIABLES a, b, k
R == -Max .. Max
Init == a \in R /\ b \in R /\ k \in 0..MaxBits
Next == UNCHANGED <<a, b, k>>
Spec == Init /\ [][Next]_<<a, b, k>>
Reflexive == CmpB(a, a, k) /\ CmpE(a, a, k)
Symmetric == CmpB(a, b, k) = CmpB(b, a, k) /\ CmpE(a, b, k) = CmpE(b, a, k)
TighterImpliesLooser == k > 0 /\ CmpB(a, b, k) => CmpB(a, b, k - 1)         \* more bits = stricter
ZeroOnlyZero == CmpB(a, 0, k) => a = 0                                     \* a relative tolerance: nothing is close to zero
NeverAcrossZero == a < 0 /\ b > 0 => ~CmpB(a, b, k)
EWider == CmpE(a, b, k) => CmpE(a, b, k + 1)
=============================================================================
