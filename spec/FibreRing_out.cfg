INIT Init
NEXT Next
CONSTANTS
  K = 5
  Horizon = 18
  MaxNow = 36
INVARIANT CmpAgree
CHECK_DEADLOCK FALSE
