SPECIFICATION TraceSpec
CONSTRAINT Furthest
POSTCONDITION Report
CHECK_DEADLOCK FALSE
