SPECIFICATION TraceSpec
CONSTANTS
  NNodes = 8
  NLists = 3
  MaxOps = 0
INVARIANTS TypeOK Refines TailValid FreeNodesUnlinked NoDup IterOK
POSTCONDITION TraceAccepted
CHECK_DEADLOCK FALSE
