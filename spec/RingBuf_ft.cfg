INIT Init
NEXT Next
CONSTANTS
  BufLen = 5
  StartIdx = 4
  ProdProg <- PP_D
  ConsProg <- CP_D
  Discipline = "threads"
VIEW MCView
INVARIANT Safety
PROPERTIES NoOverwriteUnread PutFailJustified GetFailJustified EmptyFalseJustified
CHECK_DEADLOCK FALSE
