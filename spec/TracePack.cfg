SPECIFICATION TraceSpec
CONSTANTS
  MaxSize = 0
  V16 <- NoV
  V32 <- NoV
  MaxN = 0
  MaxOps = 0
INVARIANT TouchedInside
PROPERTIES Sticky AllOrNothing
POSTCONDITION TraceAccepted
CHECK_DEADLOCK FALSE
