INIT Init
NEXT Next
CONSTANTS
  BufLen = 2
  StartIdx = 0
  ProdProg <- PP_C
  ConsProg <- CP_C
  Discipline = "irq"
VIEW MCView
INVARIANT Safety
PROPERTIES NoOverwriteUnread PutFailJustified GetFailJustified EmptyFalseJustified
CHECK_DEADLOCK FALSE
