SPECIFICATION TraceSpec
CONSTANTS
  Depth = 1
  MsgLen = 1
  Slack = 0
INVARIANT Safety
POSTCONDITION TraceAccepted
CHECK_DEADLOCK FALSE
