---------------------------- MODULE TraceBinTree ----------------------------
EXTENDS BinTree, Json, IOUtils, TLC
T == ndJsonDeserialize(IOEnv.TRACE)
VARIABLE ti
PadF(a) == [i \in 1..MaxNodes |-> IF i <= Len(a) THEN a[i] ELSE 0]
ResetA(ev) ==
  /\ n' = ev.n /\ root' = (IF ev.n = 0 THEN 0 ELSE 1)
  /\ left' = PadF(ev.left) /\ right' = PadF(ev.right) /\ oleft' = PadF(ev.left) /\ oright' = PadF(ev.right)
  /\ tag' = [i \in 1..MaxNodes |-> 0]
  /\ islist' = [i \in 1..MaxNodes |-> i <= Len(ev.isl) /\ ev.isl[i] = 1]
  /\ mode' = ev.mode /\ phase' = "start" /\ itCurr' = 0 /\ itParent' = 0 /\ itKind' = "none"
  /\ out' = <<>> /\ freed' = {} /\ bad' = FALSE /\ ret' = 0
(* returned node and the complete link image (threads and tags included) of every node that still exists *)
ProjOK(ev) ==
  /\ ev.ret = ret'
  \* (the node being handed to the deallocator is logged before it is freed)
  /\ \A i \in 1..n : IF i \in freed' \ {ret'} THEN ev.freed[i] = 1
                     ELSE ev.freed[i] = 0 /\ ev.left[i] = left'[i] /\ ev.right[i] = right'[i] /\ ev.tag[i] = tag'[i]
(* bintree_free_left / _right as one call: every node of the subtree once, children first; link cleared; rest intact *)
FreeSubOK(ev) ==
  LET Lf == PadF(ev.left)  Rf == PadF(ev.right)
      sub == IF ev.side = "left" THEN Lf[1] ELSE Rf[1]
      gone == {ev.out[i] : i \in 1..Len(ev.out)} IN
  /\ ev.out = PostOrder(Lf, Rf, sub)
  /\ \A i \in 1..ev.n : IF i \in gone THEN ev.freed[i] = 1
        ELSE /\ ev.freed[i] = 0
             /\ ev.aleft[i] = (IF i = 1 /\ ev.side = "left" THEN 0 ELSE Lf[i])
             /\ ev.aright[i] = (IF i = 1 /\ ev.side = "right" THEN 0 ELSE Rf[i])
TraceInit ==       \* (not BinTree!Init: that enumerates every shape up to MaxNodes)
  /\ n = 0 /\ root = 0 /\ left = F0 /\ right = F0 /\ oleft = F0 /\ oright = F0 /\ tag = F0
  /\ islist = [i \in 1..MaxNodes |-> FALSE]
  /\ mode = "in" /\ phase = "start" /\ itCurr = 0 /\ itParent = 0 /\ itKind = "none"
  /\ out = <<>> /\ freed = {} /\ bad = FALSE /\ ret = 0 /\ ti = 1
TraceNext ==
  /\ ti <= Len(T) /\ ti' = ti + 1
  /\ LET ev == T[ti] IN
     CASE ev.e = "Reset" -> ResetA(ev)
       [] ev.e = "Step" -> Next /\ ProjOK(ev)
       [] ev.e = "Complete" -> Complete /\ ProjOK(ev)                  \* bintree_iterate_complete from wherever the walk stands
       [] ev.e = "FreeSub" -> FreeSubOK(ev) /\ UNCHANGED vars
       [] ev.e = "Deep" -> ev.iter = ev.n /\ ev.freed = ev.n /\ ev.ok = 1 /\ UNCHANGED vars    \* very deep chains: every node once, children first (driver tallies)
       [] OTHER -> FALSE
TraceSpec == TraceInit /\ [][TraceNext]_<<vars, ti>>
TraceAccepted ==
  LET d == TLCGet("stats").diameter IN
  IF d - 1 = Len(T) THEN TRUE ELSE Print(<<"TRACE_REJECTED_AT", d>>, FALSE)
=============================================================================
