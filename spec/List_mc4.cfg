INIT Init
NEXT Next
CONSTANTS
  NNodes = 4
  NLists = 2
  MaxOps = 0
VIEW MCView
INVARIANTS TypeOK Refines TailValid FreeNodesUnlinked NoDup IterOK
PROPERTY SortedStable
