INIT Init
NEXT Next
CONSTANTS
  NF = 2
  MaxT = 1
  AtomCap = 8
  MaxAtomMC = 1
  MaxBody = 1
  BackSteps = 2
  AtomicOrder = "arrival"
VIEW MCView
CONSTRAINT Bound
INVARIANT Safety
CHECK_DEADLOCK FALSE
PROPERTY NeverEarly
