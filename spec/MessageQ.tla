----------------------------- MODULE MessageQ -----------------------------
(* librfn/messageq.c at the grain of individual atomic operations.          *)
(*                                                                          *)
(* Contexts: senders 1..NSenders each run  MsgsPer x (claim; write payload; *)
(* send)  and the receiver (context 0) runs  RecvTries x (empty?; receive;  *)
(* read payload; release).  One action = one atomic operation of one        *)
(* context plus the plain code that follows it up to the next atomic        *)
(* operation (harness/vrt.c preempts the real code at exactly these         *)
(* points).  Discipline "threads": any context may take the next step.      *)
(* Discipline "irq": run-to-completion nesting - a context that has not     *)
(* started may preempt the running one (stack depth <= MaxNest), only the   *)
(* top of the stack runs, and it is popped when its program is finished.    *)
(*                                                                          *)
(* The free counter is interpreted as the code interprets it: the value     *)
(* fetched by fetch_sub is taken modulo CounterMod and, when CounterSigned,  *)
(* read as a two's complement number (CounterMod = 256).                    *)
EXTENDS Naturals, Integers, Sequences, FiniteSets

CONSTANTS Depth,        \* number of message buffers (queue_len)
          NSenders, MsgsPer, RecvTries,
          Discipline,   \* "threads" | "irq"
          MaxNest,      \* irq: maximum stack depth
          CounterMod,   \* 256: num_free is an 8-bit object
          CounterSigned \* TRUE: fetched value is read as signed 8 bit

VARIABLES geo,       \* geometry/program sizes [depth, ns, mp, rt]; constant during an execution
                     \* (a variable only so that one trace file can hold executions of many geometries)
          numFree,   \* stored 8-bit object, 0..CounterMod-1
          sendp, flags, receivep,
          pc, k, sp, slot,          \* per context: program counter, message/try number, loaded sendp, slot in hand
          stack,                    \* irq discipline: running contexts, innermost last
          owner, pay,               \* ghost: who owns each buffer; payload value in each buffer
          claimLog, recvLog,        \* ghost: payloads in order of successful claims / as read by the receiver
          obs                       \* what the last step did (observation only; not part of the VIEW)

Senders == 1..geo.ns
Rx == 0
Ctx == {Rx} \cup Senders
Slots == 0..(geo.depth-1)

shared == <<numFree, sendp, flags, receivep>>
vars == <<geo, numFree, sendp, flags, receivep, pc, k, sp, slot, stack, owner, pay, claimLog, recvLog, obs>>
MCView == <<numFree, sendp, flags, receivep, pc, k, sp, slot, stack, owner, pay, claimLog, recvLog>>

AsCounter(v) == v % CounterMod                       \* store
Fetched(v) == IF CounterSigned /\ v >= CounterMod \div 2 THEN v - CounterMod ELSE v   \* value as the code reads it
NextIdx(i) == IF i >= geo.depth - 1 THEN 0 ELSE i + 1
Val(s, m) == s * 10 + m

Start(g) ==
  [numFree |-> g.depth, sendp |-> 0, flags |-> {}, receivep |-> 0,
   pc |-> [c \in 0..g.ns |-> IF c = 0 THEN "EmptyLoad" ELSE "ClaimDec"],
   k |-> [c \in 0..g.ns |-> 1], sp |-> [c \in 0..g.ns |-> 0], slot |-> [c \in 0..g.ns |-> -1],
   owner |-> [s \in 0..(g.depth-1) |-> "free"], pay |-> [s \in 0..(g.depth-1) |-> 0],
   obs |-> [c |-> -1, op |-> "", var |-> "", calls |-> <<>>]]

Init ==
  /\ geo = [depth |-> Depth, ns |-> NSenders, mp |-> MsgsPer, rt |-> RecvTries]
  /\ LET s0 == Start([depth |-> Depth, ns |-> NSenders, mp |-> MsgsPer, rt |-> RecvTries]) IN
     /\ numFree = s0.numFree /\ sendp = s0.sendp /\ flags = s0.flags /\ receivep = s0.receivep
     /\ pc = s0.pc /\ k = s0.k /\ sp = s0.sp /\ slot = s0.slot
     /\ owner = s0.owner /\ pay = s0.pay /\ obs = s0.obs
  /\ stack = <<>> /\ claimLog = <<>> /\ recvLog = <<>>

InStack(c) == \E i \in 1..Len(stack) : stack[i] = c
Started(c) == InStack(c) \/ pc[c] = "Done"

(* may context c take its next step now? *)
Runnable(c) ==
  /\ pc[c] # "Done"
  /\ \/ Discipline = "threads"
     \/ /\ Discipline = "irq"
        /\ \/ (stack # <<>> /\ stack[Len(stack)] = c)
           \/ (~InStack(c) /\ Len(stack) < MaxNest)

(* bookkeeping of the irq stack: push on first step, pop when the program ends *)
Sched(c, newpc) ==
  /\ UNCHANGED geo
  /\ IF Discipline = "threads" THEN stack' = stack
     ELSE LET st1 == IF InStack(c) THEN stack ELSE Append(stack, c) IN
          stack' = IF newpc = "Done" THEN SubSeq(st1, 1, Len(st1) - 1) ELSE st1

Obs(c, op, var, calls) == obs' = [c |-> c, op |-> op, var |-> var, calls |-> calls]
Call(n, r) == [n |-> n, r |-> r]

NextMsgPc(c) == IF k[c] >= geo.mp THEN "Done" ELSE "ClaimDec"

(* ------------------------------ messageq_claim ------------------------------ *)
ClaimDec(c) ==
  /\ c \in Senders /\ pc[c] = "ClaimDec" /\ Runnable(c)
  /\ LET nf == Fetched(numFree) IN
     /\ numFree' = AsCounter(numFree + CounterMod - 1)
     /\ pc' = [pc EXCEPT ![c] = IF nf <= 0 THEN "ClaimUndo" ELSE "ClaimLoad"]
     /\ Sched(c, "x")
  /\ Obs(c, "fetch_sub", "num_free", <<>>)
  /\ UNCHANGED <<sendp, flags, receivep, k, sp, slot, owner, pay, claimLog, recvLog>>

ClaimUndo(c) ==
  /\ c \in Senders /\ pc[c] = "ClaimUndo" /\ Runnable(c)
  /\ numFree' = AsCounter(numFree + 1)
  /\ pc' = [pc EXCEPT ![c] = NextMsgPc(c)]
  /\ k' = [k EXCEPT ![c] = @ + 1]
  /\ Sched(c, NextMsgPc(c))
  /\ Obs(c, "fetch_add", "num_free", <<Call("claim", -1)>>)
  /\ UNCHANGED <<sendp, flags, receivep, sp, slot, owner, pay, claimLog, recvLog>>

ClaimLoad(c) ==
  /\ c \in Senders /\ pc[c] = "ClaimLoad" /\ Runnable(c)
  /\ sp' = [sp EXCEPT ![c] = sendp]
  /\ pc' = [pc EXCEPT ![c] = "ClaimCas"]
  /\ Sched(c, "x")
  /\ Obs(c, "load", "sendp", <<>>)
  /\ UNCHANGED <<numFree, sendp, flags, receivep, k, slot, owner, pay, claimLog, recvLog>>

(* compare-exchange on sendp; on success the caller owns buffer sp and writes its payload *)
ClaimCas(c) ==
  /\ c \in Senders /\ pc[c] = "ClaimCas" /\ Runnable(c)
  /\ IF sendp = sp[c]
       THEN /\ sendp' = NextIdx(sp[c])
            /\ slot' = [slot EXCEPT ![c] = sp[c]]
            /\ owner' = [owner EXCEPT ![sp[c]] = "claimed"]
            /\ pay' = [pay EXCEPT ![sp[c]] = Val(c, k[c])]
            /\ claimLog' = Append(claimLog, Val(c, k[c]))
            /\ pc' = [pc EXCEPT ![c] = "SendOr"]
            /\ Obs(c, "cas", "sendp", <<Call("claim", sp[c]), Call("write", Val(c, k[c]))>>)
            /\ UNCHANGED sp
       ELSE /\ sp' = [sp EXCEPT ![c] = sendp]
            /\ Obs(c, "cas", "sendp", <<>>)
            /\ UNCHANGED <<sendp, slot, owner, pay, claimLog, pc>>
  /\ Sched(c, "x")
  /\ UNCHANGED <<numFree, flags, receivep, k, recvLog>>

(* ------------------------------ messageq_send ------------------------------- *)
SendOr(c) ==
  /\ c \in Senders /\ pc[c] = "SendOr" /\ Runnable(c)
  /\ flags' = flags \cup {slot[c]}
  /\ owner' = [owner EXCEPT ![slot[c]] = "sent"]
  /\ slot' = [slot EXCEPT ![c] = -1]
  /\ pc' = [pc EXCEPT ![c] = NextMsgPc(c)]
  /\ k' = [k EXCEPT ![c] = @ + 1]
  /\ Sched(c, NextMsgPc(c))
  /\ Obs(c, "fetch_or", "full_flags", <<Call("send", slot[c])>>)
  /\ UNCHANGED <<numFree, sendp, receivep, sp, pay, claimLog, recvLog>>

(* ----------------------------- receiver program ----------------------------- *)
EmptyLoad ==
  /\ pc[Rx] = "EmptyLoad" /\ Runnable(Rx)
  /\ pc' = [pc EXCEPT ![Rx] = "RecvAnd"]
  /\ Sched(Rx, "x")
  /\ Obs(Rx, "load", "full_flags", <<Call("empty", IF receivep \in flags THEN 0 ELSE 1)>>)
  /\ UNCHANGED <<numFree, sendp, flags, receivep, k, sp, slot, owner, pay, claimLog, recvLog>>

NextTryPc == IF k[Rx] >= geo.rt THEN "Done" ELSE "EmptyLoad"

(* messageq_receive: fetch_and clears the flag at receivep; on success advance receivep and read the payload *)
RecvAnd ==
  /\ pc[Rx] = "RecvAnd" /\ Runnable(Rx)
  /\ flags' = flags \ {receivep}
  /\ IF receivep \in flags
       THEN /\ receivep' = NextIdx(receivep)
            /\ slot' = [slot EXCEPT ![Rx] = receivep]
            /\ owner' = [owner EXCEPT ![receivep] = "held"]
            /\ recvLog' = Append(recvLog, pay[receivep])
            /\ pc' = [pc EXCEPT ![Rx] = "RelAdd"]
            /\ Sched(Rx, "x")
            /\ Obs(Rx, "fetch_and", "full_flags", <<Call("receive", receivep), Call("read", pay[receivep])>>)
            /\ UNCHANGED k
       ELSE /\ pc' = [pc EXCEPT ![Rx] = NextTryPc]
            /\ k' = [k EXCEPT ![Rx] = @ + 1]
            /\ Sched(Rx, NextTryPc)
            /\ Obs(Rx, "fetch_and", "full_flags", <<Call("receive", -1)>>)
            /\ UNCHANGED <<receivep, slot, owner, recvLog>>
  /\ UNCHANGED <<numFree, sendp, sp, pay, claimLog>>

RelAdd ==
  /\ pc[Rx] = "RelAdd" /\ Runnable(Rx)
  /\ numFree' = AsCounter(numFree + 1)
  /\ owner' = [owner EXCEPT ![slot[Rx]] = "free"]
  /\ slot' = [slot EXCEPT ![Rx] = -1]
  /\ pc' = [pc EXCEPT ![Rx] = NextTryPc]
  /\ k' = [k EXCEPT ![Rx] = @ + 1]
  /\ Sched(Rx, NextTryPc)
  /\ Obs(Rx, "fetch_add", "num_free", <<Call("release", slot[Rx])>>)
  /\ UNCHANGED <<sendp, flags, receivep, sp, pay, claimLog, recvLog>>

SenderStep(c) == ClaimDec(c) \/ ClaimUndo(c) \/ ClaimLoad(c) \/ ClaimCas(c) \/ SendOr(c)
RxStep == EmptyLoad \/ RecvAnd \/ RelAdd
Step(c) == IF c = Rx THEN RxStep ELSE SenderStep(c)

Next == RxStep \/ \E c \in 1..NSenders : SenderStep(c)   \* constant set so that TLC labels each sub-action

Spec == Init /\ [][Next]_vars

-----------------------------------------------------------------------------
(* Properties (C04) *)

Busy == {s \in Slots : owner[s] # "free"}
InClaim == {c \in Senders : pc[c] \in {"ClaimUndo", "ClaimLoad", "ClaimCas"}}   \* decremented, not yet resolved

TypeOK == /\ numFree \in 0..(CounterMod-1) /\ sendp \in Slots /\ receivep \in Slots /\ flags \subseteq Slots

(* a successful compare-exchange hands out a buffer nobody owns: no buffer is handed out twice *)
ExclusiveOwnership ==
  [][\A c \in Senders : (pc[c] = "ClaimCas" /\ pc'[c] = "SendOr") => owner[sp[c]] = "free"]_vars

(* flags say exactly "sent and not yet received" *)
FlagsAreSent == flags = {s \in Slots : owner[s] = "sent"}

(* received payloads are exactly the claimed ones, in claim order, each once *)
RecvPrefix == /\ Len(recvLog) <= Len(claimLog)
              /\ \A i \in 1..Len(recvLog) : recvLog[i] = claimLog[i]

(* claim fails only if, at the instant of its decrement, all buffers were owned or spoken for by claims in progress *)
FailJustified ==
  [][\A c \in Senders : (pc[c] = "ClaimDec" /\ pc'[c] = "ClaimUndo") => Cardinality(Busy) + Cardinality(InClaim) >= geo.depth]_vars

(* the counter always equals capacity - owned buffers - claims in progress (signed reading) *)
Counting == Fetched(numFree) = geo.depth - Cardinality(Busy) - Cardinality(InClaim)

(* ... hence at quiescence free buffers = capacity - messages still held *)
QuiescentCount == InClaim = {} => Fetched(numFree) = geo.depth - Cardinality(Busy)

Safety == TypeOK /\ FlagsAreSent /\ RecvPrefix /\ Counting /\ QuiescentCount
=============================================================================
