------------------------------- MODULE Hex_mc -------------------------------
(* Design-level check of Hex: one initial state per input, no transitions.  *)
EXTENDS Hex
CONSTANTS MaxLen, Alphabet, MaxBytes
VARIABLES kind, inp
vars == <<kind, inp>>
RECURSIVE Strings(_)
Strings(n) == IF n = 0 THEN {<<>>} ELSE LET S == Strings(n - 1) IN S \cup {Append(s, c) : s \in {t \in S : Len(t) = n - 1}, c \in Alphabet}
Arr(len, v) == [i \in 1..len |-> ((i * 17) + v * 37 + (i \div 16) * 101) % 256]
Init == \/ kind = "str" /\ inp \in Strings(MaxLen)
        \/ kind = "arr" /\ inp \in {Arr(l, v) : l \in 0..MaxBytes, v \in 0..7}
        \/ kind = "arr" /\ inp \in {<<b>> : b \in 0..255}
Next == UNCHANGED vars
(* the dump parses back to the same bytes, then -1 *)
RoundTrip == kind = "arr" => ParseAll(Dump(inp)) = inp \o <<-1>>
(* 16 two-digit lower-case pairs per line *)
DumpShape == kind = "arr" => LET d == Dump(inp) IN
                Len(d) = 2 * Len(inp) + ((Len(inp) + 15) \div 16)
(* the parser on any text: values in range, never past the NUL, ends with -1 and stays there *)
ParserSafe == kind = "str" =>
  LET r == ParseAll(inp) IN
  /\ \A i \in 1..Len(r) : r[i] \in -1..255
  /\ r[Len(r)] = -1 /\ Len(r) <= Len(inp) \div 2 + 1
  /\ HighestRead(inp) <= Len(inp) + 1
  /\ Again(inp, 0).ret = -1
=============================================================================
