INIT Init
NEXT Next
CONSTANTS
  MainProg <- MP4
  IsrProg <- IP_G
  AQDepth = 8
  EQDepth = 2
  SPeriod = 2
  Discipline = "irq"
  MaxNest = 2
  LoopForever = FALSE
  FastPathChecksAtomicQ = TRUE
  Sleeper = FALSE
  SRun = FALSE
VIEW MCView
INVARIANT Safety
PROPERTY RetSeesCompleted
CHECK_DEADLOCK FALSE
