INIT InitHB
NEXT NextHB
CONSTANTS
  BufLen = 2
  StartIdx = 1
  ProdProg <- PP_A
  ConsProg <- CP_A
  Discipline = "threads"
  NCtx = 2
  Relaxed <- W_rpub
VIEW ViewHB
INVARIANTS Safety NoRace
CHECK_DEADLOCK FALSE
