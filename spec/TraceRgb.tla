------------------------------ MODULE TraceRgb ------------------------------
EXTENDS Rgb, Json, IOUtils, TLC
T == ndJsonDeserialize(IOEnv.TRACE)
VARIABLE ti
RECURSIVE Run(_, _, _, _)
Run(v, g, s, n) == IF n = 0 THEN <<>> ELSE LET r == FadeF(v, g, s) IN <<[v |-> r.val, d |-> IF r.done THEN 1 ELSE 0]>> \o (IF r.done THEN <<>> ELSE Run(r.val, g, s, n - 1))
FadeOK(ev) ==
  LET want == Run(ev.from, ev.to, StepOf(ev.from, ev.to, ev.n), ev.cap) IN
  /\ Len(ev.steps) = Len(want)
  /\ \A i \in 1..Len(want) : ev.steps[i].v = want[i].v /\ ev.steps[i].d = want[i].d
CorrectOK(ev) == ev.out = Correct(ev.table, ev.b)
TraceInit == ti = 1 /\ goal = 0 /\ step = 1 /\ val = 0 /\ done = FALSE /\ calls = 0 /\ from0 = 0
TraceNext == /\ ti <= Len(T) /\ ti' = ti + 1 /\ UNCHANGED vars
             /\ LET ev == T[ti] IN CASE ev.e = "Fade" -> FadeOK(ev) [] ev.e = "Correct" -> CorrectOK(ev)
                                      [] ev.e = "Gamma" -> GammaSane(ev.table) [] OTHER -> FALSE
TraceSpec == TraceInit /\ [][TraceNext]_<<vars, ti>>
TraceAccepted ==
  LET d == TLCGet("stats").diameter IN
  IF d - 1 = Len(T) THEN TRUE ELSE Print(<<"TRACE_REJECTED_AT", d>>, FALSE)
=============================================================================
