------------------------------ MODULE TraceFuzz ------------------------------
EXTENDS Fuzz, Json, IOUtils, TLC, Sequences
T == ndJsonDeserialize(IOEnv.TRACE)
VARIABLE ti
BOK(ev) == /\ ev.d = B2I(CmpB(ev.a, ev.b, ev.bits)) /\ ev.f = ev.d          \* double and float variants agree with the integers
           /\ ev.dr = ev.d /\ ev.fr = ev.d                                  \* and with the operands swapped
           /\ ev.dd = ev.d                                                  \* fuzzcmp(a, b, 1 + 2^-bits) is what fuzzcmpb calls
EOK(ev) == /\ ev.d = B2I(CmpE(ev.a, ev.b, ev.eps)) /\ ev.f = ev.d /\ ev.dr = ev.d /\ ev.fr = ev.d
TraceInit == ti = 1
TraceNext == /\ ti <= Len(T) /\ ti' = ti + 1
             /\ LET ev == T[ti] IN CASE ev.e = "B" -> BOK(ev) [] ev.e = "E" -> EOK(ev) [] OTHER -> FALSE
TraceSpec == TraceInit /\ [][TraceNext]_ti
TraceAccepted ==
  LET d == TLCGet("stats").diameter IN
  IF d - 1 = Len(T) THEN TRUE ELSE Print(<<"TRACE_REJECTED_AT", d>>, FALSE)
=============================================================================
