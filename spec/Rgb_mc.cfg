SPECIFICATION Spec
CONSTANTS
  Max = 24
  MaxSteps = 6
INVARIANTS EndsOnGoal UpwardInRange
PROPERTY Terminates
CHECK_DEADLOCK FALSE
