---- MODULE MainLoop_TTrace_1791171759 ----
EXTENDS Sequences, TLCExt, Toolbox, Naturals, TLC, MainLoop

_expression ==
    LET MainLoop_TEExpression == INSTANCE MainLoop_TEExpression
    IN MainLoop_TEExpression!expression
----

_trace ==
    LET MainLoop_TETrace == INSTANCE MainLoop_TETrace
    IN MainLoop_TETrace!trace
----

_inv ==
    ~(
        TLCGet("level") = Len(_TETrace)
        /\
        ret = (7)
        /\
        iters = (1)
        /\
        now = (7)
        /\
        slept = (7)
        /\
        t1 = (0)
    )
----

_init ==
    /\ iters = _TETrace[1].iters
    /\ t1 = _TETrace[1].t1
    /\ now = _TETrace[1].now
    /\ ret = _TETrace[1].ret
    /\ slept = _TETrace[1].slept
----

_next ==
    /\ \E i,j \in DOMAIN _TETrace:
        /\ \/ /\ j = i + 1
              /\ i = TLCGet("level")
        /\ iters  = _TETrace[i].iters
        /\ iters' = _TETrace[j].iters
        /\ t1  = _TETrace[i].t1
        /\ t1' = _TETrace[j].t1
        /\ now  = _TETrace[i].now
        /\ now' = _TETrace[j].now
        /\ ret  = _TETrace[i].ret
        /\ ret' = _TETrace[j].ret
        /\ slept  = _TETrace[i].slept
        /\ slept' = _TETrace[j].slept

\* Uncomment the ASSUME below to write the states of the error trace
\* to the given file in Json format. Note that you can pass any tuple
\* to `JsonSerialize`. For example, a sub-sequence of _TETrace.
    \* ASSUME
    \*     LET J == INSTANCE Json
    \*         IN J!JsonSerialize("MainLoop_TTrace_1791171759.json", _TETrace)

=============================================================================

 Note that you can extract this module `MainLoop_TEExpression`
  to a dedicated file to reuse `expression` (the module in the 
  dedicated `MainLoop_TEExpression.tla` file takes precedence 
  over the module `MainLoop_TEExpression` below).

---- MODULE MainLoop_TEExpression ----
EXTENDS Sequences, TLCExt, Toolbox, Naturals, TLC, MainLoop

expression == 
    [
        \* To hide variables of the `MainLoop` spec from the error trace,
        \* remove the variables below.  The trace will be written in the order
        \* of the fields of this record.
        iters |-> iters
        ,t1 |-> t1
        ,now |-> now
        ,ret |-> ret
        ,slept |-> slept
        
        \* Put additional constant-, state-, and action-level expressions here:
        \* ,_stateNumber |-> _TEPosition
        \* ,_itersUnchanged |-> iters = iters'
        
        \* Format the `iters` variable as Json value.
        \* ,_itersJson |->
        \*     LET J == INSTANCE Json
        \*     IN J!ToJson(iters)
        
        \* Lastly, you may build expressions over arbitrary sets of states by
        \* leveraging the _TETrace operator.  For example, this is how to
        \* count the number of times a spec variable changed up to the current
        \* state in the trace.
        \* ,_itersModCount |->
        \*     LET F[s \in DOMAIN _TETrace] ==
        \*         IF s = 1 THEN 0
        \*         ELSE IF _TETrace[s].iters # _TETrace[s-1].iters
        \*             THEN 1 + F[s-1] ELSE F[s-1]
        \*     IN F[_TEPosition - 1]
    ]

=============================================================================



Parsing and semantic processing can take forever if the trace below is long.
 In this case, it is advised to uncomment the module below to deserialize the
 trace from a generated binary file.

\*
\*---- MODULE MainLoop_TETrace ----
\*EXTENDS IOUtils, TLC, MainLoop
\*
\*trace == IODeserialize("MainLoop_TTrace_1791171759.bin", TRUE)
\*
\*=============================================================================
\*

---- MODULE MainLoop_TETrace ----
EXTENDS TLC, MainLoop

trace == 
    <<
    ([ret |-> 0,iters |-> 0,now |-> 0,slept |-> 0,t1 |-> 0]),
    ([ret |-> 7,iters |-> 1,now |-> 7,slept |-> 7,t1 |-> 0])
    >>
----


=============================================================================

---- CONFIG MainLoop_TTrace_1791171759 ----
CONSTANTS
    Cap = 6
    MaxD = 9
    MaxW = 4
    Unbounded = 1000
    CapMode = "prefix"

INVARIANT
    _inv

CHECK_DEADLOCK
    \* CHECK_DEADLOCK off because of PROPERTY or INVARIANT above.
    FALSE

INIT
    _init

NEXT
    _next

CONSTANT
    _TETrace <- _trace

ALIAS
    _expression
=============================================================================
\* Generated on Mon Oct 05 03:42:40 UTC 2026