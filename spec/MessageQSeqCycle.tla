------------------------- MODULE MessageQSeqCycle -------------------------
(* Justifies MessageQSeq!Cycles, the closed form the long-service traces    *)
(* are judged with: from ANY idle state the queue can reach (ph = 0 lets    *)
(* the ordinary behaviour run), one whole cycle - Claim, Send(1), Receive,  *)
(* Release, nothing in between - ends in exactly the state Cycles(1)        *)
(* describes (CycleIsCycles1), every call returning the same buffer; and    *)
(* Cycles(a) followed by Cycles(b) is Cycles((a + b) % depth) by the        *)
(* arithmetic of the three cursors (CyclesCompose, checked for all a, b).   *)
EXTENDS MessageQSeq
VARIABLES ph, mk
vars2 == <<vars, ph, mk>>
Mark == [nc |-> nclaims, sp |-> sendp, rp |-> receivep, fl |-> flags, nf |-> numFree, buf |-> -1]
Init2 == Init /\ ph = 0 /\ mk = Mark
Next2 ==
  \/ ph = 0 /\ Next /\ UNCHANGED <<ph, mk>>
  \/ ph = 0 /\ win = <<>> /\ ph' = 1 /\ mk' = Mark /\ UNCHANGED vars
  \/ ph = 1 /\ Claim /\ ph' = 2 /\ mk' = [mk EXCEPT !.buf = ret']
  \/ ph = 2 /\ Send(1) /\ ph' = 3 /\ UNCHANGED mk
  \/ ph = 3 /\ Receive /\ ret' = mk.buf /\ ph' = 4 /\ UNCHANGED mk
  \/ ph = 4 /\ Release /\ ret' = mk.buf /\ ph' = 5 /\ UNCHANGED mk
  \/ ph = 5 /\ ph' = 0 /\ UNCHANGED <<vars, mk>>
Spec2 == Init2 /\ [][Next2]_vars2
View2 == <<MCView, ph, mk>>

CycleIsCycles1 ==
  ph = 5 => /\ win = <<>> /\ numFree = mk.nf /\ flags = mk.fl
            /\ nclaims = (mk.nc + 1) % geo.depth /\ sendp = (mk.sp + 1) % geo.depth /\ receivep = (mk.rp + 1) % geo.depth
            /\ mk.buf = mk.nc * geo.msglen                      \* the buffer handed out is the one at the claim cursor
CycleNeverStuck == (ph \in 1..4) => ENABLED Next2              \* the four calls always succeed on an idle queue
CyclesCompose ==
  \A a, b \in 0..(geo.depth - 1) : \A c \in 0..(geo.depth - 1) :
     (((c + a) % geo.depth) + b) % geo.depth = (c + ((a + b) % geo.depth)) % geo.depth
=============================================================================
