INIT Init
NEXT Next
CONSTANTS
  Depth = 2
  NSenders = 2
  MsgsPer = 2
  RecvTries = 4
  Discipline = "irq"
  MaxNest = 3
  CounterMod = 256
  CounterSigned = TRUE
VIEW MCView
INVARIANT Safety
PROPERTIES ExclusiveOwnership FailJustified
CHECK_DEADLOCK FALSE
