SPECIFICATION TraceSpec
CONSTANTS
  BufLen = 2
  StartIdx = 0
  ProdProg <- NoProg
  ConsProg <- NoProg
  Discipline = "threads"
INVARIANT Safety
PROPERTIES NoOverwriteUnread PutFailJustified GetFailJustified EmptyFalseJustified
POSTCONDITION TraceAccepted
CHECK_DEADLOCK FALSE
