INIT Init
NEXT Next
CONSTANTS
  Depth = 3
  MsgLen = 4
  Slack = 0
VIEW MCView
INVARIANT Safety
