SPECIFICATION TraceSpec
CONSTANTS
  Max = 16777216
  MaxSteps = 1
POSTCONDITION TraceAccepted
CHECK_DEADLOCK FALSE
