INIT InitHB
NEXT NextHB
CONSTANTS
  BufLen = 3
  StartIdx = 2
  ProdProg <- PP_B
  ConsProg <- CP_B
  Discipline = "threads"
  NCtx = 2
  Relaxed <- None
VIEW ViewHB
INVARIANTS Safety NoRace
CHECK_DEADLOCK FALSE
