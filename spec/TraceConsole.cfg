SPECIFICATION TraceSpec
CONSTANTS
  BufCap = 80
  TableCap = 32
  Alphabet <- NoSet
  NamePool <- NoSet
  MaxChars = 0
INVARIANT Safety
POSTCONDITION TraceAccepted
CHECK_DEADLOCK FALSE
