------------------------------ MODULE RingBufBig ------------------------------
(* librfn/ringbuf.c as a sequential object over rings of up to 2^32 bytes     *)
(* (property C05: "every buffer length >= 2, every starting position of the  *)
(* read/write indices").  TLC integers end at 2^31 - 1, so an index is a pair *)
(* <<hi, lo>> of halves below H (H = 2^16 for the real code; a small H in the *)
(* bounded model, so that carries between the halves are exercised).  One     *)
(* action per API call; the ring's contents are the sequence of unread bytes  *)
(* (bytes that were already in the ring when the indices were placed have      *)
(* unknown values: they are only counted; a get of one of them returns -2).    *)
EXTENDS Naturals, Integers, Sequences

CONSTANTS H, Lens, MaxOps
VARIABLES len, r, w,
          unk,      \* number (a pair, like an index) of unread bytes that were already in the ring when the indices were placed
          known,    \* the unread bytes put since, oldest first (they follow the unknown ones)
          ret, nops
vars == <<len, r, w, unk, known, ret, nops>>

IsIdx(x) == x[1] \in 0..(H-1) /\ x[2] \in 0..(H-1)
Val(x) == x[1] * H + x[2]                     \* only used by the bounded model's invariants (small H)
Less(a, b) == a[1] < b[1] \/ (a[1] = b[1] /\ a[2] < b[2])
Succ(x) == IF x[2] = H - 1 THEN <<x[1] + 1, 0>> ELSE <<x[1], x[2] + 1>>
NextIdx(x) == IF Succ(x) = len THEN <<0, 0>> ELSE Succ(x)         \* the code's "if (++i >= buf_len) i -= buf_len"
Zero == <<0, 0>>

Pred(x) == IF x[2] = 0 THEN <<x[1] - 1, H - 1>> ELSE <<x[1], x[2] - 1>>
(* place the indices anywhere; `held` = how many (unknown) bytes lie between them *)
Place(l, r0, w0, held) ==
  /\ (IsIdx(l) \/ l = <<H, 0>>) /\ Less(<<0, 1>>, l) /\ Less(r0, l) /\ Less(w0, l)     \* <<H, 0>>: all the indices can address (H^2 bytes)
  /\ IsIdx(r0) /\ IsIdx(w0)
  /\ len' = l /\ r' = r0 /\ w' = w0 /\ unk' = held /\ known' = <<>> /\ ret' = 0 /\ nops' = 0

Put(b) ==      \* refused iff the ring holds len - 1 unread bytes, i.e. the slot after w is r
  /\ IF NextIdx(w) = r THEN ret' = 0 /\ UNCHANGED <<w, known>>
                       ELSE ret' = 1 /\ w' = NextIdx(w) /\ known' = Append(known, b)
  /\ nops' = nops + 1 /\ UNCHANGED <<len, r, unk>>
Get ==
  /\ IF r = w THEN ret' = -1 /\ UNCHANGED <<r, unk, known>>
     ELSE IF unk # Zero THEN ret' = -2 /\ r' = NextIdx(r) /\ unk' = Pred(unk) /\ UNCHANGED known
     ELSE ret' = Head(known) /\ r' = NextIdx(r) /\ known' = Tail(known) /\ UNCHANGED unk
  /\ nops' = nops + 1 /\ UNCHANGED <<len, w>>
Empty == ret' = (IF r = w THEN 1 ELSE 0) /\ nops' = nops + 1 /\ UNCHANGED <<len, r, w, unk, known>>

(* bounded model: every length in Lens, every starting position, empty ring *)
Init == /\ len \in Lens /\ r \in {x \in (0..(H-1)) \X (0..(H-1)) : Less(x, len)} /\ w = r
        /\ unk = Zero /\ known = <<>> /\ ret = 0 /\ nops = 0
Next == (\E b \in {1, 255} : Put(b)) \/ Get \/ Empty
Spec == Init /\ [][Next]_vars
Bound == nops < MaxOps

(* the unread bytes are exactly the distance from r to w round the ring, never more than len - 1: one slot stays empty *)
Distance == (Val(w) + Val(len) - Val(r)) % Val(len)
Counts == Val(unk) + Len(known) = Distance /\ Distance <= Val(len) - 1
InRing == Less(r, len) /\ Less(w, len)
Safety == Counts /\ InRing
McLens == {<<0, 2>>, <<0, 3>>, <<1, 0>>, <<1, 1>>, <<1, 3>>, <<2, 0>>, <<3, 3>>, <<4, 0>>}      \* bounded model with H = 4: lengths 2, 3, 4, 5, 7, 8, 15, 16 (= H^2)
=============================================================================
