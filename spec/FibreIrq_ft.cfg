INIT Init
NEXT Next
CONSTANTS
  MainProg <- MP5
  IsrProg <- IP_F
  AQDepth = 8
  EQDepth = 2
  SPeriod = 2
  Discipline = "threads"
  MaxNest = 2
  LoopForever = FALSE
  FastPathChecksAtomicQ = TRUE
  Sleeper = FALSE
  SRun = FALSE
VIEW MCView
INVARIANT Safety
PROPERTY RetSeesCompleted
CHECK_DEADLOCK FALSE
