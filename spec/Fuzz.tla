--------------------------------- MODULE Fuzz --------------------------------
(* Growth beyond the listed properties: librfn/fuzz.c, the approximate       *)
(* comparisons the test-suite's asserteq() is made of.  Restricted to where  *)
(* the floating-point arithmetic of the code is exact - integer-valued       *)
(* operands of magnitude below 2^20, tolerances 1 + 2^-bits with bits <= 10  *)
(* (float: 24-bit significand, 2^20 * (2^10 + 1) needs 31: the float         *)
(* variants are driven below 2^12) - so that integers decide them.           *)
(*  fuzzcmpb(a, b, bits): same sign (zero counts as non-negative) and the    *)
(*      smaller magnitude times (1 + 2^-bits) reaches the larger;            *)
(*  fuzzcmpe(a, b, e): |a - b| <= e.                                         *)
EXTENDS Naturals, Integers
Abs(x) == IF x < 0 THEN -x ELSE x
Pow2(n) == 2 ^ n
SameSign(a, b) == (a >= 0) = (b >= 0)
Lo(a, b) == IF Abs(a) <= Abs(b) THEN Abs(a) ELSE Abs(b)
Hi(a, b) == IF Abs(a) <= Abs(b) THEN Abs(b) ELSE Abs(a)
CmpB(a, b, bits) == SameSign(a, b) /\ Lo(a, b) * (Pow2(bits) + 1) >= Hi(a, b) * Pow2(bits)
CmpE(a, b, e) == Abs(a - b) <= e
B2I(x) == IF x THEN 1 ELSE 0
=============================================================================
